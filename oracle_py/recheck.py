#!/usr/bin/env python3
"""Cross-checks the harness's exact arithmetic with python's fractions.Fraction.

  recheck.py --self-test        : runs `dverif SELFTEST`, which prints (matrix, sign) pairs
                                  decided by exact.rs, and re-decides each with Fraction.
Exit 0 when every sign agrees, 2 otherwise (a harness error, never a property violation).
"""
import json, os, subprocess, sys
from fractions import Fraction

ROOT = os.path.dirname(os.path.dirname(os.path.abspath(__file__)))


def det(m):
    n = len(m)
    m = [row[:] for row in m]
    d = Fraction(1)
    for c in range(n):
        piv = None
        for r in range(c, n):
            if m[r][c] != 0:
                piv = r
                break
        if piv is None:
            return Fraction(0)
        if piv != c:
            m[c], m[piv] = m[piv], m[c]
            d = -d
        d *= m[c][c]
        for r in range(c + 1, n):
            f = m[r][c] / m[c][c]
            if f != 0:
                for k in range(c, n):
                    m[r][k] -= f * m[c][k]
    return d


def f64(bits_hex):
    import struct
    return Fraction(struct.unpack(">d", bytes.fromhex(bits_hex))[0])


def main():
    binp = os.path.join(ROOT, "harness", "target", "release", "dverif")
    if not os.path.exists(binp):
        print("recheck: harness binary missing", file=sys.stderr)
        return 2
    p = subprocess.run([binp, "SELFTEST", "--seed", os.environ.get("VERIF_SEED", "1") or "1"], capture_output=True, text=True)
    if p.returncode != 0:
        print(p.stdout[-2000:], p.stderr[-2000:])
        return 2
    n = 0
    for line in p.stdout.splitlines():
        if not line.startswith("{"):
            continue
        rec = json.loads(line)
        if rec.get("kind") == "det":
            m = [[f64(x) for x in row] for row in rec["matrix"]]
            s = det(m)
            sign = (s > 0) - (s < 0)
            if sign != rec["sign"]:
                print("recheck: DISAGREEMENT on determinant", rec)
                return 2
            n += 1
        elif rec.get("kind") == "insphere":
            pts = [[f64(x) for x in p_] for p_ in rec["simplex"]]
            t = [f64(x) for x in rec["test"]]
            # geometric definition: circumcentre by solving 2(p_i - p_0).c = |p_i|^2 - |p_0|^2
            d = len(t)
            a = [[2 * (pts[i][j] - pts[0][j]) for j in range(d)] for i in range(1, d + 1)]
            b = [sum(x * x for x in pts[i]) - sum(x * x for x in pts[0]) for i in range(1, d + 1)]
            da = det(a)
            if da == 0:
                expect = None
            else:
                c = []
                for j in range(d):
                    aj = [row[:] for row in a]
                    for i in range(d):
                        aj[i][j] = b[i]
                    c.append(det(aj) / da)
                r2 = sum((pts[0][j] - c[j]) ** 2 for j in range(d))
                t2 = sum((t[j] - c[j]) ** 2 for j in range(d))
                expect = (r2 > t2) - (r2 < t2)
            if expect != rec["sign"]:
                print("recheck: DISAGREEMENT on insphere", rec, expect)
                return 2
            n += 1
    if n < 100:
        print("recheck: too few records", n)
        return 2
    print(f"recheck: {n} exact decisions re-decided with fractions.Fraction, all agree")
    return 0


if __name__ == "__main__":
    sys.exit(main())
