//! RefCheck: independent recomputation of validation Levels 1-3, convexity of the boundary and
//! the exact Level 4 (empty circumsphere) from a `RefModel`.
//!
//! Faces are sorted vectors of vertex keys (never the library's 64-bit facet hash). Every
//! condition is a *necessary* condition of the documented level.

use crate::exact::{self, Band};
use crate::model::{RefModel, vk_u64};
use delaunay::core::triangulation_data_structure::{CellKey, VertexKey};
use std::collections::{BTreeMap, BTreeSet, HashMap, HashSet};

#[derive(Clone, Copy, Debug, PartialEq, Eq)]
pub enum Guarantee {
    Pseudomanifold,
    PLManifold,
    PLManifoldStrict,
}

impl Guarantee {
    pub fn from_lib(g: delaunay::core::triangulation::TopologyGuarantee) -> Self {
        use delaunay::core::triangulation::TopologyGuarantee as T;
        match g {
            T::Pseudomanifold => Guarantee::Pseudomanifold,
            T::PLManifold => Guarantee::PLManifold,
            T::PLManifoldStrict => Guarantee::PLManifoldStrict,
        }
    }
    pub fn to_lib(self) -> delaunay::core::triangulation::TopologyGuarantee {
        use delaunay::core::triangulation::TopologyGuarantee as T;
        match self {
            Guarantee::Pseudomanifold => T::Pseudomanifold,
            Guarantee::PLManifold => T::PLManifold,
            Guarantee::PLManifoldStrict => T::PLManifoldStrict,
        }
    }
    pub fn ridge_links(self) -> bool {
        self != Guarantee::Pseudomanifold
    }
    pub fn vertex_links_always(self) -> bool {
        self == Guarantee::PLManifoldStrict
    }
    pub fn vertex_links_at_completion(self) -> bool {
        self != Guarantee::Pseudomanifold
    }
}

pub type Face = Vec<u64>;

fn sorted_face(keys: impl Iterator<Item = VertexKey>) -> Face {
    let mut f: Face = keys.map(vk_u64).collect();
    f.sort_unstable();
    f
}

/// facet (sorted vertex keys) -> list of (cell index, slot opposite)
pub fn facet_map<const D: usize>(m: &RefModel<D>) -> BTreeMap<Face, Vec<(usize, usize)>> {
    let mut map: BTreeMap<Face, Vec<(usize, usize)>> = BTreeMap::new();
    for (ci, c) in m.cells.iter().enumerate() {
        for i in 0..c.v.len() {
            let f = sorted_face(c.v.iter().enumerate().filter(|(j, _)| *j != i).map(|(_, k)| *k));
            map.entry(f).or_default().push((ci, i));
        }
    }
    map
}

// ---------------------------------------------------------------------------------------------
// Level 1
// ---------------------------------------------------------------------------------------------

pub fn check_l1<const D: usize>(m: &RefModel<D>) -> Vec<String> {
    let mut fails = Vec::new();
    for v in &m.verts {
        if v.p.iter().any(|x| !x.is_finite()) {
            fails.push(format!("L1 vertex {:?} has a non-finite coordinate", v.key));
        }
        if v.uuid.is_nil() {
            fails.push(format!("L1 vertex {:?} has nil uuid", v.key));
        }
    }
    for c in &m.cells {
        if c.uuid.is_nil() {
            fails.push(format!("L1 cell {:?} has nil uuid", c.key));
        }
        if c.v.len() != D + 1 {
            fails.push(format!("L1 cell {:?} has {} vertices", c.key, c.v.len()));
        }
        let set: HashSet<_> = c.v.iter().collect();
        if set.len() != c.v.len() {
            fails.push(format!("L1 cell {:?} repeats a vertex", c.key));
        }
        if let Some(nb) = &c.nb {
            if nb.len() != D + 1 {
                fails.push(format!("L1 cell {:?} neighbor buffer length {}", c.key, nb.len()));
            }
        }
    }
    fails
}

// ---------------------------------------------------------------------------------------------
// Level 2
// ---------------------------------------------------------------------------------------------

fn perm_parity_odd(src: &[u64], dst: &[u64]) -> Option<bool> {
    if src.len() != dst.len() {
        return None;
    }
    let mut pos = Vec::with_capacity(src.len());
    for s in src {
        pos.push(dst.iter().position(|d| d == s)?);
    }
    let mut odd = false;
    for i in 0..pos.len() {
        for j in i + 1..pos.len() {
            if pos[i] > pos[j] {
                odd = !odd;
            }
        }
    }
    Some(odd)
}

/// Level 2 (structure). Assumes nothing; reports every failure it finds. Periodic models (cells
/// with lattice offsets) get the reduced check `check_l2_periodic`.
pub fn check_l2<const D: usize>(m: &RefModel<D>) -> Vec<String> {
    let mut fails = Vec::new();
    // 1. uuid <-> key maps
    let mut seen_vu = HashSet::new();
    for (i, v) in m.verts.iter().enumerate() {
        if m.uuid_to_vkey[i] != Some(v.key) {
            fails.push(format!("L2 vertex uuid map: {:?} -> {:?}, expected {:?}", v.uuid, m.uuid_to_vkey[i], v.key));
        }
        if !seen_vu.insert(v.uuid) {
            fails.push(format!("L2 duplicate vertex uuid {:?}", v.uuid));
        }
    }
    let mut seen_cu = HashSet::new();
    for (i, c) in m.cells.iter().enumerate() {
        if m.uuid_to_ckey[i] != Some(c.key) {
            fails.push(format!("L2 cell uuid map: {:?} -> {:?}, expected {:?}", c.uuid, m.uuid_to_ckey[i], c.key));
        }
        if !seen_cu.insert(c.uuid) {
            fails.push(format!("L2 duplicate cell uuid {:?}", c.uuid));
        }
    }
    if m.n_vertices_reported != m.verts.len() || m.n_cells_reported != m.cells.len() {
        fails.push("L2 reported counts differ from iteration".into());
    }
    // 2. cell vertex keys live
    let mut keys_ok = true;
    for c in &m.cells {
        for &k in &c.v {
            if !m.vidx.contains_key(&k) {
                fails.push(format!("L2 cell {:?} references dead vertex {:?}", c.key, k));
                keys_ok = false;
            }
        }
    }
    // 3. incidence
    for v in &m.verts {
        if let Some(ic) = v.incident {
            match m.cell(ic) {
                None => fails.push(format!("L2 vertex {:?} incident_cell dangling", v.key)),
                Some(c) => {
                    if !c.v.contains(&v.key) {
                        fails.push(format!("L2 vertex {:?} incident_cell does not contain it", v.key));
                    }
                }
            }
        }
    }
    if !keys_ok {
        return fails;
    }
    let periodic = m.is_periodic();
    // 4. duplicate cells
    {
        let mut seen: HashMap<(Face, Vec<Vec<i8>>), CellKey> = HashMap::new();
        for c in &m.cells {
            let mut pairs: Vec<(u64, Vec<i8>)> = c
                .v
                .iter()
                .enumerate()
                .map(|(i, &k)| (vk_u64(k), c.offsets.as_ref().map(|o| o.get(i).map(|a| a.to_vec()).unwrap_or_default()).unwrap_or_default()))
                .collect();
            pairs.sort();
            let key = (pairs.iter().map(|p| p.0).collect::<Vec<_>>(), pairs.into_iter().map(|p| p.1).collect::<Vec<_>>());
            if let Some(o) = seen.insert(key, c.key) {
                fails.push(format!("L2 duplicate cells {:?} and {:?}", o, c.key));
            }
        }
    }
    if periodic {
        fails.extend(check_l2_periodic(m));
        return fails;
    }
    // 5./6. facet sharing and neighbour pointers
    let fm = facet_map(m);
    let mut expected_nb: Vec<Vec<Option<usize>>> = m.cells.iter().map(|c| vec![None; c.v.len()]).collect();
    let mut over_shared = false;
    for (f, inc) in &fm {
        match inc.len() {
            1 => {}
            2 => {
                expected_nb[inc[0].0][inc[0].1] = Some(inc[1].0);
                expected_nb[inc[1].0][inc[1].1] = Some(inc[0].0);
            }
            n => {
                over_shared = true;
                fails.push(format!("L2 facet {:?} shared by {} cells", f, n));
            }
        }
    }
    for (ci, c) in m.cells.iter().enumerate() {
        if let Some(nb) = &c.nb {
            if nb.len() != D + 1 {
                fails.push(format!("L2 cell {:?} neighbor buffer length {}", c.key, nb.len()));
                continue;
            }
        }
        if over_shared {
            continue;
        }
        for i in 0..c.v.len() {
            let actual = c.nb.as_ref().and_then(|n| n.get(i).copied().flatten());
            let expected = expected_nb[ci][i].map(|j| m.cells[j].key);
            if actual != expected {
                fails.push(format!("L2 cell {:?} slot {} neighbor {:?}, expected {:?}", c.key, i, actual, expected));
            }
        }
    }
    // 7. coherent orientation (combinatorial): for each interior facet, the induced orders differ
    //    by a permutation whose parity must be odd exactly when (i + j) is even.
    if !over_shared && fails.is_empty() {
        for inc in fm.values() {
            if inc.len() != 2 {
                continue;
            }
            let (a, i) = inc[0];
            let (b, j) = inc[1];
            let fa: Vec<u64> = m.cells[a].v.iter().enumerate().filter(|(s, _)| *s != i).map(|(_, k)| vk_u64(*k)).collect();
            let fb: Vec<u64> = m.cells[b].v.iter().enumerate().filter(|(s, _)| *s != j).map(|(_, k)| vk_u64(*k)).collect();
            match perm_parity_odd(&fa, &fb) {
                None => fails.push("L2 orientation: facet orders not permutations of each other".into()),
                Some(odd) => {
                    let expected_odd = (i + j) % 2 == 0;
                    if odd != expected_odd {
                        fails.push(format!("L2 incoherent orientation between {:?} and {:?}", m.cells[a].key, m.cells[b].key));
                    }
                }
            }
        }
    }
    fails
}

/// Reduced structural check for periodic (quotient) complexes: every neighbour slot is filled,
/// points to a live cell, and the relation is mutual.
pub fn check_l2_periodic<const D: usize>(m: &RefModel<D>) -> Vec<String> {
    let mut fails = Vec::new();
    for c in &m.cells {
        let Some(nb) = &c.nb else {
            fails.push(format!("L2p cell {:?} has no neighbor buffer", c.key));
            continue;
        };
        if nb.len() != D + 1 {
            fails.push(format!("L2p cell {:?} neighbor buffer length {}", c.key, nb.len()));
            continue;
        }
        for (i, n) in nb.iter().enumerate() {
            match n {
                None => {}
                Some(k) => match m.cell(*k) {
                    None => fails.push(format!("L2p cell {:?} slot {} dangling", c.key, i)),
                    Some(o) => {
                        let back = o.nb.as_ref().map(|b| b.iter().any(|x| *x == Some(c.key))).unwrap_or(false);
                        if !back {
                            fails.push(format!("L2p cell {:?} slot {} -> {:?} not mutual", c.key, i, k));
                        }
                        // the two cells must share at least D vertices (as keys)
                        let shared = c.v.iter().filter(|k| o.v.contains(k)).count();
                        if shared < D && o.key != c.key {
                            fails.push(format!("L2p cell {:?} slot {} -> {:?} shares only {} vertices", c.key, i, k, shared));
                        }
                    }
                },
            }
        }
    }
    fails
}

// ---------------------------------------------------------------------------------------------
// Level 3
// ---------------------------------------------------------------------------------------------

#[derive(Clone, Debug, Default)]
pub struct L3 {
    pub connected: Vec<String>,
    pub facet_degree: Vec<String>,
    pub closed_boundary: Vec<String>,
    pub ridge_links: Vec<String>,
    pub vertex_links: Vec<String>,
    pub isolated: Vec<String>,
    pub euler: Vec<String>,
    /// cells whose exact orientation is negative or zero beyond doubt
    pub orientation: Vec<String>,
    /// cells whose exact orientation is non-zero but inside the widened band (not judged)
    pub orientation_ambiguous: usize,
    pub chi: i64,
    pub n_boundary_facets: usize,
}

impl L3 {
    /// Failures of `Triangulation::is_valid()` at the given guarantee.
    pub fn fails_is_valid(&self, g: Guarantee) -> Vec<String> {
        let mut f = Vec::new();
        f.extend(self.connected.iter().cloned());
        f.extend(self.facet_degree.iter().cloned());
        f.extend(self.closed_boundary.iter().cloned());
        if g.ridge_links() {
            f.extend(self.ridge_links.iter().cloned());
        }
        if g.vertex_links_always() {
            f.extend(self.vertex_links.iter().cloned());
        }
        f.extend(self.isolated.iter().cloned());
        f.extend(self.euler.iter().cloned());
        f.extend(self.orientation.iter().cloned());
        f
    }
    /// Failures of the completion-time check (vertex links for PLManifold*).
    pub fn fails_completion(&self, g: Guarantee, n_cells: usize) -> Vec<String> {
        if g.vertex_links_at_completion() && n_cells > 0 { self.vertex_links.clone() } else { Vec::new() }
    }
}

fn subsets(items: &[u64], k: usize) -> Vec<Vec<u64>> {
    let n = items.len();
    let mut out = Vec::new();
    if k > n {
        return out;
    }
    if k == 0 {
        out.push(Vec::new());
        return out;
    }
    let mut idx: Vec<usize> = (0..k).collect();
    loop {
        out.push(idx.iter().map(|&i| items[i]).collect());
        let mut i = k;
        while i > 0 && idx[i - 1] == i - 1 + n - k {
            i -= 1;
        }
        if i == 0 {
            return out;
        }
        idx[i - 1] += 1;
        for j in i..k {
            idx[j] = idx[j - 1] + 1;
        }
    }
}

/// Euler characteristic: f0 = all stored vertices (as the library documents), f_k for k>=1 by
/// enumerating all (k+1)-subsets of every cell.
pub fn euler_chi<const D: usize>(m: &RefModel<D>) -> (i64, Vec<usize>) {
    let mut f = vec![0usize; D + 1];
    f[0] = m.verts.len();
    if m.cells.is_empty() {
        let chi = f.iter().enumerate().map(|(k, &c)| if k % 2 == 0 { c as i64 } else { -(c as i64) }).sum();
        return (chi, f);
    }
    for k in 1..=D {
        let mut set: BTreeSet<Vec<u64>> = BTreeSet::new();
        for c in &m.cells {
            let mut ks: Vec<u64> = c.v.iter().map(|&x| vk_u64(x)).collect();
            ks.sort_unstable();
            ks.dedup();
            for s in subsets(&ks, k + 1) {
                set.insert(s);
            }
        }
        f[k] = set.len();
    }
    let chi = f.iter().enumerate().map(|(k, &c)| if k % 2 == 0 { c as i64 } else { -(c as i64) }).sum();
    (chi, f)
}

/// Is a graph given by an edge list (simple, deduplicated) one cycle or one path?
fn graph_is_cycle_or_path(edges: &BTreeSet<(u64, u64)>) -> bool {
    let mut adj: HashMap<u64, Vec<u64>> = HashMap::new();
    for &(a, b) in edges {
        adj.entry(a).or_default().push(b);
        adj.entry(b).or_default().push(a);
    }
    if adj.is_empty() {
        return true;
    }
    let maxdeg = adj.values().map(|v| v.len()).max().unwrap_or(0);
    let deg1 = adj.values().filter(|v| v.len() == 1).count();
    let start = *adj.keys().next().unwrap();
    let mut seen = HashSet::new();
    let mut stack = vec![start];
    while let Some(x) = stack.pop() {
        if !seen.insert(x) {
            continue;
        }
        for &y in &adj[&x] {
            if !seen.contains(&y) {
                stack.push(y);
            }
        }
    }
    seen.len() == adj.len() && maxdeg <= 2 && (deg1 == 0 || deg1 == 2)
}

/// Vertex link check at the documented strength: D=2 cycle/path; D=3 connected closed/bordered
/// surface with chi 2 / (chi 1 and one boundary component); D>=4 connected pseudo-manifold
/// with closed boundary (empty for interior vertices).
fn vertex_link_ok(link: &[Vec<u64>], d: usize, interior: bool) -> bool {
    if link.is_empty() {
        return false;
    }
    if d == 1 {
        let vs: BTreeSet<u64> = link.iter().flatten().copied().collect();
        return if interior { vs.len() == 2 } else { vs.len() == 1 };
    }
    if d == 2 {
        // link simplices are edges
        let mut edges = BTreeSet::new();
        for e in link {
            if e.len() != 2 {
                return false;
            }
            edges.insert((e[0].min(e[1]), e[0].max(e[1])));
        }
        let mut deg: HashMap<u64, usize> = HashMap::new();
        for &(a, b) in &edges {
            *deg.entry(a).or_default() += 1;
            *deg.entry(b).or_default() += 1;
        }
        let deg1 = deg.values().filter(|&&x| x == 1).count();
        if !graph_is_cycle_or_path(&edges) {
            return false;
        }
        return if interior { deg1 == 0 } else { deg1 == 2 };
    }
    // connectivity of the 1-skeleton
    let mut adj: HashMap<u64, HashSet<u64>> = HashMap::new();
    for s in link {
        if s.len() != d {
            return false;
        }
        for i in 0..s.len() {
            for j in i + 1..s.len() {
                adj.entry(s[i]).or_default().insert(s[j]);
                adj.entry(s[j]).or_default().insert(s[i]);
            }
        }
    }
    let start = *adj.keys().next().unwrap();
    let mut seen = HashSet::new();
    let mut stack = vec![start];
    while let Some(x) = stack.pop() {
        if !seen.insert(x) {
            continue;
        }
        for &y in &adj[&x] {
            if !seen.contains(&y) {
                stack.push(y);
            }
        }
    }
    if seen.len() != adj.len() {
        return false;
    }
    // facet degrees within the link
    let mut fcount: BTreeMap<Vec<u64>, usize> = BTreeMap::new();
    for s in link {
        let mut ss = s.clone();
        ss.sort_unstable();
        for omit in 0..ss.len() {
            let f: Vec<u64> = ss.iter().enumerate().filter(|(i, _)| *i != omit).map(|(_, x)| *x).collect();
            *fcount.entry(f).or_default() += 1;
        }
    }
    let mut bfacets: Vec<&Vec<u64>> = Vec::new();
    for (f, &c) in &fcount {
        match c {
            1 => bfacets.push(f),
            2 => {}
            _ => return false,
        }
    }
    if interior && !bfacets.is_empty() {
        return false;
    }
    // strong connectivity: the link simplices must be connected through shared (d-2)-faces. Two balls
    // or spheres glued along a lower-dimensional face (a star pinched at an edge, triangle, ...) have a
    // connected 1-skeleton and proper facet degrees but are not a ball / sphere.
    {
        let n = link.len();
        let mut parent: Vec<usize> = (0..n).collect();
        fn find(p: &mut Vec<usize>, x: usize) -> usize {
            let mut r = x;
            while p[r] != r {
                r = p[r];
            }
            let mut y = x;
            while p[y] != r {
                let nx = p[y];
                p[y] = r;
                y = nx;
            }
            r
        }
        let mut owner: BTreeMap<Vec<u64>, usize> = BTreeMap::new();
        for (i, s) in link.iter().enumerate() {
            let mut ss = s.clone();
            ss.sort_unstable();
            for omit in 0..ss.len() {
                let f: Vec<u64> = ss.iter().enumerate().filter(|(k, _)| *k != omit).map(|(_, x)| *x).collect();
                match owner.get(&f) {
                    Some(&j) => {
                        let (a, b) = (find(&mut parent, i), find(&mut parent, j));
                        parent[a] = b;
                    }
                    None => {
                        owner.insert(f, i);
                    }
                }
            }
        }
        let root = find(&mut parent, 0);
        if (1..n).any(|i| find(&mut parent, i) != root) {
            return false;
        }
    }
    if !bfacets.is_empty() {
        let mut rcount: BTreeMap<Vec<u64>, usize> = BTreeMap::new();
        for f in &bfacets {
            for omit in 0..f.len() {
                let r: Vec<u64> = f.iter().enumerate().filter(|(i, _)| *i != omit).map(|(_, x)| *x).collect();
                *rcount.entry(r).or_default() += 1;
            }
        }
        if rcount.values().any(|&c| c != 2) {
            return false;
        }
    }
    if d == 3 {
        // triangulated surface: chi and boundary components
        let vs: BTreeSet<u64> = link.iter().flatten().copied().collect();
        let mut es: BTreeSet<(u64, u64)> = BTreeSet::new();
        let mut ecount: BTreeMap<(u64, u64), usize> = BTreeMap::new();
        for t in link {
            for (a, b) in [(t[0], t[1]), (t[1], t[2]), (t[0], t[2])] {
                let e = (a.min(b), a.max(b));
                es.insert(e);
                *ecount.entry(e).or_default() += 1;
            }
        }
        let chi = vs.len() as i64 - es.len() as i64 + link.len() as i64;
        // boundary components
        let mut badj: HashMap<u64, Vec<u64>> = HashMap::new();
        for (&(a, b), &c) in &ecount {
            if c == 1 {
                badj.entry(a).or_default().push(b);
                badj.entry(b).or_default().push(a);
            }
        }
        let mut comps = 0;
        let mut seen = HashSet::new();
        for &s in badj.keys() {
            if seen.contains(&s) {
                continue;
            }
            comps += 1;
            let mut st = vec![s];
            while let Some(x) = st.pop() {
                if !seen.insert(x) {
                    continue;
                }
                for &y in &badj[&x] {
                    if !seen.contains(&y) {
                        st.push(y);
                    }
                }
            }
        }
        return if interior { chi == 2 && comps == 0 } else { chi == 1 && comps == 1 };
    }
    true
}

/// Level 3 components. Requires a model whose L1/L2 are clean for meaningful results (it does
/// not crash otherwise). `expect_chi`: Some(x) to force the expectation (periodic torus: 0).
pub fn check_l3<const D: usize>(m: &RefModel<D>, expect_chi: Option<i64>) -> L3 {
    let mut r = L3::default();
    let periodic = m.is_periodic();
    // connectedness over neighbour pointers (as documented: cell neighbour graph)
    if !m.cells.is_empty() {
        let mut seen = vec![false; m.cells.len()];
        let mut stack = vec![0usize];
        let mut n = 0;
        while let Some(i) = stack.pop() {
            if seen[i] {
                continue;
            }
            seen[i] = true;
            n += 1;
            if let Some(nb) = &m.cells[i].nb {
                for k in nb.iter().flatten() {
                    if let Some(&j) = m.cidx.get(k) {
                        if !seen[j] {
                            stack.push(j);
                        }
                    }
                }
            }
        }
        if n != m.cells.len() {
            r.connected.push(format!("L3 cell graph disconnected: reached {} of {}", n, m.cells.len()));
        }
    }
    // isolated vertices
    if !m.verts.is_empty() {
        let used: HashSet<VertexKey> = m.cells.iter().flat_map(|c| c.v.iter().copied()).collect();
        for v in &m.verts {
            if !used.contains(&v.key) {
                r.isolated.push(format!("L3 isolated vertex {:?}", v.key));
            }
        }
    }
    if periodic {
        // quotient complexes: facets are identified through lattice offsets, which the raw
        // vertex sets do not show. Only chi (when requested) and boundary = no None neighbour.
        r.n_boundary_facets = m.cells.iter().map(|c| c.nb.as_ref().map(|n| n.iter().filter(|x| x.is_none()).count()).unwrap_or(c.v.len())).sum();
        return r;
    }
    let fm = facet_map(m);
    for (f, inc) in &fm {
        if inc.len() > 2 {
            r.facet_degree.push(format!("L3 facet {:?} in {} cells", f, inc.len()));
        }
    }
    // closed boundary
    let bfacets: Vec<&Face> = fm.iter().filter(|(_, inc)| inc.len() == 1).map(|(f, _)| f).collect();
    r.n_boundary_facets = bfacets.len();
    if D >= 2 {
        let mut rc: BTreeMap<Vec<u64>, usize> = BTreeMap::new();
        for f in &bfacets {
            for omit in 0..f.len() {
                let rr: Vec<u64> = f.iter().enumerate().filter(|(i, _)| *i != omit).map(|(_, x)| *x).collect();
                *rc.entry(rr).or_default() += 1;
            }
        }
        for (rr, c) in rc {
            if c != 2 {
                r.closed_boundary.push(format!("L3 boundary ridge {:?} in {} boundary facets", rr, c));
            }
        }
    }
    // ridge links: ridge = (D-1)-subset of a cell; link edges = the two remaining vertices
    if D >= 2 {
        let mut links: BTreeMap<Vec<u64>, BTreeSet<(u64, u64)>> = BTreeMap::new();
        for c in &m.cells {
            let mut ks: Vec<u64> = c.v.iter().map(|&k| vk_u64(k)).collect();
            ks.sort_unstable();
            if ks.len() != D + 1 {
                continue;
            }
            for a in 0..ks.len() {
                for b in a + 1..ks.len() {
                    let ridge: Vec<u64> = ks.iter().enumerate().filter(|(i, _)| *i != a && *i != b).map(|(_, x)| *x).collect();
                    links.entry(ridge).or_default().insert((ks[a], ks[b]));
                }
            }
        }
        for (ridge, edges) in &links {
            if !graph_is_cycle_or_path(edges) {
                r.ridge_links.push(format!("L3 ridge {:?} link is not a cycle/path ({} edges)", ridge, edges.len()));
            }
        }
    }
    // vertex links
    if !m.cells.is_empty() {
        let bverts: HashSet<u64> = bfacets.iter().flat_map(|f| f.iter().copied()).collect();
        let mut stars: HashMap<u64, Vec<Vec<u64>>> = HashMap::new();
        for c in &m.cells {
            for (i, &k) in c.v.iter().enumerate() {
                let mut l: Vec<u64> = c.v.iter().enumerate().filter(|(j, _)| *j != i).map(|(_, x)| vk_u64(*x)).collect();
                l.sort_unstable();
                stars.entry(vk_u64(k)).or_default().push(l);
            }
        }
        for v in &m.verts {
            let k = vk_u64(v.key);
            let interior = !bverts.contains(&k);
            let link = stars.get(&k).cloned().unwrap_or_default();
            if !vertex_link_ok(&link, D, interior) {
                r.vertex_links.push(format!("L3 vertex {:?} link not a {}", v.key, if interior { "sphere" } else { "ball" }));
            }
        }
    }
    // Euler characteristic
    let (chi, _f) = euler_chi(m);
    r.chi = chi;
    let expected: Option<i64> = match expect_chi {
        Some(x) => Some(x),
        None => {
            if m.cells.is_empty() {
                Some(0)
            } else if m.cells.len() == 1 || !bfacets.is_empty() {
                Some(1)
            } else {
                Some(1 + if D % 2 == 0 { 1 } else { -1 })
            }
        }
    };
    // the documented "Empty" class expects chi = 0 but f0 counts stored vertices; the bootstrap
    // state (vertices, no cells) is handled by callers, not here.
    if let Some(e) = expected {
        if chi != e && !(m.cells.is_empty() && !m.verts.is_empty()) {
            r.euler.push(format!("L3 Euler characteristic {} expected {}", chi, e));
        }
    }
    // geometric orientation, exact
    for c in &m.cells {
        if c.v.len() != D + 1 {
            continue;
        }
        let Some(pts) = m.cell_points(c) else { continue };
        if pts.iter().any(|p| p.iter().any(|x| !x.is_finite())) {
            continue;
        }
        let arr: Vec<[f64; D]> = pts;
        let od = exact::orient_det(&arr);
        match exact::classify(&od, exact::tol_orient(&arr), exact::err_orient(&arr)) {
            Band::Decided(1) => {}
            Band::Decided(_) => r.orientation.push(format!("L3 cell {:?} negatively oriented (exact)", c.key)),
            Band::Zero => r.orientation.push(format!("L3 cell {:?} exactly flat", c.key)),
            Band::Ambiguous => r.orientation_ambiguous += 1,
        }
    }
    r
}

// ---------------------------------------------------------------------------------------------
// Convex boundary + exact Level 4
// ---------------------------------------------------------------------------------------------

#[derive(Clone, Debug, Default)]
pub struct ConvexReport {
    pub fails: Vec<String>,
    pub ambiguous: usize,
    pub judged: usize,
}

/// For every boundary facet, every vertex must lie weakly on the same side as the cell's
/// opposite vertex (exact orientation; non-zero values inside the band are not judged).
pub fn check_convex_boundary<const D: usize>(m: &RefModel<D>) -> ConvexReport {
    let mut r = ConvexReport::default();
    if m.is_periodic() {
        return r;
    }
    let fm = facet_map(m);
    for inc in fm.values() {
        if inc.len() != 1 {
            continue;
        }
        let (ci, slot) = inc[0];
        let c = &m.cells[ci];
        let Some(pts) = m.cell_points(c) else { continue };
        if pts.len() != D + 1 {
            continue;
        }
        let base = exact::orient_det(&pts);
        if base.is_zero() {
            continue;
        }
        let s0 = base.sign();
        for v in &m.verts {
            if c.v.contains(&v.key) {
                continue;
            }
            let mut q = pts.clone();
            q[slot] = v.p;
            let d = exact::orient_det(&q);
            r.judged += 1;
            if d.sign() == 0 || d.sign() == s0 {
                continue;
            }
            match exact::classify(&d, exact::tol_orient(&q), exact::err_orient(&q)) {
                Band::Decided(_) => r.fails.push(format!("vertex {:?} lies strictly outside boundary facet of cell {:?} (slot {})", v.key, c.key, slot)),
                _ => r.ambiguous += 1,
            }
        }
    }
    r
}

#[derive(Clone, Debug, Default)]
pub struct DelaunayReport {
    /// (cell index, vertex index) pairs that are strictly inside beyond the widened band
    pub violations: Vec<(usize, usize)>,
    /// pairs strictly inside in exact arithmetic but within the widened band (not judged)
    pub ambiguous_inside: usize,
    /// pairs exactly on the sphere (excluding the cell's own vertices)
    pub cospherical: usize,
    pub pairs: usize,
    /// cells that are exactly flat / orientation inside the band (cannot be judged)
    pub unjudgeable_cells: usize,
    /// true iff every off-cell vertex is strictly outside beyond the band for every cell
    pub unique_certificate: bool,
}

pub fn check_delaunay<const D: usize>(m: &RefModel<D>) -> DelaunayReport {
    let mut r = DelaunayReport::default();
    r.unique_certificate = !m.cells.is_empty();
    for (ci, c) in m.cells.iter().enumerate() {
        let Some(pts) = m.cell_points(c) else {
            r.unique_certificate = false;
            continue;
        };
        if pts.len() != D + 1 || pts.iter().any(|p| p.iter().any(|x| !x.is_finite())) {
            r.unique_certificate = false;
            continue;
        }
        let od = exact::orient_det(&pts);
        let ob = exact::classify(&od, exact::tol_orient(&pts), exact::err_orient(&pts));
        let os = match ob {
            Band::Decided(s) => s,
            _ => {
                r.unjudgeable_cells += 1;
                r.unique_certificate = false;
                continue;
            }
        };
        for (vi, v) in m.verts.iter().enumerate() {
            if c.v.contains(&v.key) {
                continue;
            }
            if v.p.iter().any(|x| !x.is_finite()) {
                continue;
            }
            r.pairs += 1;
            let id = exact::insphere_det(&pts, &v.p);
            let s = id.sign() * os;
            if s == 0 {
                r.cospherical += 1;
                r.unique_certificate = false;
                continue;
            }
            let decided = matches!(exact::classify(&id, exact::tol_insphere(&pts, &v.p), exact::err_insphere(&pts, &v.p)), Band::Decided(_));
            if s > 0 {
                if decided {
                    r.violations.push((ci, vi));
                } else {
                    r.ambiguous_inside += 1;
                }
                r.unique_certificate = false;
            } else if !decided {
                r.unique_certificate = false;
            }
        }
    }
    r
}

// ---------------------------------------------------------------------------------------------
// Convenience: the whole stack
// ---------------------------------------------------------------------------------------------

#[derive(Clone, Debug)]
pub struct Stack {
    pub l1: Vec<String>,
    pub l2: Vec<String>,
    pub l3: L3,
}

impl Stack {
    pub fn compute<const D: usize>(m: &RefModel<D>) -> Self {
        Self { l1: check_l1(m), l2: check_l2(m), l3: check_l3(m, None) }
    }
    /// All failures of levels 1-3 at guarantee `g` (is_valid strength; add completion if asked).
    pub fn fails(&self, g: Guarantee, completion: bool, n_cells: usize) -> Vec<String> {
        let mut f = self.l1.clone();
        f.extend(self.l2.iter().cloned());
        f.extend(self.l3.fails_is_valid(g));
        if completion {
            f.extend(self.l3.fails_completion(g, n_cells));
        }
        f
    }
}

/// Documented bootstrap state: no cells and fewer than D+1 vertices.
pub fn is_bootstrap<const D: usize>(m: &RefModel<D>) -> bool {
    m.cells.is_empty() && m.verts.len() < D + 1
}
