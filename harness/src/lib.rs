//! dverif: runtime monitors for the 19 properties of acgetchell/delaunay.
#![allow(clippy::all)]
#![allow(dead_code)]

pub mod api;
pub mod common;
pub mod exact;
pub mod fingerprint;
pub mod hist;
pub mod r#gen;
pub mod model;
pub mod props;
pub mod refcheck;
pub mod rng;
pub mod tri;
