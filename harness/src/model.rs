//! RefModel: a plain-data copy of a triangulation, read only through the public read API.
//! Every oracle works on this copy, never on the library's own derived structures.

use delaunay::core::delaunay_triangulation::DelaunayTriangulation;
use delaunay::core::traits::data_type::DataType;
use delaunay::core::triangulation_data_structure::{CellKey, Tds, VertexKey};
use delaunay::geometry::kernel::Kernel;
use slotmap::Key;
use std::collections::HashMap;
use uuid::Uuid;

/// User data that the harness can observe as an integer.
pub trait DataI: DataType {
    fn to_i64(self) -> i64;
    fn from_i64(x: i64) -> Self;
}
impl DataI for () {
    fn to_i64(self) -> i64 {
        0
    }
    fn from_i64(_: i64) -> Self {}
}
impl DataI for i32 {
    fn to_i64(self) -> i64 {
        self as i64
    }
    fn from_i64(x: i64) -> Self {
        x as i32
    }
}

pub fn vk_u64(k: VertexKey) -> u64 {
    k.data().as_ffi()
}
pub fn ck_u64(k: CellKey) -> u64 {
    k.data().as_ffi()
}

#[derive(Clone, Debug, PartialEq)]
pub struct MVertex<const D: usize> {
    pub key: VertexKey,
    pub uuid: Uuid,
    pub p: [f64; D],
    pub data: Option<i64>,
    pub incident: Option<CellKey>,
}

#[derive(Clone, Debug, PartialEq)]
pub struct MCell<const D: usize> {
    pub key: CellKey,
    pub uuid: Uuid,
    /// vertex keys in slot order (length D+1 on valid cells; anything on corrupted ones)
    pub v: Vec<VertexKey>,
    /// neighbour buffer in slot order, `None` = buffer absent
    pub nb: Option<Vec<Option<CellKey>>>,
    pub data: Option<i64>,
    pub offsets: Option<Vec<[i8; D]>>,
}

#[derive(Clone, Debug)]
pub struct RefModel<const D: usize> {
    pub verts: Vec<MVertex<D>>,
    pub cells: Vec<MCell<D>>,
    pub vidx: HashMap<VertexKey, usize>,
    pub cidx: HashMap<CellKey, usize>,
    pub generation: u64,
    pub n_vertices_reported: usize,
    pub n_cells_reported: usize,
    pub dim_reported: i32,
    /// uuid -> key lookups as answered by the library's public lookup functions
    pub uuid_to_vkey: Vec<Option<VertexKey>>, // aligned with verts
    pub uuid_to_ckey: Vec<Option<CellKey>>,   // aligned with cells
}

impl<const D: usize> RefModel<D> {
    pub fn from_tds<U: DataI, V: DataI>(tds: &Tds<f64, U, V, D>) -> Self {
        let mut verts = Vec::new();
        let mut vidx = HashMap::new();
        for (k, v) in tds.vertices() {
            vidx.insert(k, verts.len());
            verts.push(MVertex {
                key: k,
                uuid: v.uuid(),
                p: *v.point().coords(),
                data: v.data.map(DataI::to_i64),
                incident: v.incident_cell,
            });
        }
        let mut cells = Vec::new();
        let mut cidx = HashMap::new();
        for (k, c) in tds.cells() {
            cidx.insert(k, cells.len());
            cells.push(MCell {
                key: k,
                uuid: c.uuid(),
                v: c.vertices().to_vec(),
                nb: c.neighbors().map(|n| n.iter().copied().collect()),
                data: c.data.map(DataI::to_i64),
                offsets: c.periodic_vertex_offsets().map(|o| o.to_vec()),
            });
        }
        let uuid_to_vkey = verts.iter().map(|v| tds.vertex_key_from_uuid(&v.uuid)).collect();
        let uuid_to_ckey = cells.iter().map(|c| tds.cell_key_from_uuid(&c.uuid)).collect();
        Self {
            verts,
            cells,
            vidx,
            cidx,
            generation: tds.generation(),
            n_vertices_reported: tds.number_of_vertices(),
            n_cells_reported: tds.number_of_cells(),
            dim_reported: tds.dim(),
            uuid_to_vkey,
            uuid_to_ckey,
        }
    }

    pub fn from_dt<K, U: DataI, V: DataI>(dt: &DelaunayTriangulation<K, U, V, D>) -> Self
    where
        K: Kernel<D, Scalar = f64>,
    {
        Self::from_tds(dt.tds())
    }

    pub fn vertex(&self, k: VertexKey) -> Option<&MVertex<D>> {
        self.vidx.get(&k).map(|&i| &self.verts[i])
    }
    pub fn cell(&self, k: CellKey) -> Option<&MCell<D>> {
        self.cidx.get(&k).map(|&i| &self.cells[i])
    }
    pub fn point(&self, k: VertexKey) -> Option<[f64; D]> {
        self.vertex(k).map(|v| v.p)
    }
    /// Coordinates of a cell's vertices in slot order (None if a key is dangling).
    pub fn cell_points(&self, c: &MCell<D>) -> Option<Vec<[f64; D]>> {
        c.v.iter().map(|&k| self.point(k)).collect()
    }
    pub fn is_periodic(&self) -> bool {
        self.cells.iter().any(|c| c.offsets.is_some())
    }
    /// Cells as sorted tuples of coordinate bit patterns (key-free identity of the complex).
    pub fn cells_as_coords(&self) -> Vec<Vec<[u64; D]>> {
        let mut out: Vec<Vec<[u64; D]>> = self
            .cells
            .iter()
            .filter_map(|c| {
                let mut pts: Vec<[u64; D]> = c
                    .v
                    .iter()
                    .map(|&k| self.point(k).map(|p| p.map(f64::to_bits)))
                    .collect::<Option<Vec<_>>>()?;
                pts.sort();
                Some(pts)
            })
            .collect();
        out.sort();
        out
    }
    /// Cells as sorted tuples of vertex UUIDs.
    pub fn cells_as_uuids(&self) -> Vec<Vec<Uuid>> {
        let mut out: Vec<Vec<Uuid>> = self
            .cells
            .iter()
            .filter_map(|c| {
                let mut us: Vec<Uuid> = c.v.iter().map(|&k| self.vertex(k).map(|v| v.uuid)).collect::<Option<Vec<_>>>()?;
                us.sort();
                Some(us)
            })
            .collect();
        out.sort();
        out
    }
    /// Cells as sorted tuples of vertex keys (u64).
    pub fn cells_as_keys(&self) -> Vec<Vec<u64>> {
        let mut out: Vec<Vec<u64>> = self
            .cells
            .iter()
            .map(|c| {
                let mut ks: Vec<u64> = c.v.iter().map(|&k| vk_u64(k)).collect();
                ks.sort();
                ks
            })
            .collect();
        out.sort();
        out
    }
    /// Vertex table keyed by UUID: (coordinate bits, data).
    pub fn vertex_table(&self) -> Vec<(Uuid, [u64; D], Option<i64>)> {
        let mut out: Vec<_> = self.verts.iter().map(|v| (v.uuid, v.p.map(f64::to_bits), v.data)).collect();
        out.sort();
        out
    }
}
