//! Deterministic PRNG (SplitMix64 seeding a xoshiro256**). No external crates.

#[derive(Clone, Debug)]
pub struct Rng {
    s: [u64; 4],
}

pub fn splitmix(x: &mut u64) -> u64 {
    *x = x.wrapping_add(0x9E3779B97F4A7C15);
    let mut z = *x;
    z = (z ^ (z >> 30)).wrapping_mul(0xBF58476D1CE4E5B9);
    z = (z ^ (z >> 27)).wrapping_mul(0x94D049BB133111EB);
    z ^ (z >> 31)
}

impl Rng {
    pub fn new(seed: u64) -> Self {
        let mut x = seed;
        let s = [splitmix(&mut x), splitmix(&mut x), splitmix(&mut x), splitmix(&mut x)];
        Self { s }
    }
    /// Independent stream derived from this seed and a label.
    pub fn derive(seed: u64, a: u64, b: u64) -> Self {
        let mut x = seed ^ a.wrapping_mul(0x9E3779B97F4A7C15) ^ b.wrapping_mul(0xD1B54A32D192ED03);
        let _ = splitmix(&mut x);
        Self::new(x)
    }
    pub fn next_u64(&mut self) -> u64 {
        let r = self.s[1].wrapping_mul(5).rotate_left(7).wrapping_mul(9);
        let t = self.s[1] << 17;
        self.s[2] ^= self.s[0];
        self.s[3] ^= self.s[1];
        self.s[1] ^= self.s[2];
        self.s[0] ^= self.s[3];
        self.s[2] ^= t;
        self.s[3] = self.s[3].rotate_left(45);
        r
    }
    /// uniform in 0..n (n > 0)
    pub fn below(&mut self, n: u64) -> u64 {
        debug_assert!(n > 0);
        // Lemire-style rejection is overkill here; modulo bias is irrelevant for workloads
        self.next_u64() % n
    }
    pub fn usize(&mut self, n: usize) -> usize {
        self.below(n as u64) as usize
    }
    pub fn range_i64(&mut self, lo: i64, hi: i64) -> i64 {
        lo + self.below((hi - lo + 1) as u64) as i64
    }
    pub fn bool(&mut self) -> bool {
        self.next_u64() & 1 == 1
    }
    pub fn chance(&mut self, num: u64, den: u64) -> bool {
        self.below(den) < num
    }
    /// uniform in [0,1) with 53 random bits
    pub fn f64(&mut self) -> f64 {
        (self.next_u64() >> 11) as f64 / (1u64 << 53) as f64
    }
    pub fn pick<'a, T>(&mut self, v: &'a [T]) -> &'a T {
        &v[self.usize(v.len())]
    }
    pub fn shuffle<T>(&mut self, v: &mut [T]) {
        for i in (1..v.len()).rev() {
            let j = self.usize(i + 1);
            v.swap(i, j);
        }
    }
    pub fn uuid(&mut self) -> uuid::Uuid {
        let a = self.next_u64();
        let b = self.next_u64();
        let mut bytes = [0u8; 16];
        bytes[..8].copy_from_slice(&a.to_le_bytes());
        bytes[8..].copy_from_slice(&b.to_le_bytes());
        // make it a well-formed v4 UUID
        bytes[6] = (bytes[6] & 0x0f) | 0x40;
        bytes[8] = (bytes[8] & 0x3f) | 0x80;
        uuid::Uuid::from_bytes(bytes)
    }
}
