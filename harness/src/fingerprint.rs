//! Full-state fingerprints of a triangulation, built from the RefModel plus configuration.

use crate::model::{RefModel, ck_u64, vk_u64};

/// Observable configuration that is not part of the Tds.
#[derive(Clone, Debug, PartialEq, Eq, Default)]
pub struct Config {
    pub validation_policy: String,
    pub repair_policy: String,
    pub check_policy: String,
    pub topology_guarantee: String,
    pub global_topology: String,
}

/// Everything observable, including keys, slot order, neighbour slots, incident cells, UUIDs,
/// data and counts. Generation is deliberately *not* included (it may advance on failed calls).
/// `incident` can be excluded because the library documents incident_cell as an arbitrary
/// incident cell hint that rebuilds may legitimately re-point (kept optional, default on).
#[derive(Clone, Debug, PartialEq, Eq)]
pub struct FullPrint {
    pub text: String,
}

pub fn full<const D: usize>(m: &RefModel<D>, cfg: &Config, with_incident: bool) -> FullPrint {
    let mut s = String::new();
    let mut vs: Vec<_> = m.verts.iter().collect();
    vs.sort_by_key(|v| vk_u64(v.key));
    for v in vs {
        s.push_str(&format!("V {:x} {} ", vk_u64(v.key), v.uuid));
        for x in v.p {
            s.push_str(&format!("{:016x},", x.to_bits()));
        }
        s.push_str(&format!(" d={:?}", v.data));
        if with_incident {
            s.push_str(&format!(" ic={:?}", v.incident.map(ck_u64)));
        }
        s.push('\n');
    }
    let mut cs: Vec<_> = m.cells.iter().collect();
    cs.sort_by_key(|c| ck_u64(c.key));
    for c in cs {
        s.push_str(&format!("C {:x} {} v=[", ck_u64(c.key), c.uuid));
        for k in &c.v {
            s.push_str(&format!("{:x},", vk_u64(*k)));
        }
        s.push_str("] n=");
        match &c.nb {
            None => s.push_str("none"),
            Some(nb) => {
                s.push('[');
                for n in nb {
                    match n {
                        None => s.push_str("-,"),
                        Some(k) => s.push_str(&format!("{:x},", ck_u64(*k))),
                    }
                }
                s.push(']');
            }
        }
        s.push_str(&format!(" d={:?} off={:?}\n", c.data, c.offsets));
    }
    s.push_str(&format!("N {} {} dim={}\n", m.n_vertices_reported, m.n_cells_reported, m.dim_reported));
    s.push_str(&format!("P {:?}\n", cfg));
    FullPrint { text: s }
}

/// First differing line between two fingerprints (for witnesses).
pub fn first_diff(a: &FullPrint, b: &FullPrint) -> String {
    let la: Vec<&str> = a.text.lines().collect();
    let lb: Vec<&str> = b.text.lines().collect();
    for i in 0..la.len().max(lb.len()) {
        let x = la.get(i).copied().unwrap_or("<missing>");
        let y = lb.get(i).copied().unwrap_or("<missing>");
        if x != y {
            return format!("line {}: before `{}` after `{}`", i, x, y);
        }
    }
    "identical".into()
}

/// 64-bit FNV-1a digest of a string (distinct-state counting only; never used as an oracle).
pub fn digest(s: &str) -> u64 {
    let mut h: u64 = 0xcbf29ce484222325;
    for b in s.as_bytes() {
        h ^= *b as u64;
        h = h.wrapping_mul(0x100000001b3);
    }
    h
}

/// Key-free fingerprint: vertex table by UUID + cells as sorted UUID tuples (+ cell data).
pub fn keyfree<const D: usize>(m: &RefModel<D>) -> String {
    let mut s = String::new();
    for (u, p, d) in m.vertex_table() {
        s.push_str(&format!("v {} {:?} {:?}\n", u, p, d));
    }
    for c in m.cells_as_uuids() {
        s.push_str(&format!("c {:?}\n", c));
    }
    s
}

/// Geometry-only fingerprint: cells as sorted coordinate tuples.
pub fn geom<const D: usize>(m: &RefModel<D>) -> String {
    let mut s = String::new();
    let mut vs: Vec<[u64; D]> = m.verts.iter().map(|v| v.p.map(f64::to_bits)).collect();
    vs.sort();
    s.push_str(&format!("{:?}\n", vs));
    s.push_str(&format!("{:?}\n", m.cells_as_coords()));
    s
}
