//! Thin helpers over the library's public API (construction of vertices, configuration
//! read-back, dimension/kernel dispatch).

use crate::fingerprint::Config;
use crate::model::DataI;
use delaunay::core::delaunay_triangulation::DelaunayTriangulation;
use delaunay::core::vertex::Vertex;
use delaunay::geometry::kernel::Kernel;
use delaunay::geometry::point::Point;
use delaunay::geometry::traits::coordinate::Coordinate;
use uuid::Uuid;

#[derive(Clone, Copy, Debug, PartialEq, Eq, Hash)]
pub enum Kn {
    Fast,
    Robust,
}
impl Kn {
    pub fn name(self) -> &'static str {
        match self {
            Kn::Fast => "fast",
            Kn::Robust => "robust",
        }
    }
    pub fn from_name(s: &str) -> Option<Self> {
        match s {
            "fast" => Some(Kn::Fast),
            "robust" => Some(Kn::Robust),
            _ => None,
        }
    }
}

pub fn mk_vertex<U: DataI, const D: usize>(p: [f64; D], uuid: Uuid, data: Option<i64>) -> Vertex<f64, U, D> {
    Vertex::new_with_uuid(Point::new(p), uuid, data.map(U::from_i64))
}

pub fn config_of<K, U, V, const D: usize>(dt: &DelaunayTriangulation<K, U, V, D>) -> Config
where
    K: Kernel<D, Scalar = f64>,
    U: DataI,
    V: DataI,
{
    Config {
        validation_policy: format!("{:?}", dt.validation_policy()),
        repair_policy: format!("{:?}", dt.delaunay_repair_policy()),
        check_policy: format!("{:?}", dt.delaunay_check_policy()),
        topology_guarantee: format!("{:?}", dt.topology_guarantee()),
        global_topology: format!("{:?}", dt.global_topology()),
    }
}

/// Dispatch a generic function over dimension 2..=5 and both kernels.
/// Usage: `dispatch_dk!(d, kn, func, (args...))` where `func::<K, D>(args...)`.
#[macro_export]
macro_rules! dispatch_dk {
    ($d:expr, $kn:expr, $f:ident, ($($a:expr),*)) => {{
        use delaunay::geometry::kernel::{FastKernel, RobustKernel};
        match ($d, $kn) {
            (2, $crate::api::Kn::Fast) => $f::<FastKernel<f64>, 2>($($a),*),
            (3, $crate::api::Kn::Fast) => $f::<FastKernel<f64>, 3>($($a),*),
            (4, $crate::api::Kn::Fast) => $f::<FastKernel<f64>, 4>($($a),*),
            (5, $crate::api::Kn::Fast) => $f::<FastKernel<f64>, 5>($($a),*),
            (2, $crate::api::Kn::Robust) => $f::<RobustKernel<f64>, 2>($($a),*),
            (3, $crate::api::Kn::Robust) => $f::<RobustKernel<f64>, 3>($($a),*),
            (4, $crate::api::Kn::Robust) => $f::<RobustKernel<f64>, 4>($($a),*),
            (5, $crate::api::Kn::Robust) => $f::<RobustKernel<f64>, 5>($($a),*),
            _ => panic!("unsupported dimension/kernel"),
        }
    }};
}

/// Dispatch over dimension only.
#[macro_export]
macro_rules! dispatch_d {
    ($d:expr, $f:ident, ($($a:expr),*)) => {{
        match $d {
            2 => $f::<2>($($a),*),
            3 => $f::<3>($($a),*),
            4 => $f::<4>($($a),*),
            5 => $f::<5>($($a),*),
            _ => panic!("unsupported dimension"),
        }
    }};
}
