//! C11 — the convex hull view is the true hull and never serves stale data.
//!
//! Part 1 (truth of a fresh hull, on exactly valid triangulations only): facet set == facets
//! incident to exactly one cell (independent facet map), closed surface, every vertex weakly on
//! the inner side, and the point/visibility queries against exact orientation signs (only points
//! whose side is decided beyond the library's tolerance band are judged).
//!
//! Part 2 (staleness): a pool of hulls per triangulation object, each with the key-free
//! fingerprint of the state it was created from. After every step of a history (generated ops,
//! scripted bootstrap round trips, heuristic rebuilds, failpoint-forced failures) every pooled hull
//! is queried against the current object: if the state differs from the creation state every query
//! must report staleness; if it is the same, a stale error or a *correct* answer are both fine.
//! The same is done against clones (mutated / frozen) and against serde-reloaded copies.

use crate::api::{Kn, mk_vertex};
use crate::common::{Ctx, Out, PanicInfo, Tier, guard, pts_json};
use crate::exact::{self, Band};
use crate::fingerprint;
use crate::r#gen::{self as g, Family};
use crate::hist::{self, Memory, Mix, Op, Res};
use crate::model::{DataI, RefModel, vk_u64};
use crate::props::c04::{geometrically_valid, perturb};
use crate::refcheck::{self, Guarantee};
use crate::rng::Rng;
use crate::tri::{self, Dt, GUARANTEES, Opts};
use delaunay::core::delaunay_triangulation::DelaunayTriangulation;
use delaunay::core::facet::FacetView;
use delaunay::core::triangulation_data_structure::Tds;
use delaunay::geometry::algorithms::convex_hull::{ConvexHull, ConvexHullConstructionError as CErr, ConvexHullValidationError as VErr};
use delaunay::geometry::kernel::{FastKernel, Kernel, RobustKernel};
use delaunay::geometry::point::Point;
use delaunay::geometry::traits::coordinate::Coordinate;
use delaunay::verif;
use serde_json::{Value, json};
use std::collections::{BTreeMap, BTreeSet, HashMap};
use uuid::Uuid;

const P: &str = "C11";
const POOL_MAX: usize = 8;

// ---------------------------------------------------------------------------------------------
// Exact geometry of a hull, read through the hull's facet handles and the RefModel
// ---------------------------------------------------------------------------------------------

#[derive(Clone, Debug)]
struct FacetGeom<const D: usize> {
    /// sorted vertex keys of the facet
    keys: Vec<u64>,
    /// the D facet points in the order the library uses (cell slot order without the facet slot)
    pts: Vec<[f64; D]>,
    /// the owning cell's opposite vertex
    inside: [f64; D],
    /// key of the opposite vertex
    inside_key: u64,
    /// sign of orient(pts + inside) when decided beyond the band
    s_in: Option<i32>,
}

fn hull_geometry<K, U, V, const D: usize>(hull: &ConvexHull<K, U, V, D>, m: &RefModel<D>) -> Result<Vec<FacetGeom<D>>, String>
where
    K: Kernel<D, Scalar = f64>,
    U: DataI,
    V: DataI,
{
    let mut v = Vec::new();
    for (i, h) in hull.facets().enumerate() {
        let Some(c) = m.cell(h.cell_key()) else {
            return Err(format!("hull facet #{} refers to a cell key that is not in the triangulation", i));
        };
        let idx = h.facet_index() as usize;
        if c.v.len() != D + 1 || idx >= c.v.len() {
            return Err(format!("hull facet #{} has facet index {} on a cell with {} vertices", i, idx, c.v.len()));
        }
        let Some(cp) = m.cell_points(c) else {
            return Err(format!("hull facet #{}: owning cell has a dangling vertex key", i));
        };
        let mut keys = Vec::with_capacity(D);
        let mut pts = Vec::with_capacity(D);
        for (j, k) in c.v.iter().enumerate() {
            if j != idx {
                keys.push(vk_u64(*k));
                pts.push(cp[j]);
            }
        }
        keys.sort_unstable();
        let inside = cp[idx];
        let mut s = pts.clone();
        s.push(inside);
        let d = exact::orient_det(&s);
        let s_in = match exact::classify(&d, exact::tol_orient(&s), exact::err_orient(&s)) {
            Band::Decided(x) => Some(x),
            _ => None,
        };
        v.push(FacetGeom { keys, pts, inside, inside_key: vk_u64(c.v[idx]), s_in });
    }
    Ok(v)
}

fn point_set<const D: usize>(pts: &[[f64; D]]) -> Vec<[u64; D]> {
    let mut v: Vec<[u64; D]> = pts.iter().map(|p| p.map(f64::to_bits)).collect();
    v.sort();
    v
}

fn finite<const D: usize>(q: &[f64; D]) -> bool {
    q.iter().all(|x| x.is_finite())
}

/// Some(true): q strictly on the outer side of the facet beyond the band (facet visible);
/// Some(false): strictly on the inner side beyond the band; None: not decided.
fn side<const D: usize>(f: &FacetGeom<D>, q: &[f64; D]) -> Option<bool> {
    let s_in = f.s_in?;
    if !finite(q) {
        return None;
    }
    let mut pts = f.pts.clone();
    pts.push(*q);
    let d = exact::orient_det(&pts);
    match exact::classify(&d, exact::tol_orient(&pts), exact::err_orient(&pts)) {
        Band::Decided(s) => Some(s != s_in),
        _ => None,
    }
}

#[derive(Clone, Copy, Debug, PartialEq, Eq)]
enum Truth {
    Outside,
    Inside,
    Undecided,
}
impl Truth {
    fn name(self) -> &'static str {
        match self {
            Truth::Outside => "strictly-outside",
            Truth::Inside => "strictly-inside",
            Truth::Undecided => "undecided",
        }
    }
}

fn sides<const D: usize>(facets: &[FacetGeom<D>], q: &[f64; D]) -> (Truth, Vec<Option<bool>>) {
    let s: Vec<Option<bool>> = facets.iter().map(|f| side(f, q)).collect();
    let t = if s.iter().any(|x| *x == Some(true)) {
        Truth::Outside
    } else if !s.is_empty() && s.iter().all(|x| *x == Some(false)) {
        Truth::Inside
    } else {
        Truth::Undecided
    };
    (t, s)
}

// ---------------------------------------------------------------------------------------------
// Queries and their outcomes
// ---------------------------------------------------------------------------------------------

#[derive(Clone, Debug, PartialEq)]
enum Outc {
    Stale(String),
    OtherErr(String),
    Bool(bool),
    Idx(Vec<usize>),
    OptIdx(Option<usize>),
    /// validate() == Ok(()) / is_valid_for_triangulation() == true
    Accepts,
}
impl Outc {
    fn is_answer(&self) -> bool {
        matches!(self, Outc::Bool(_) | Outc::Idx(_) | Outc::OptIdx(_) | Outc::Accepts)
    }
    fn to_json(&self) -> Value {
        match self {
            Outc::Stale(s) => json!({"stale": s}),
            Outc::OtherErr(s) => json!({"error": s}),
            Outc::Bool(b) => json!({"ok": b}),
            Outc::Idx(v) => json!({"ok": v}),
            Outc::OptIdx(v) => json!({"ok": v}),
            Outc::Accepts => json!({"ok": "accepts (Ok(()) / true)"}),
        }
    }
}

#[derive(Clone, Debug)]
struct Query<const D: usize> {
    kind: &'static str,
    q: Option<[f64; D]>,
    facet: Option<usize>,
}
impl<const D: usize> Query<D> {
    fn pt(kind: &'static str, q: [f64; D]) -> Self {
        Self { kind, q: Some(q), facet: None }
    }
    fn to_json(&self) -> Value {
        json!({"call": self.kind, "point": self.q.map(|p| p.to_vec()), "point_bits": self.q.map(|p| crate::common::bits(&p)), "facet_index_in_hull": self.facet})
    }
}

fn cerr(e: CErr) -> Outc {
    match e {
        CErr::StaleHull { hull_generation, tds_generation } => Outc::Stale(format!("StaleHull{{hull_generation:{},tds_generation:{}}}", hull_generation, tds_generation)),
        other => Outc::OtherErr(other.to_string()),
    }
}

fn run_query<K, U, V, const D: usize>(hull: &ConvexHull<K, U, V, D>, dt: &DelaunayTriangulation<K, U, V, D>, qu: &Query<D>) -> Result<Outc, PanicInfo>
where
    K: Kernel<D, Scalar = f64>,
    U: DataI,
    V: DataI,
{
    let tri = dt.as_triangulation();
    guard(|| match qu.kind {
        "is_point_outside" => match hull.is_point_outside(&Point::new(qu.q.unwrap()), tri) {
            Ok(b) => Outc::Bool(b),
            Err(e) => cerr(e),
        },
        "find_visible_facets" => match hull.find_visible_facets(&Point::new(qu.q.unwrap()), tri) {
            Ok(v) => Outc::Idx(v),
            Err(e) => cerr(e),
        },
        "find_nearest_visible_facet" => match hull.find_nearest_visible_facet(&Point::new(qu.q.unwrap()), tri) {
            Ok(v) => Outc::OptIdx(v),
            Err(e) => cerr(e),
        },
        "is_facet_visible_from_point" => match hull.get_facet(qu.facet.unwrap()) {
            Some(h) => match hull.is_facet_visible_from_point(h, &Point::new(qu.q.unwrap()), tri) {
                Ok(b) => Outc::Bool(b),
                Err(e) => cerr(e),
            },
            None => Outc::OtherErr("get_facet returned None".into()),
        },
        "validate" => match hull.validate(tri) {
            Ok(()) => Outc::Accepts,
            Err(VErr::StaleHull { hull_generation, tds_generation }) => Outc::Stale(format!("StaleHull{{hull_generation:{},tds_generation:{}}}", hull_generation, tds_generation)),
            Err(e) => Outc::OtherErr(e.to_string()),
        },
        "is_valid_for_triangulation" => {
            if hull.is_valid_for_triangulation(tri) {
                Outc::Accepts
            } else {
                Outc::Stale("is_valid_for_triangulation == false".into())
            }
        }
        _ => Outc::OtherErr("unknown query".into()),
    })
}

fn note(out: &mut Out, text: String) {
    if out.notes.len() < 16 && !out.notes.contains(&text) {
        out.notes.push(text);
    }
}

enum Verdict {
    Correct,
    Wrong(String),
    Unjudged,
}

/// Judges an *answer* against the exact geometry of the hull (facets in hull index order).
fn judge<const D: usize>(facets: &[FacetGeom<D>], qu: &Query<D>, o: &Outc) -> Verdict {
    match (qu.kind, o) {
        ("validate", Outc::Accepts) | ("is_valid_for_triangulation", Outc::Accepts) => Verdict::Correct,
        ("is_point_outside", Outc::Bool(b)) => {
            let (t, _) = sides(facets, &qu.q.unwrap());
            match t {
                Truth::Outside if !*b => Verdict::Wrong("point is strictly outside (decided visible facet exists) but the answer is false".into()),
                Truth::Inside if *b => Verdict::Wrong("point is strictly inside (decided on the inner side of every facet) but the answer is true".into()),
                Truth::Undecided => Verdict::Unjudged,
                _ => Verdict::Correct,
            }
        }
        ("find_visible_facets", Outc::Idx(v)) => {
            let (_, s) = sides(facets, &qu.q.unwrap());
            let set: BTreeSet<usize> = v.iter().copied().collect();
            if let Some(bad) = v.iter().find(|i| **i >= facets.len()) {
                return Verdict::Wrong(format!("returned index {} is out of range ({} facets)", bad, facets.len()));
            }
            for (i, x) in s.iter().enumerate() {
                match x {
                    Some(true) if !set.contains(&i) => return Verdict::Wrong(format!("facet #{} is decidedly visible but missing from the result", i)),
                    Some(false) if set.contains(&i) => return Verdict::Wrong(format!("facet #{} is decidedly not visible but included in the result", i)),
                    _ => {}
                }
            }
            if s.iter().all(|x| x.is_some()) { Verdict::Correct } else { Verdict::Unjudged }
        }
        ("find_nearest_visible_facet", Outc::OptIdx(r)) => {
            let (t, s) = sides(facets, &qu.q.unwrap());
            match r {
                Some(i) => {
                    if *i >= facets.len() {
                        return Verdict::Wrong(format!("returned index {} is out of range ({} facets)", i, facets.len()));
                    }
                    if s[*i] == Some(false) {
                        return Verdict::Wrong(format!("returned facet #{} is decidedly not visible from the point", i));
                    }
                }
                None => {
                    if t == Truth::Outside {
                        return Verdict::Wrong("None although a decidedly visible facet exists".into());
                    }
                }
            }
            if t == Truth::Undecided { Verdict::Unjudged } else { Verdict::Correct }
        }
        ("is_facet_visible_from_point", Outc::Bool(b)) => match qu.facet.and_then(|i| facets.get(i)).and_then(|f| side(f, &qu.q.unwrap())) {
            Some(x) if x != *b => Verdict::Wrong(format!("exact orientation says visible == {} but the answer is {}", x, b)),
            Some(_) => Verdict::Correct,
            None => Verdict::Unjudged,
        },
        _ => Verdict::Unjudged,
    }
}

// ---------------------------------------------------------------------------------------------
// Part 1 — structure and answers of a fresh hull
// ---------------------------------------------------------------------------------------------

/// Structural checks of a hull's facet list against the independent facet map of `m`.
fn structure_check<const D: usize>(out: &mut Out, m: &RefModel<D>, facets: &[FacetGeom<D>], rp: &dyn Fn(Value) -> Value) {
    // (a) facet set == facets incident to exactly one cell, no duplicates
    let mut hullset: BTreeMap<Vec<u64>, usize> = BTreeMap::new();
    for f in facets {
        *hullset.entry(f.keys.clone()).or_insert(0) += 1;
    }
    let fm = refcheck::facet_map(m);
    let expected: BTreeSet<Vec<u64>> = fm.iter().filter(|(_, inc)| inc.len() == 1).map(|(k, _)| k.clone()).collect();
    let dup: Vec<&Vec<u64>> = hullset.iter().filter(|(_, n)| **n > 1).map(|(k, _)| k).collect();
    let missing: Vec<&Vec<u64>> = expected.iter().filter(|k| !hullset.contains_key(*k)).collect();
    let extra: Vec<&Vec<u64>> = hullset.keys().filter(|k| !expected.contains(*k)).collect();
    if !dup.is_empty() || !missing.is_empty() || !extra.is_empty() {
        out.violation(
            P,
            "hull/facet-set-differs",
            format!("hull has {} facets, the triangulation has {} facets incident to exactly one cell: {} duplicated, {} missing, {} not boundary facets", facets.len(), expected.len(), dup.len(), missing.len(), extra.len()),
            rp(json!({"duplicated": dup.len(), "missing": missing.len(), "extra": extra.len()})),
        );
    } else {
        out.count("fresh/facet_set_equal");
    }
    // (b) closed surface: every (D-2)-ridge in exactly two hull facets
    let mut ridges: BTreeMap<Vec<u64>, usize> = BTreeMap::new();
    for k in hullset.keys() {
        for skip in 0..k.len() {
            let r: Vec<u64> = k.iter().enumerate().filter(|(j, _)| *j != skip).map(|(_, x)| *x).collect();
            *ridges.entry(r).or_insert(0) += 1;
        }
    }
    let open = ridges.values().filter(|n| **n != 2).count();
    if open > 0 {
        out.violation(P, "hull/not-closed", format!("{} of {} ridges of the hull facets do not lie in exactly two hull facets", open, ridges.len()), rp(json!({"bad_ridges": open})));
    } else {
        out.count("fresh/closed_surface");
    }
    // (c) every vertex weakly on the inner side of every hull facet
    let mut judged = 0u64;
    for (i, f) in facets.iter().enumerate() {
        let Some(_) = f.s_in else {
            out.count("not_judged/facet_inside_orientation_undecided");
            continue;
        };
        for v in &m.verts {
            let k = vk_u64(v.key);
            if f.keys.contains(&k) || k == f.inside_key {
                continue;
            }
            judged += 1;
            if side(f, &v.p) == Some(true) {
                out.violation(P, "hull/vertex-outside", format!("vertex {:?} lies strictly on the outer side of hull facet #{} {:?} beyond the band", v.p, i, f.pts), rp(json!({"facet": i, "vertex": v.p.to_vec()})));
                return;
            }
        }
    }
    out.add("fresh/vertex_side_tests", judged);
}

fn bbox<const D: usize>(m: &RefModel<D>) -> ([f64; D], [f64; D], f64) {
    let mut lo = [f64::INFINITY; D];
    let mut hi = [f64::NEG_INFINITY; D];
    for v in &m.verts {
        for j in 0..D {
            lo[j] = lo[j].min(v.p[j]);
            hi[j] = hi[j].max(v.p[j]);
        }
    }
    let ext = (0..D).map(|j| hi[j] - lo[j]).fold(0.0f64, f64::max).max(1e-6);
    (lo, hi, ext)
}

fn centroid<const D: usize>(pts: &[[f64; D]]) -> [f64; D] {
    let mut c = [0.0; D];
    for p in pts {
        for j in 0..D {
            c[j] += p[j];
        }
    }
    for x in c.iter_mut() {
        *x /= pts.len().max(1) as f64;
    }
    c
}

fn query_points<const D: usize>(rng: &mut Rng, m: &RefModel<D>, facets: &[FacetGeom<D>], thorough: bool) -> Vec<([f64; D], &'static str)> {
    let mut v: Vec<([f64; D], &'static str)> = Vec::new();
    let (lo, hi, ext) = bbox(m);
    for _ in 0..if thorough { 8 } else { 4 } {
        let mut p = [0.0; D];
        for j in 0..D {
            p[j] = lo[j] + (rng.usize(9) as f64 / 8.0) * (hi[j] - lo[j]);
        }
        v.push((p, "grid"));
    }
    for _ in 0..3 {
        if m.cells.is_empty() {
            break;
        }
        let c = rng.pick(&m.cells);
        if let Some(pts) = m.cell_points(c) {
            let w: Vec<f64> = (0..pts.len()).map(|_| 1.0 + rng.usize(4) as f64).collect();
            let s: f64 = w.iter().sum();
            let mut p = [0.0; D];
            for j in 0..D {
                p[j] = pts.iter().zip(&w).map(|(x, wi)| x[j] * wi).sum::<f64>() / s;
            }
            v.push((p, "cell-interior"));
        }
    }
    for _ in 0..if thorough { 5 } else { 3 } {
        if facets.is_empty() {
            break;
        }
        let f = rng.pick(facets);
        let c = centroid(&f.pts);
        let ts = [0.5, 1e-3, 1e-9, 1e-14, -1e-3, 4.0];
        for _ in 0..2 {
            let t = ts[rng.usize(ts.len())];
            let mut p = [0.0; D];
            for j in 0..D {
                p[j] = c[j] + t * (c[j] - f.inside[j]);
            }
            v.push((p, if t > 0.0 { "beyond-facet" } else { "behind-facet" }));
        }
    }
    let call = centroid(&m.verts.iter().map(|x| x.p).collect::<Vec<_>>());
    for _ in 0..2 {
        let mut p = call;
        let j = rng.usize(D);
        let k = [10.0, 1e3, 1e6][rng.usize(3)];
        p[j] += if rng.bool() { 1.0 } else { -1.0 } * ext * k;
        v.push((p, "far"));
    }
    if !m.verts.is_empty() {
        v.push((rng.pick(&m.verts).p, "on-vertex"));
    }
    if !facets.is_empty() {
        let f = rng.pick(facets);
        let a = rng.usize(f.pts.len());
        let b = (a + 1 + rng.usize(f.pts.len().max(2) - 1)) % f.pts.len();
        let mut p = [0.0; D];
        for j in 0..D {
            p[j] = (f.pts[a][j] + f.pts[b][j]) / 2.0;
        }
        v.push((p, "on-facet"));
        v.push((centroid(&f.pts), "facet-centroid"));
    }
    v.retain(|(p, _)| finite(p));
    v
}

/// Full Part-1 check of a fresh hull of `dt`. Returns the hull and its geometry when the state is
/// exactly valid and the hull could be created.
fn fresh_check<K, U, V, const D: usize>(dt: &DelaunayTriangulation<K, U, V, D>, source: &str, rng: &mut Rng, out: &mut Out, thorough: bool, base: &Value, log: &[Value]) -> Option<(ConvexHull<K, U, V, D>, Vec<FacetGeom<D>>)>
where
    K: Kernel<D, Scalar = f64>,
    U: DataI,
    V: DataI,
{
    let m = RefModel::from_dt(dt);
    let gu = Guarantee::from_lib(dt.topology_guarantee());
    if !geometrically_valid(&m, gu) {
        out.count(&format!("not_judged/{}/state_not_exactly_valid", source));
        return None;
    }
    let rp = |extra: Value| {
        let mut r = base.clone();
        r["source"] = json!(source);
        r["operations"] = json!(log);
        r["detail"] = extra;
        r
    };
    let hull = match guard(|| ConvexHull::from_triangulation(dt.as_triangulation())) {
        Ok(Ok(h)) => h,
        Ok(Err(e)) => {
            out.count(&format!("fresh/from_triangulation_err/{}", source));
            if out.notes.len() < 5 {
                out.notes.push(format!("from_triangulation failed on an exactly valid state ({}): {}", source, e));
            }
            return None;
        }
        Err(pi) => {
            out.panic(P, &pi, "ConvexHull::from_triangulation", rp(json!(null)));
            return None;
        }
    };
    out.count(&format!("fresh/hulls/{}", source));
    if hull.number_of_facets() != hull.facets().count() {
        out.violation(P, "hull/facet-set-differs", "number_of_facets() differs from facets().count()".into(), rp(json!(null)));
    }
    let facets = match hull_geometry(&hull, &m) {
        Ok(f) => f,
        Err(e) => {
            out.violation(P, "hull/facet-set-differs", format!("fresh hull has an unusable facet handle: {}", e), rp(json!(null)));
            return None;
        }
    };
    // cross-check the handle reading against FacetView (evidence only)
    for (i, h) in hull.facets().enumerate() {
        let via_view: Option<BTreeSet<Uuid>> = FacetView::new(dt.tds(), h.cell_key(), h.facet_index()).ok().and_then(|fv| fv.vertices().ok().map(|it| it.map(|v| v.uuid()).collect()));
        let Some(fg) = facets.get(i) else { break };
        let via_model: BTreeSet<Uuid> = fg.keys.iter().filter_map(|k| m.verts.iter().find(|v| vk_u64(v.key) == *k).map(|v| v.uuid)).collect();
        if via_view.as_ref() == Some(&via_model) {
            out.count("fresh/facetview_agrees_with_handle");
        } else {
            out.count("fresh/facetview_differs_from_handle");
        }
    }
    structure_check(out, &m, &facets, &rp);
    out.max("fresh/max_hull_facets", facets.len() as u64);
    // validate on a fresh hull
    match run_query(&hull, dt, &Query::<D> { kind: "validate", q: None, facet: None }) {
        Ok(Outc::Accepts) => out.count("fresh/validate/ok"),
        Ok(o) => out.violation(P, "hull/validate-rejects-fresh", format!("validate() on a fresh hull of an exactly valid triangulation returned {:?}", o), rp(json!({"returned": o.to_json()}))),
        Err(pi) => out.panic(P, &pi, "ConvexHull::validate", rp(json!(null))),
    }
    match run_query(&hull, dt, &Query::<D> { kind: "is_valid_for_triangulation", q: None, facet: None }) {
        Ok(Outc::Accepts) => out.count("fresh/is_valid_for_triangulation/true"),
        Ok(o) => out.violation(P, "hull/validate-rejects-fresh", format!("is_valid_for_triangulation() on a fresh hull returned {:?}", o), rp(json!({"returned": o.to_json()}))),
        Err(pi) => out.panic(P, &pi, "ConvexHull::is_valid_for_triangulation", rp(json!(null))),
    }
    // point / visibility queries
    if rng.chance(1, 4) {
        hull.invalidate_cache();
        out.count("fresh/invalidate_cache_called");
    }
    let qs = query_points(rng, &m, &facets, thorough);
    for (q, tag) in &qs {
        let (truth, s) = sides(&facets, q);
        out.count(&format!("fresh/points/{}/{}", tag, truth.name()));
        let mut queries: Vec<(Query<D>, &'static str)> = vec![
            (Query::pt("is_point_outside", *q), "hull/is_point_outside/wrong"),
            (Query::pt("find_visible_facets", *q), "hull/find_visible_facets/wrong"),
            (Query::pt("find_nearest_visible_facet", *q), "hull/find_nearest_visible_facet/wrong"),
        ];
        let mut idx: Vec<usize> = (0..facets.len()).collect();
        if idx.len() > 32 {
            rng.shuffle(&mut idx);
            idx.truncate(32);
        }
        for i in idx {
            queries.push((Query { kind: "is_facet_visible_from_point", q: Some(*q), facet: Some(i) }, "hull/facet-visibility/wrong"));
        }
        for (qu, sig) in &queries {
            let o = match run_query(&hull, dt, qu) {
                Ok(o) => o,
                Err(pi) => {
                    out.panic(P, &pi, qu.kind, rp(json!({"query": qu.to_json()})));
                    continue;
                }
            };
            if !o.is_answer() {
                // an error on a fresh hull: only a finding when the point is exactly decidable
                let decidable = match qu.kind {
                    "is_facet_visible_from_point" => qu.facet.map(|i| s[i].is_some()).unwrap_or(false),
                    _ => truth != Truth::Undecided,
                };
                if decidable {
                    out.violation(P, &format!("hull/{}/error-on-fresh", qu.kind), format!("{} on a fresh hull returned {:?} for an exactly decidable point {:?} ({})", qu.kind, o, q, truth.name()), rp(json!({"query": qu.to_json(), "returned": o.to_json()})));
                } else {
                    out.count(&format!("fresh/{}/error-on-undecided", qu.kind));
                }
                continue;
            }
            match judge(&facets, qu, &o) {
                Verdict::Correct => out.count(&format!("fresh/{}/answered-correct", qu.kind)),
                Verdict::Unjudged => out.count(&format!("fresh/{}/not-judged", qu.kind)),
                Verdict::Wrong(why) => {
                    out.count(&format!("fresh/{}/answered-wrong", qu.kind));
                    out.violation(P, sig, format!("{} for point {:?} ({}, {}): {}; returned {:?}", qu.kind, q, tag, truth.name(), why, o), rp(json!({"query": qu.to_json(), "returned": o.to_json(), "point_kind": tag, "exact": truth.name(), "hull_facets": facets.iter().map(|f| pts_json(&f.pts)).collect::<Vec<_>>()})));
                }
            }
        }
    }
    Some((hull, facets))
}

fn fresh_case<K, const D: usize>(ctx: &Ctx, out: &mut Out, cs: u64, kn: Kn, rng: &mut Rng)
where
    K: Kernel<D, Scalar = f64>,
{
    let thorough = ctx.tier == Tier::Thorough;
    let fam = *rng.pick(&[Family::Dyadic, Family::Dyadic, Family::Grid, Family::Uniform, Family::Hull, Family::TinyGrid, Family::Sphere]);
    let n = D + 2 + rng.usize(if D >= 4 { if thorough { 3 * D } else { 2 * D } } else if thorough { 6 * D } else { 3 * D });
    let pts = g::points::<D>(rng, fam, n);
    let inp = tri::mk_inputs(rng, &pts);
    let gu = *rng.pick(&GUARANTEES);
    let base = json!({"property": P, "case_seed": cs.to_string(), "D": D, "kernel": kn.name(), "scenario": "fresh", "family": fam.name(), "guarantee": format!("{:?}", gu), "points": pts_json(&pts)});
    let mut dt = match tri::build::<K, D>(&K::default(), &inp, gu, &Opts::default_like()) {
        Ok(Ok(dt)) => dt,
        Ok(Err(_)) => {
            out.count("start/construction_err");
            return;
        }
        Err(pi) => {
            out.panic(P, &pi, "construction", base);
            return;
        }
    };
    out.count(&format!("fresh/D{}/{}", D, fam.name()));
    if let Some((h, _)) = fresh_check(&dt, "constructed", rng, out, thorough, &base, &[]) {
        if h.number_of_facets() > D + 1 {
            out.nontrivial(&cs.to_string());
        }
    }
    // incremental insertions (hull extension, interior points), repair on or off
    {
        let mut inc = dt.clone();
        if rng.bool() {
            let _ = hist::apply(&mut inc, &Op::SetRepairPolicy(0));
        }
        let mut mem = Memory::<D> { grid: 1.0 / 16.0, extent: 2.0, ..Default::default() };
        let mut log = Vec::new();
        let k = 1 + rng.usize(4);
        hist::run_history(&mut inc, rng, &mut mem, &Mix::insert_remove(), k, |s| {
            log.push(s.op.to_json());
            true
        });
        fresh_check(&inc, "insert-remove", rng, out, thorough, &base, &log);
    }
    if ctx.out_of_time() {
        out.count("fresh/cut_by_budget");
        return;
    }
    // non-Delaunay but embedded states
    {
        let want = 1 + rng.usize(if thorough { 30 } else { 10 });
        let (done, log) = perturb(&mut dt, rng, want, gu, true);
        out.add("fresh/perturb_flips_kept", done as u64);
        if done > 0 {
            fresh_check(&dt, "flipped", rng, out, thorough, &base, &log);
        }
    }
    if out.samples.len() < 2 {
        out.sample(json!({"scenario": "fresh", "D": D, "kernel": kn.name(), "family": fam.name(), "n": inp.len()}));
    }
}

// ---------------------------------------------------------------------------------------------
// Part 2 — staleness
// ---------------------------------------------------------------------------------------------

/// (generation, state) history of one object: a generation value seen with two different states
/// is the precondition of an undetected stale hull.
#[derive(Default)]
struct Lineage {
    seen: HashMap<u64, Vec<u64>>,
}
impl Lineage {
    /// true when `g` had been seen before with a different fingerprint (and this pair is new)
    fn record(&mut self, g: u64, fp: &str) -> bool {
        let d = fingerprint::digest(fp);
        let e = self.seen.entry(g).or_default();
        if e.contains(&d) {
            return false;
        }
        e.push(d);
        e.len() > 1
    }
}

struct HullInfo<'a, K, U, V, const D: usize>
where
    K: Kernel<D, Scalar = f64>,
    U: DataI,
    V: DataI,
{
    hull: &'a ConvexHull<K, U, V, D>,
    facets: &'a [FacetGeom<D>],
    /// [strictly inside candidate, far outside candidate, just beyond a facet]
    qs: &'a [[f64; D]],
    generation: u64,
    created_step: i64,
    /// clone of the Tds the hull was created from (shares its generation counter)
    sentinel: Option<&'a Tds<f64, U, V, D>>,
}

/// Does `target` still count generations on the counter that `sentinel` shares with the Tds the hull
/// was created from? (Advances that counter by one; only used after a finding.)
fn counter_still_shared<K, U, V, const D: usize>(sentinel: &Tds<f64, U, V, D>, target: &DelaunayTriangulation<K, U, V, D>) -> bool
where
    K: Kernel<D, Scalar = f64>,
    U: DataI,
    V: DataI,
{
    let g1 = target.tds().generation();
    let mut t = sentinel.clone();
    t.clear_all_neighbors();
    target.tds().generation() != g1
}

/// Queries one hull against `target` and classifies every result. Returns true when at least one
/// query answered although the state differs from the hull's creation state.
#[allow(clippy::too_many_arguments)]
fn assess<K, U, V, const D: usize>(out: &mut Out, rng: &mut Rng, h: &HullInfo<K, U, V, D>, target: &DelaunayTriangulation<K, U, V, D>, changed: bool, context: &str, opkind: &str, rp: &dyn Fn(Value) -> Value) -> bool
where
    K: Kernel<D, Scalar = f64>,
    U: DataI,
    V: DataI,
{
    if rng.chance(1, 8) {
        h.hull.invalidate_cache();
    }
    let mut queries: Vec<Query<D>> = vec![
        Query { kind: "is_valid_for_triangulation", q: None, facet: None },
        Query { kind: "validate", q: None, facet: None },
        Query::pt("is_point_outside", h.qs[0]),
        Query::pt("is_point_outside", h.qs[1]),
        Query::pt("find_visible_facets", h.qs[2]),
        Query::pt("find_nearest_visible_facet", h.qs[1]),
    ];
    if !h.facets.is_empty() {
        queries.push(Query { kind: "is_facet_visible_from_point", q: Some(h.qs[2]), facet: Some(rng.usize(h.facets.len())) });
    }
    let cur_gen = target.tds().generation();
    let mut hit = false;
    let mut cur: Option<Result<Vec<FacetGeom<D>>, String>> = None;
    let mut shared: Option<Option<bool>> = None;
    for qu in &queries {
        let o = match run_query(h.hull, target, qu) {
            Ok(o) => o,
            Err(pi) => {
                out.panic(P, &pi, &format!("{} ({})", qu.kind, context), rp(json!({"context": context, "query": qu.to_json()})));
                continue;
            }
        };
        let detail = |why: &str, replaced: Option<bool>| {
            rp(json!({
                "context": context,
                "why": why,
                "hull": {"created_after_step": h.created_step, "generation_at_creation": h.generation, "facets": h.facets.len()},
                "generation_of_queried_triangulation": cur_gen,
                "state_differs_from_creation_state": changed,
                "generation_counter_replaced_since_hull_creation": replaced,
                "query": qu.to_json(),
                "returned": o.to_json(),
            }))
        };
        let key = |v: &str| format!("query/{}/{}/{}", context, qu.kind, v);
        if changed {
            match &o {
                Outc::Stale(_) => out.count(&key("stale")),
                Outc::OtherErr(e) => {
                    out.count(&key("other-error-after-change"));
                    note(out, format!("({}) after a change a query returned a non-stale error: {}", context, e.chars().take(90).collect::<String>()));
                }
                _ => {
                    hit = true;
                    out.count(&key("answered-after-change"));
                    if shared.is_none() {
                        shared = Some(h.sentinel.map(|t| counter_still_shared(t, target)));
                        out.count(match shared.unwrap() {
                            Some(true) => "stale-answer/generation-counter-still-the-original-one",
                            Some(false) => "stale-answer/generation-counter-was-replaced",
                            None => "stale-answer/other-object-with-its-own-counter",
                        });
                    }
                    // a stale answer although the counter was never replaced would be a mutation path that does not count
                    let suffix = if shared.unwrap() == Some(true) { "/counter-not-replaced" } else { "" };
                    let sig = match context {
                        "main" => format!("stale/{}/answered-after-change/{}{}", qu.kind, opkind, suffix),
                        "clone-mutated" => format!("stale/clone-mutated/answered{}", suffix),
                        other => format!("stale/{}/answered{}", other, suffix),
                    };
                    out.violation(
                        P,
                        &sig,
                        format!(
                            "{} answered {:?} instead of reporting staleness: the hull was created at generation {} {} (after step {}), the queried triangulation now has generation {} ({}, last op {})",
                            qu.kind, o, h.generation,
                            if opkind.ends_with("+rolled-back") { "and an operation has since edited the triangulation, failed and been rolled back" } else { "from a different state" },
                            h.created_step, cur_gen, context, opkind
                        ),
                        detail("answered after change", shared.flatten().map(|x| !x)),
                    );
                }
            }
        } else {
            match &o {
                Outc::Stale(_) => out.count(&key("stale-same-state")),
                Outc::OtherErr(e) => {
                    out.count(&key("other-error-same-state"));
                    note(out, format!("({}) on the creation state a query returned a non-stale error: {}", context, e.chars().take(90).collect::<String>()));
                    // objects that were never mutated after the hull was created from them (or from their
                    // original): a hull that is still valid must answer for exactly decidable points
                    let never_mutated = matches!(context, "serde-original" | "clone-frozen");
                    let decidable = match qu.kind {
                        "validate" | "is_valid_for_triangulation" => true,
                        "is_facet_visible_from_point" => qu.facet.and_then(|i| h.facets.get(i)).and_then(|f| side(f, &qu.q.unwrap())).is_some(),
                        _ => sides(h.facets, &qu.q.unwrap()).0 != Truth::Undecided,
                    };
                    if never_mutated && decidable {
                        out.violation(
                            P,
                            &format!("unchanged/{}/{}/error-instead-of-answer", context, qu.kind),
                            format!("{} on a triangulation that was never modified since the hull was created from it returned the non-stale error `{}` for an exactly decidable query (the hull had before been queried against another triangulation)", qu.kind, e),
                            detail("non-stale error on an unchanged triangulation", None),
                        );
                    }
                }
                _ => match {
                    // The hull names facets by (cell key, slot) handles and by indices into its handle list;
                    // an index / handle answer is judged with the handles resolved against the triangulation
                    // that was queried (as Part 1 does), the point-in-hull answer against the true hull.
                    let index_based = matches!(qu.kind, "find_visible_facets" | "find_nearest_visible_facet" | "is_facet_visible_from_point");
                    if index_based {
                        if cur.is_none() {
                            let r = hull_geometry(h.hull, &RefModel::from_dt(target));
                            if let Ok(f) = &r {
                                let same_meaning = f.len() == h.facets.len() && f.iter().zip(h.facets.iter()).all(|(a, b)| point_set(&a.pts) == point_set(&b.pts));
                                out.count(if same_meaning { "same-state/handles-name-the-same-facets" } else { "same-state/handles-name-different-facets-than-at-creation" });
                            } else {
                                out.count("same-state/handles-unresolvable-but-answered");
                            }
                            cur = Some(r);
                        }
                        match cur.as_ref().unwrap() {
                            Ok(f) => judge(f, qu, &o),
                            Err(_) => Verdict::Unjudged,
                        }
                    } else {
                        judge(h.facets, qu, &o)
                    }
                } {
                    Verdict::Correct => out.count(&key("answered-correct")),
                    Verdict::Unjudged => out.count(&key("answered-not-judged")),
                    Verdict::Wrong(why) => {
                        out.count(&key("answered-wrong"));
                        out.violation(P, &format!("same-state/{}/{}/wrong-answer", context, qu.kind), format!("{} on the (unchanged / restored) creation state answered {:?}: {}", qu.kind, o, why), detail(&why, None));
                    }
                },
            }
        }
    }
    hit
}

struct Mutant<K, const D: usize>
where
    K: Kernel<D, Scalar = f64>,
{
    dt: Dt<K, D>,
    log: Vec<Value>,
    lineage: Lineage,
}

struct Pooled<K, const D: usize>
where
    K: Kernel<D, Scalar = f64>,
{
    hull: ConvexHull<K, i32, i32, D>,
    fp: String,
    generation: u64,
    created_step: i64,
    facets: Vec<FacetGeom<D>>,
    qs: Vec<[f64; D]>,
    sentinel: Tds<f64, i32, i32, D>,
    /// clone taken at creation and never touched
    frozen: Option<Dt<K, D>>,
    /// clone taken at creation and mutated on its own
    mutant: Option<Mutant<K, D>>,
}

struct Drv<K, const D: usize>
where
    K: Kernel<D, Scalar = f64>,
{
    dt: Dt<K, D>,
    mem: Memory<D>,
    log: Vec<Value>,
    pool: Vec<Pooled<K, D>>,
    lineage: Lineage,
    base: Value,
    steps: i64,
    with_clones: bool,
    scenario: &'static str,
    cur_m: RefModel<D>,
    max_facets: usize,
    hulls_created: u64,
    dead: bool,
}

fn probe_points<const D: usize>(rng: &mut Rng, m: &RefModel<D>, facets: &[FacetGeom<D>]) -> Vec<[f64; D]> {
    let all: Vec<[f64; D]> = m.verts.iter().map(|v| v.p).collect();
    let (_, _, ext) = bbox(m);
    // inside candidate: centroid of all vertices, else centroid of a cell
    let mut q0 = centroid(&all);
    if sides(facets, &q0).0 != Truth::Inside {
        if let Some(pts) = m.cells.first().and_then(|c| m.cell_points(c)) {
            q0 = centroid(&pts);
        }
    }
    let mut q1 = centroid(&all);
    let j = rng.usize(D);
    q1[j] += if rng.bool() { 1.0 } else { -1.0 } * ext * 8.0;
    let mut q2 = q1;
    if !facets.is_empty() {
        let f = rng.pick(facets);
        let c = centroid(&f.pts);
        for j in 0..D {
            q2[j] = c[j] + 0.25 * (c[j] - f.inside[j]);
        }
    }
    let mut v = vec![q0, q1, q2];
    for q in v.iter_mut() {
        if !finite(q) {
            *q = [0.0; D];
        }
    }
    v
}

const SITES_INSERT: [&str; 9] = [
    "tri/insert/after_vertex",
    "tri/insert/after_bootstrap",
    "tri/insert/after_fill_cavity",
    "tri/insert/after_wire",
    "tri/insert/after_remove_conflict",
    "tri/insert/after_normalize",
    "tri/insert/after_validate",
    "dt/insert/repair",
    "dt/insert/check",
];
const SITES_REMOVE: [&str; 5] = ["tri/remove/after_fan_fill", "tri/remove/after_wire", "tri/remove/after_remove_cells", "tri/remove/after_incidence", "tri/remove/after_vertex_removed"];
const SITES_FLIP: [&str; 4] = ["flip/after_insert_cells", "flip/after_wire", "flip/after_remove_cells", "flip/k1_inverse/after_flip"];
const SITES_REPAIR: [&str; 4] = ["repair/after_attempt3", "dt/repair_advanced/before_commit", "flip/after_wire", "flip/after_remove_cells"];

/// Failpoint sites that lie behind the first edit of the operation that contains them (the hook
/// records every site an operation passes, armed or not).
const POST_EDIT_SITES: [&str; 18] = [
    "flip/after_insert_cells",
    "flip/after_wire",
    "flip/after_remove_cells",
    "flip/k1_inverse/after_flip",
    "tri/insert/after_vertex",
    "tri/insert/after_bootstrap",
    "tri/insert/after_fill_cavity",
    "tri/insert/after_wire",
    "tri/insert/after_remove_conflict",
    "tri/insert/after_normalize",
    "tri/insert/after_validate",
    "dt/insert/repair",
    "dt/insert/check",
    "tri/remove/after_fan_fill",
    "tri/remove/after_wire",
    "tri/remove/after_remove_cells",
    "tri/remove/after_incidence",
    "tri/remove/after_vertex_removed",
];

fn site_for(rng: &mut Rng, kind: &str) -> &'static str {
    match kind {
        "insert" | "insert_with_statistics" => *rng.pick(&SITES_INSERT),
        "remove_vertex" => {
            if rng.chance(1, 4) {
                *rng.pick(&SITES_REPAIR)
            } else {
                *rng.pick(&SITES_REMOVE)
            }
        }
        k if k.starts_with("flip") => *rng.pick(&SITES_FLIP),
        _ => *rng.pick(&SITES_REPAIR),
    }
}

impl<K, const D: usize> Drv<K, D>
where
    K: Kernel<D, Scalar = f64>,
{
    fn new(dt: Dt<K, D>, mem: Memory<D>, base: Value, scenario: &'static str, with_clones: bool) -> Self {
        let cur_m = RefModel::from_dt(&dt);
        Self { dt, mem, log: Vec::new(), pool: Vec::new(), lineage: Lineage::default(), base, steps: 0, with_clones, scenario, cur_m, max_facets: 0, hulls_created: 0, dead: false }
    }

    /// Applies one operation (optionally with an armed failpoint) and runs the after-step checks.
    fn step(&mut self, rng: &mut Rng, out: &mut Out, op: Op<D>, failpoint: Option<(&'static str, u64)>, force_hull: bool) -> bool {
        let pre = self.cur_m.clone();
        let fired_before = verif::fired_count();
        if let Some((site, skip)) = failpoint {
            verif::arm(site, skip);
        }
        verif::trace_start();
        let res = hist::apply(&mut self.dt, &op);
        let trace = verif::trace_take();
        let mut fired = false;
        if failpoint.is_some() {
            let _ = verif::disarm();
            fired = verif::fired_count() > fired_before;
        }
        let mut entry = op.to_json();
        entry["result"] = json!(match &res {
            Ok(r) => r.label(),
            Err(p) => format!("PANIC {}", p.message),
        });
        if let Some((site, skip)) = failpoint {
            entry["failpoint"] = json!({"site": site, "skip": skip, "fired": fired});
            out.count(if fired { "failpoints/fired" } else { "failpoints/not_reached" });
        }
        self.steps += 1;
        let r = match res {
            Ok(r) => r,
            Err(pi) => {
                self.log.push(entry);
                let mut rp = self.base.clone();
                rp["history"] = json!(self.log);
                out.panic(P, &pi, op.kind(), rp);
                self.dead = true;
                return false;
            }
        };
        entry["generation_after"] = json!(self.dt.tds().generation());
        self.log.push(entry);
        let label = r.label();
        out.count(&format!("step/{}/{}{}", op.kind(), label.split('(').next().unwrap_or(""), if fired { "/failpoint-fired" } else { "" }));
        if let Res::RepairOk { heuristic: true, .. } = r {
            out.count("step/heuristic_rebuild_reported");
        }
        // "including failed and rolled-back ones": an operation that reports failure after it passed a
        // site that lies behind its first edit of the complex has changed the triangulation (and changed
        // it back); hulls created before it must report staleness from now on.
        let failed = label.starts_with("Err") || label.starts_with("Skipped");
        let edited = trace.iter().any(|s| POST_EDIT_SITES.contains(s));
        let rolled_back = failed && edited;
        if rolled_back {
            out.count("step/failed-after-first-edit");
            out.count(&format!("step/failed-after-first-edit/{}", op.kind()));
        }
        self.observe(rng, out, op.kind(), force_hull, rolled_back);
        // memory upkeep (same as the history engine)
        let post = &self.cur_m;
        for c in &pre.cells {
            if !post.cidx.contains_key(&c.key) && self.mem.stale_cells.len() < 64 {
                self.mem.stale_cells.push(c.key);
            }
        }
        for v in &pre.verts {
            if !post.vidx.contains_key(&v.key) {
                if self.mem.stale_vertices.len() < 64 {
                    self.mem.stale_vertices.push(v.key);
                }
                if self.mem.removed.len() < 64 {
                    self.mem.removed.push((v.uuid, v.p));
                }
            }
        }
        true
    }

    /// After-step processing: lineage bookkeeping, querying the pool, creating new hulls.
    fn observe(&mut self, rng: &mut Rng, out: &mut Out, opkind: &str, force_hull: bool, rolled_back: bool) {
        let m = RefModel::from_dt(&self.dt);
        let fp = fingerprint::keyfree(&m);
        let gen_now = self.dt.tds().generation();
        if self.lineage.record(gen_now, &fp) {
            out.count("generation/reused-with-different-state");
            out.count(&format!("generation/reused-with-different-state/{}", opkind));
        }
        let mut retire: Vec<usize> = Vec::new();
        let mut events: Vec<Value> = Vec::new();
        let scenario = self.scenario;
        for (i, e) in self.pool.iter_mut().enumerate() {
            let same_state = e.fp == fp;
            let changed = !same_state || rolled_back;
            let rb_kind = format!("{}+rolled-back", opkind);
            let opkind: &str = if same_state && rolled_back { &rb_kind } else { opkind };
            let info = HullInfo { hull: &e.hull, facets: &e.facets, qs: &e.qs, generation: e.generation, created_step: e.created_step, sentinel: Some(&e.sentinel) };
            {
                let base = &self.base;
                let log = &self.log;
                let rp = |extra: Value| {
                    let mut r = base.clone();
                    r["scenario"] = json!(scenario);
                    r["history"] = json!(log);
                    r["detail"] = extra;
                    r
                };
                if assess(out, rng, &info, &self.dt, changed, "main", opkind, &rp) {
                    retire.push(i);
                }
                if let Some(fr) = &e.frozen {
                    // the frozen clone still is the creation state: stale or correct, never wrong
                    assess(out, rng, &info, fr, false, "clone-frozen", opkind, &rp);
                }
            }
            let mut drop_mutant = false;
            if let Some(mu) = e.mutant.as_mut() {
                if rng.chance(2, 3) {
                    let mm = RefModel::from_dt(&mu.dt);
                    let op = hist::next_op(rng, &mm, &self.mem, &Mix::everything());
                    match hist::apply(&mut mu.dt, &op) {
                        Ok(r) => {
                            let mut en = op.to_json();
                            en["result"] = json!(r.label());
                            en["generation_after"] = json!(mu.dt.tds().generation());
                            events.push(json!({"event": "operation applied to a CLONE taken when the hull of step-marker was created (shares the generation counter)", "hull_created_after_step": e.created_step, "op": en.clone(), "generation_of_this_object_afterwards": self.dt.tds().generation()}));
                            mu.log.push(en);
                            out.count("clone/mutations");
                        }
                        Err(_) => {
                            drop_mutant = true;
                        }
                    }
                }
                if !drop_mutant {
                    let mm = RefModel::from_dt(&mu.dt);
                    let mfp = fingerprint::keyfree(&mm);
                    if mu.lineage.record(mu.dt.tds().generation(), &mfp) {
                        out.count("generation/reused-with-different-state");
                        out.count("generation/reused-with-different-state/on-clone");
                    }
                    let base = &self.base;
                    let log = &self.log;
                    let mlog = &mu.log;
                    let rp = |extra: Value| {
                        let mut r = base.clone();
                        r["scenario"] = json!(scenario);
                        r["history"] = json!(log);
                        r["clone_history"] = json!(mlog);
                        r["detail"] = extra;
                        r
                    };
                    let last = mlog.last().and_then(|x| x["op"].as_str()).unwrap_or("none").to_string();
                    if assess(out, rng, &info, &mu.dt, mfp != e.fp, "clone-mutated", &last, &rp) {
                        drop_mutant = true;
                    }
                }
            }
            if drop_mutant {
                e.mutant = None;
            }
        }
        for i in retire.into_iter().rev() {
            self.pool.remove(i);
            out.count("hulls/retired-after-finding");
        }
        self.log.extend(events);
        self.cur_m = m;
        // new hull?
        let want = force_hull || (self.pool.len() < POOL_MAX && rng.chance(1, 2)) || rng.chance(1, 8);
        if want {
            self.create_hull(rng, out, &fp);
        }
    }

    fn create_hull(&mut self, rng: &mut Rng, out: &mut Out, fp: &str) {
        let m = &self.cur_m;
        let gu = Guarantee::from_lib(self.dt.topology_guarantee());
        if !geometrically_valid(m, gu) {
            out.count(if m.cells.is_empty() { "pool/skip/no-cells" } else { "pool/skip/state-not-exactly-valid" });
            return;
        }
        let hull = match guard(|| ConvexHull::from_triangulation(self.dt.as_triangulation())) {
            Ok(Ok(h)) => h,
            Ok(Err(_)) => {
                out.count("pool/skip/from_triangulation_err");
                return;
            }
            Err(pi) => {
                let mut rp = self.base.clone();
                rp["history"] = json!(self.log);
                out.panic(P, &pi, "ConvexHull::from_triangulation", rp);
                return;
            }
        };
        let base = &self.base;
        let log = &self.log;
        let scenario = self.scenario;
        let rp = |extra: Value| {
            let mut r = base.clone();
            r["scenario"] = json!(scenario);
            r["history"] = json!(log);
            r["detail"] = extra;
            r
        };
        let facets = match hull_geometry(&hull, m) {
            Ok(f) => f,
            Err(e) => {
                out.violation(P, "hull/facet-set-differs", format!("fresh hull has an unusable facet handle: {}", e), rp(json!(null)));
                return;
            }
        };
        structure_check(out, m, &facets, &rp);
        let qs = probe_points(rng, m, &facets);
        out.count(&format!("pool/probe_inside_point/{}", sides(&facets, &qs[0]).0.name()));
        let (frozen, mutant) = if self.with_clones && rng.chance(1, 2) {
            out.count("clone/pairs_created");
            (Some(self.dt.clone()), Some(Mutant { dt: self.dt.clone(), log: Vec::new(), lineage: Lineage::default() }))
        } else {
            (None, None)
        };
        let e = Pooled { hull, fp: fp.to_string(), generation: self.dt.tds().generation(), created_step: self.steps, facets, qs, sentinel: self.dt.tds().clone(), frozen, mutant };
        self.max_facets = self.max_facets.max(e.facets.len());
        self.hulls_created += 1;
        self.log.push(json!({"event": "hull created", "after_step": e.created_step, "generation": e.generation, "facets": e.facets.len(), "with_clones": e.frozen.is_some()}));
        out.count("hulls/created");
        out.count(&format!("hulls/created/{}", self.scenario));
        if self.pool.len() >= POOL_MAX {
            let i = rng.usize(self.pool.len());
            self.pool[i] = e;
        } else {
            self.pool.push(e);
        }
    }

    fn random_steps(&mut self, ctx: &Ctx, rng: &mut Rng, out: &mut Out, mix: &Mix, len: usize, failpoints: bool) {
        for _ in 0..len {
            if self.dead {
                break;
            }
            if ctx.elapsed() > ctx.budget_s * 1.05 {
                out.count("history_cut_by_budget");
                break;
            }
            let op = hist::next_op(rng, &self.cur_m, &self.mem, mix);
            let fp = if failpoints && op.is_mutation() && rng.chance(1, 5) { Some((site_for(rng, op.kind()), rng.usize(2) as u64)) } else { None };
            if !self.step(rng, out, op, fp, false) {
                break;
            }
        }
    }

    fn finish(&self, out: &mut Out, cs: u64, kn: Kn) {
        out.add("steps", self.steps as u64);
        if self.max_facets > D + 1 {
            out.nontrivial(&cs.to_string());
        }
        if out.samples.len() < 4 && self.log.len() > 4 {
            out.sample(json!({"scenario": self.scenario, "D": D, "kernel": kn.name(), "hulls_created": self.hulls_created, "ops": self.log.iter().take(8).cloned().collect::<Vec<_>>(), "total_ops": self.log.len()}));
        }
    }
}

fn history_case<K, const D: usize>(ctx: &Ctx, out: &mut Out, cs: u64, kn: Kn, rng: &mut Rng)
where
    K: Kernel<D, Scalar = f64>,
{
    let thorough = ctx.tier == Tier::Thorough;
    let Some((mut dt, mem, start)) = super::c02::start_dt::<K, D>(rng, thorough, out) else { return };
    let init: Vec<Op<D>> = vec![Op::SetValidationPolicy(rng.usize(4) as u8), Op::SetRepairPolicy(rng.usize(4) as u8), Op::SetCheckPolicy(rng.usize(3) as u8)];
    for op in &init {
        let _ = hist::apply(&mut dt, op);
    }
    let base = json!({"property": P, "case_seed": cs.to_string(), "D": D, "kernel": kn.name(), "start": start, "initial_policies": init.iter().map(|o| o.to_json()).collect::<Vec<_>>()});
    let with_clones = rng.chance(1, 2);
    let mut drv = Drv::new(dt, mem, base, "history", with_clones);
    drv.observe(rng, out, "start", true, false);
    let len = if thorough { 20 + rng.usize(60) } else { 8 + rng.usize(24) };
    let len = if D >= 4 { len / 2 + 3 } else { len };
    drv.random_steps(ctx, rng, out, &Mix::everything(), len, true);
    drv.finish(out, cs, kn);
}

/// D+2 points: the first D+1 form a decidedly non-degenerate simplex, and so does the set with
/// point `j` replaced by the last one (for every j).
fn simplex_and_spare<const D: usize>(rng: &mut Rng) -> Vec<[f64; D]> {
    let decided = |pts: &[[f64; D]]| matches!(exact::classify(&exact::orient_det(pts), exact::tol_orient(pts), exact::err_orient(pts)), Band::Decided(_));
    for _ in 0..20 {
        let fam = if rng.bool() { Family::Dyadic } else { Family::Grid };
        let pts = g::points::<D>(rng, fam, D + 2);
        if pts.len() != D + 2 {
            continue;
        }
        let simplex: Vec<[f64; D]> = pts[..D + 1].to_vec();
        if !decided(&simplex) {
            continue;
        }
        let ok = (0..D + 1).all(|j| {
            let mut s = simplex.clone();
            s[j] = pts[D + 1];
            decided(&s)
        });
        if ok {
            return pts;
        }
    }
    // fallback: origin, 2*e_i, spare (3,..,3)
    let mut pts = vec![[0.0; D]];
    for i in 0..D {
        let mut p = [0.0; D];
        p[i] = 2.0;
        pts.push(p);
    }
    pts.push([3.0; D]);
    pts
}

/// Scripted prefix: build a simplex by insertion, create a hull, remove vertices down into the
/// bootstrap state, insert different (or the same) vertices so that the Tds is built afresh.
fn bootstrap_case<K, const D: usize>(ctx: &Ctx, out: &mut Out, cs: u64, kn: Kn, rng: &mut Rng)
where
    K: Kernel<D, Scalar = f64>,
{
    let thorough = ctx.tier == Tier::Thorough;
    let gu = *rng.pick(&GUARANTEES);
    let dt = Dt::<K, D>::with_empty_kernel_and_topology_guarantee(K::default(), gu.to_lib());
    let mem = Memory::<D> { grid: 0.5, extent: 8.0, ..Default::default() };
    let pts = simplex_and_spare::<D>(rng);
    let variant = *rng.pick(&["different-vertex", "different-vertex", "different-vertex", "same-vertex-again", "same-point-new-uuid"]);
    let base = json!({"property": P, "case_seed": cs.to_string(), "D": D, "kernel": kn.name(), "start": {"start": "empty", "guarantee": format!("{:?}", gu)}, "script": {"simplex_and_spare": pts_json(&pts), "variant": variant}});
    let mut drv = Drv::new(dt, mem, base, "bootstrap-roundtrip", rng.chance(1, 3));
    let uuids: Vec<Uuid> = (0..D + 2).map(|_| rng.uuid()).collect();
    for i in 0..D + 1 {
        let op = Op::Insert { p: pts[i], uuid: uuids[i], data: Some(i as i64 + 1), how: "scripted-simplex" };
        if !drv.step(rng, out, op, None, i == D) {
            return;
        }
    }
    if drv.pool.is_empty() {
        out.count("bootstrap/no_hull_after_simplex");
    }
    // remove r vertices (r = 1 mostly)
    let r = if rng.chance(2, 3) { 1 } else { 1 + rng.usize(D) };
    let mut order: Vec<usize> = (0..D + 1).collect();
    rng.shuffle(&mut order);
    let removed: Vec<usize> = order[..r].to_vec();
    for &i in &removed {
        let op = Op::Remove { uuid: uuids[i], p: pts[i], how: "scripted" };
        if !drv.step(rng, out, op, None, false) {
            return;
        }
    }
    // insert back: the first removed one is replaced according to the variant, the others return unchanged
    for (n, &i) in removed.iter().enumerate() {
        let op = if n == 0 {
            match variant {
                "different-vertex" => Op::Insert { p: pts[D + 1], uuid: uuids[D + 1], data: Some(99), how: "scripted-different" },
                "same-vertex-again" => Op::Insert { p: pts[i], uuid: uuids[i], data: Some(i as i64 + 1), how: "scripted-same" },
                _ => Op::Insert { p: pts[i], uuid: rng.uuid(), data: Some(i as i64 + 1), how: "scripted-same-point-new-uuid" },
            }
        } else {
            Op::Insert { p: pts[i], uuid: uuids[i], data: Some(i as i64 + 1), how: "scripted-same" }
        };
        let last = n + 1 == removed.len();
        if !drv.step(rng, out, op, None, last) {
            return;
        }
    }
    out.count(&format!("bootstrap/variant/{}", variant));
    // continue with a removal-heavy random tail on the small object (it dips into bootstrap again)
    let mix = Mix { insert: 4, insert_stats: 2, remove: 6, flips: 2, repair: 1, policy: 0, misc: 1 };
    let len = if thorough { 10 + rng.usize(30) } else { 4 + rng.usize(10) };
    let fps = rng.bool();
    drv.random_steps(ctx, rng, out, &mix, len, fps);
    drv.finish(out, cs, kn);
    // the scripted prefix is the interesting part of this scenario
    out.nontrivial(&format!("bootstrap|{}", cs));
}

/// Degenerate families + flips away from Delaunay + repair_advanced / repairing insertions: the
/// paths that may replace the whole object by a rebuilt candidate.
fn rebuild_case<K, const D: usize>(ctx: &Ctx, out: &mut Out, cs: u64, kn: Kn, rng: &mut Rng)
where
    K: Kernel<D, Scalar = f64>,
{
    let thorough = ctx.tier == Tier::Thorough;
    let fam = *rng.pick(&[Family::TinyGrid, Family::Sphere, Family::Grid, Family::Stacked, Family::Grid]);
    let n = D + 2 + rng.usize(if thorough { 4 * D } else { 2 * D });
    let pts = g::points::<D>(rng, fam, n);
    let inp = tri::mk_inputs(rng, &pts);
    let gu = *rng.pick(&GUARANTEES);
    let base0 = json!({"property": P, "case_seed": cs.to_string(), "D": D, "kernel": kn.name(), "start": {"start": "constructed", "family": fam.name(), "guarantee": format!("{:?}", gu), "points": pts_json(&pts)}});
    let mut dt = match tri::build::<K, D>(&K::default(), &inp, gu, &Opts::default_like()) {
        Ok(Ok(dt)) => dt,
        Ok(Err(_)) => {
            out.count("start/construction_err");
            return;
        }
        Err(pi) => {
            out.panic(P, &pi, "construction", base0);
            return;
        }
    };
    let ext = pts.iter().flat_map(|p| p.iter().map(|x| x.abs())).fold(1.0f64, f64::max);
    let mem = Memory::<D> { grid: (ext / 8.0).max(2f64.powi(-10)), extent: ext.max(1.0), ..Default::default() };
    let _ = hist::apply(&mut dt, &Op::SetRepairPolicy(0));
    let mut drv = Drv::new(dt, mem, base0, "repair-rebuild", false);
    // a hull of the freshly constructed object: a rebuilt candidate of the same vertex set may end at the same counter value
    drv.observe(rng, out, "start", true, false);
    let want = 2 + rng.usize(if thorough { 20 } else { 8 });
    let (done, plog) = perturb(&mut drv.dt, rng, want, gu, true);
    out.add("rebuild/perturb_flips_kept", done as u64);
    drv.log.push(json!({"event": "random walk of geometrically valid flips (c04::perturb)", "flips": plog, "generation_after": drv.dt.tds().generation()}));
    drv.steps += 1;
    drv.observe(rng, out, "flips", true, false);
    let rounds = if thorough { 6 } else { 3 };
    for _ in 0..rounds {
        if drv.dead || ctx.out_of_time() {
            break;
        }
        let op = match rng.usize(4) {
            0 => Op::Repair,
            1 => Op::SetRepairPolicy(1),
            _ => Op::RepairAdvanced { shuffle: if rng.bool() { Some(rng.next_u64()) } else { None }, perturb: if rng.bool() { Some(rng.next_u64()) } else { None } },
        };
        let fp = if rng.chance(1, 4) { Some((*rng.pick(&SITES_REPAIR), rng.usize(2) as u64)) } else { None };
        let force = rng.bool();
        if !drv.step(rng, out, op, fp, force) {
            break;
        }
        let mix = Mix { insert: 4, insert_stats: 2, remove: 2, flips: 8, repair: 3, policy: 1, misc: 0 };
        let tail = 2 + rng.usize(4);
        drv.random_steps(ctx, rng, out, &mix, tail, true);
    }
    drv.finish(out, cs, kn);
}

// ---------------------------------------------------------------------------------------------
// serde reload (unit-typed FastKernel triangulations only)
// ---------------------------------------------------------------------------------------------

type Udt<const D: usize> = DelaunayTriangulation<FastKernel<f64>, (), (), D>;

#[derive(Clone, Debug)]
enum UOp<const D: usize> {
    Ins([f64; D], Uuid),
    Rem([f64; D], Uuid),
}
impl<const D: usize> UOp<D> {
    fn to_json(&self) -> Value {
        match self {
            UOp::Ins(p, u) => json!({"op": "insert", "p": p.to_vec(), "uuid": u.to_string()}),
            UOp::Rem(p, u) => json!({"op": "remove_vertex", "p": p.to_vec(), "uuid": u.to_string()}),
        }
    }
}

fn uapply<const D: usize>(dt: &mut Udt<D>, op: &UOp<D>) -> Result<String, PanicInfo> {
    guard(|| match op {
        UOp::Ins(p, u) => match dt.insert(mk_vertex::<(), D>(*p, *u, None)) {
            Ok(_) => "Inserted".to_string(),
            Err(e) => format!("Err({})", e.to_string().chars().take(60).collect::<String>()),
        },
        UOp::Rem(p, u) => match dt.remove_vertex(&mk_vertex::<(), D>(*p, *u, None)) {
            Ok(n) => format!("Removed({})", n),
            Err(e) => format!("Err({})", e.to_string().chars().take(60).collect::<String>()),
        },
    })
}

fn serde_case<const D: usize>(ctx: &Ctx, out: &mut Out, cs: u64, rng: &mut Rng)
where
    Udt<D>: serde::Serialize + serde::de::DeserializeOwned,
{
    let thorough = ctx.tier == Tier::Thorough;
    let fam = *rng.pick(&[Family::Dyadic, Family::Grid, Family::Uniform, Family::Hull]);
    let by_insertion = rng.bool();
    let n = if by_insertion { D + 1 + rng.usize(3) } else { D + 2 + rng.usize(if thorough { 4 * D } else { 2 * D }) };
    let pts = g::points::<D>(rng, fam, n);
    let uu: Vec<Uuid> = pts.iter().map(|_| rng.uuid()).collect();
    let verts: Vec<_> = pts.iter().zip(&uu).map(|(p, u)| mk_vertex::<(), D>(*p, *u, None)).collect();
    let mut base = json!({"property": P, "case_seed": cs.to_string(), "D": D, "kernel": "fast", "scenario": "serde-reload", "family": fam.name(), "built": if by_insertion { "incremental insert" } else { "DelaunayTriangulation::new" }, "points": pts_json(&pts)});
    let built = guard(|| {
        if by_insertion {
            let mut dt = Udt::<D>::empty();
            for v in &verts {
                let _ = dt.insert(*v);
            }
            Ok(dt)
        } else {
            Udt::<D>::new(&verts).map_err(|e| e.to_string())
        }
    });
    let dt = match built {
        Ok(Ok(dt)) => dt,
        Ok(Err(_)) => {
            out.count("start/construction_err");
            return;
        }
        Err(pi) => {
            out.panic(P, &pi, "construction", base);
            return;
        }
    };
    let m0 = RefModel::from_dt(&dt);
    if !geometrically_valid(&m0, Guarantee::from_lib(dt.topology_guarantee())) {
        out.count("not_judged/serde/state_not_exactly_valid");
        return;
    }
    let fp0 = fingerprint::keyfree(&m0);
    let g_orig = dt.tds().generation();
    let ser = |d: &Udt<D>| guard(|| serde_json::to_string(d).map_err(|e| e.to_string()));
    let de = |t: &str| guard(|| serde_json::from_str::<Udt<D>>(t).map_err(|e| e.to_string()));
    let text = match ser(&dt) {
        Ok(Ok(t)) => t,
        _ => {
            out.count("serde/serialize_failed");
            return;
        }
    };
    // operation script for the copy
    let (lo, hi, _) = bbox(&m0);
    let mut ops: Vec<UOp<D>> = Vec::new();
    let mut removable: Vec<usize> = (0..m0.verts.len()).collect();
    rng.shuffle(&mut removable);
    for i in 0..40 {
        if i % 3 == 2 && !removable.is_empty() && m0.verts.len() > D + 2 {
            let v = &m0.verts[removable.pop().unwrap()];
            ops.push(UOp::Rem(v.p, v.uuid));
        } else {
            let mut p = [0.0; D];
            for j in 0..D {
                let w = (hi[j] - lo[j]).max(1.0);
                p[j] = lo[j] - 0.25 * w + (rng.usize(49) as f64 / 32.0) * w;
            }
            ops.push(UOp::Ins(p, rng.uuid()));
        }
    }
    // dry run: how far must the copy be mutated until its generation reaches the original's?
    let mut copy = match de(&text) {
        Ok(Ok(c)) => c,
        _ => {
            out.count("serde/deserialize_failed");
            return;
        }
    };
    let g0 = copy.tds().generation();
    out.max("serde/generation_after_deserialize_max", g0);
    out.count(if g0 == g_orig { "serde/reload_generation_equals_original" } else if g0 < g_orig { "serde/reload_generation_below_original" } else { "serde/reload_generation_above_original" });
    let mut k = 0usize;
    let mut natural = false;
    let mut gk = g0;
    while k < ops.len() {
        if uapply(&mut copy, &ops[k]).is_err() {
            out.count("serde/panic_in_script");
            return;
        }
        k += 1;
        gk = copy.tds().generation();
        let changed = fingerprint::keyfree(&RefModel::from_dt(&copy)) != fp0;
        if gk == g_orig && changed {
            natural = true;
            break;
        }
        if gk > g_orig && changed && k >= 1 + (cs % 3) as usize {
            break;
        }
    }
    if gk < g_orig {
        out.count("serde/cannot_align_generations");
        return;
    }
    // align the ORIGINAL's counter with gk without changing its state: clones of its Tds share the
    // counter, so a neighbour reset on a throw-away clone advances it by exactly one.
    let bumps = gk - g_orig;
    for _ in 0..bumps {
        let mut t = dt.tds().clone();
        t.clear_all_neighbors();
    }
    if dt.tds().generation() != gk || fingerprint::keyfree(&RefModel::from_dt(&dt)) != fp0 {
        out.count("serde/alignment_failed");
        return;
    }
    out.count(if natural { "serde/coincidence/natural" } else { "serde/coincidence/forced-by-shared-counter-bumps" });
    base["alignment"] = json!({
        "coincidence": if natural { "natural" } else { "forced" },"original_generation_before": g_orig, "bumps_via_throwaway_tds_clone_clear_all_neighbors": bumps, "generation_at_hull_creation": gk, "generation_of_copy_after_deserialize": g0, "copy_operations": ops[..k].iter().map(|o| o.to_json()).collect::<Vec<_>>()});
    // the hull is created BEFORE serialisation
    let Some((hull, facets)) = fresh_check(&dt, "serde-original", rng, out, thorough, &base, &[]) else { return };
    out.count("hulls/created");
    out.count("hulls/created/serde-reload");
    if facets.len() > D + 1 {
        out.nontrivial(&cs.to_string());
    }
    let qs = probe_points(rng, &m0, &facets);
    let info = HullInfo { hull: &hull, facets: &facets, qs: &qs, generation: gk, created_step: 0, sentinel: None };
    let text2 = match ser(&dt) {
        Ok(Ok(t)) => t,
        _ => {
            out.count("serde/serialize_failed");
            return;
        }
    };
    let rp = |extra: Value| {
        let mut r = base.clone();
        r["detail"] = extra;
        r
    };
    // (a) unmutated reload: same state, stale or correct
    if let Ok(Ok(same)) = de(&text2) {
        assess(out, rng, &info, &same, fingerprint::keyfree(&RefModel::from_dt(&same)) != fp0, "serde-reload-unchanged", "deserialize", &rp);
    }
    // (b) reload + k operations: generations coincide, state differs
    let mut copy2 = match de(&text2) {
        Ok(Ok(c)) => c,
        _ => {
            out.count("serde/deserialize_failed");
            return;
        }
    };
    for op in &ops[..k] {
        if uapply(&mut copy2, op).is_err() {
            out.count("serde/panic_in_script");
            return;
        }
    }
    let fp2 = fingerprint::keyfree(&RefModel::from_dt(&copy2));
    if copy2.tds().generation() != gk {
        out.count("serde/generation_not_reproduced");
    } else {
        out.count("serde/generations_coincide");
    }
    if fp2 == fp0 {
        out.count("serde/copy_not_changed");
    }
    let last = match ops[k - 1] {
        UOp::Ins(..) => "insert",
        UOp::Rem(..) => "remove_vertex",
    };
    assess(out, rng, &info, &copy2, fp2 != fp0, "serde-reload", last, &rp);
    // (c) the original itself is unchanged: stale or correct
    assess(out, rng, &info, &dt, false, "serde-original", "none", &rp);
    if out.samples.len() < 4 {
        out.sample(json!({"scenario": "serde-reload", "D": D, "alignment": base["alignment"]}));
    }
}

// ---------------------------------------------------------------------------------------------
// dispatch
// ---------------------------------------------------------------------------------------------

fn case<K, const D: usize>(ctx: &Ctx, out: &mut Out, cs: u64, kn: Kn)
where
    K: Kernel<D, Scalar = f64>,
    Udt<D>: serde::Serialize + serde::de::DeserializeOwned,
{
    let mut rng = Rng::new(cs);
    out.eval();
    let pick = rng.usize(20);
    let scenario = match pick {
        0..=6 => "fresh",
        7..=12 => "history",
        13..=15 => "bootstrap",
        16..=17 => "rebuild",
        _ => "serde",
    };
    out.count(&format!("cases/{}/D{}", scenario, D));
    match scenario {
        "fresh" => fresh_case::<K, D>(ctx, out, cs, kn, &mut rng),
        "history" => history_case::<K, D>(ctx, out, cs, kn, &mut rng),
        "bootstrap" => bootstrap_case::<K, D>(ctx, out, cs, kn, &mut rng),
        "rebuild" => rebuild_case::<K, D>(ctx, out, cs, kn, &mut rng),
        _ => serde_case::<D>(ctx, out, cs, &mut rng),
    }
    // never leave a failpoint armed for the next case
    let _ = verif::disarm();
}

pub fn run_case(ctx: &Ctx, out: &mut Out, cs: u64, d: usize, kn: Kn) {
    match (d, kn) {
        (2, Kn::Fast) => case::<FastKernel<f64>, 2>(ctx, out, cs, kn),
        (3, Kn::Fast) => case::<FastKernel<f64>, 3>(ctx, out, cs, kn),
        (4, Kn::Fast) => case::<FastKernel<f64>, 4>(ctx, out, cs, kn),
        (5, Kn::Fast) => case::<FastKernel<f64>, 5>(ctx, out, cs, kn),
        (2, Kn::Robust) => case::<RobustKernel<f64>, 2>(ctx, out, cs, kn),
        (3, Kn::Robust) => case::<RobustKernel<f64>, 3>(ctx, out, cs, kn),
        (4, Kn::Robust) => case::<RobustKernel<f64>, 4>(ctx, out, cs, kn),
        _ => case::<RobustKernel<f64>, 5>(ctx, out, cs, kn),
    }
}

pub fn run(ctx: &Ctx, out: &mut Out) {
    if let Some(doc) = &ctx.replay {
        if let (Some(cs), Some(d)) = (ctx.replay_seed(), doc["D"].as_u64()) {
            let kn = Kn::from_name(doc["kernel"].as_str().unwrap_or("fast")).unwrap_or(Kn::Fast);
            run_case(ctx, out, cs, d as usize, kn);
        } else {
            out.inconclusive("bad replay document");
        }
        return;
    }
    let cap = (if ctx.tier == Tier::Thorough { 200_000.0 } else { 3_000.0 } * ctx.scale) as u64;
    let mut i = 0u64;
    while i < cap && !ctx.out_of_time() {
        let cs = ctx.case_seed(i);
        let d = super::c01::pick_dim_hist(ctx, cs >> 7);
        let kn = if (cs >> 3) & 1 == 0 { Kn::Fast } else { Kn::Robust };
        run_case(ctx, out, cs, d, kn);
        i += 1;
    }
}
