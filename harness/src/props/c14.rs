//! C14 — construction is deterministic, order independent for the sorting strategies, and unique
//! for points in general position.
//!
//! A. same input + same options => same (ok/err, vertex table, cell set): repeated in one thread,
//!    in 4 concurrent threads, in 2 fresh child processes.
//! B. Hilbert / Morton / Lexicographic: the result does not depend on the caller's listing order
//!    (judged only without exact duplicate coordinates and when dedup cannot drop anything).
//! C. when one result carries the exact uniqueness certificate and is geometrically valid, every
//!    other successful, geometrically valid, violation-free construction that kept the same vertex
//!    set (other orderings, Input order permuted, other kernel, incremental) has the same cells.

use crate::api::{Kn, mk_vertex};
use crate::common::{Ctx, Out, PanicInfo, Tier, guard};
use crate::r#gen::{self as g, Family};
use crate::model::RefModel;
use crate::refcheck::{self, Guarantee};
use crate::rng::Rng;
use crate::tri::{self, Dt, GUARANTEES, Input, Opts};
use delaunay::core::delaunay_triangulation::{DedupPolicy, InsertionOrderStrategy, RetryPolicy};
use delaunay::geometry::kernel::{FastKernel, Kernel, RobustKernel};
use serde_json::{Value, json};
use std::num::NonZeroUsize;

const P: &str = "C14";

const ORDERS: [InsertionOrderStrategy; 4] =
    [InsertionOrderStrategy::Input, InsertionOrderStrategy::Lexicographic, InsertionOrderStrategy::Morton, InsertionOrderStrategy::Hilbert];

fn order_name(o: InsertionOrderStrategy) -> &'static str {
    match o {
        InsertionOrderStrategy::Input => "input",
        InsertionOrderStrategy::Lexicographic => "lexicographic",
        InsertionOrderStrategy::Morton => "morton",
        InsertionOrderStrategy::Hilbert => "hilbert",
        _ => "other",
    }
}

// ---------------------------------------------------------------------------------------------
// key-free, process-independent summary of a construction result
// ---------------------------------------------------------------------------------------------

#[derive(Clone, Debug, PartialEq, Eq)]
struct Summary {
    /// "ok" | "err" | "panic"
    class: String,
    /// first 30 characters of the error / panic text ("" for ok)
    head: String,
    /// vertex table sorted by UUID: (uuid, coordinate bit patterns as hex, data)
    vt: Vec<(String, Vec<String>, Option<i64>)>,
    /// cells as sorted tuples of coordinate bit patterns (hex), sorted
    cells: Vec<Vec<Vec<String>>>,
}

fn hex(x: u64) -> String {
    format!("{:016x}", x)
}
fn unhex(s: &str) -> f64 {
    f64::from_bits(u64::from_str_radix(s, 16).unwrap_or(0x7ff8_0000_0000_0000))
}

impl Summary {
    fn of_model<const D: usize>(m: &RefModel<D>) -> Self {
        Summary {
            class: "ok".into(),
            head: String::new(),
            vt: m.vertex_table().into_iter().map(|(u, p, d)| (u.to_string(), p.iter().map(|x| hex(*x)).collect(), d)).collect(),
            cells: m.cells_as_coords().into_iter().map(|c| c.into_iter().map(|p| p.iter().map(|x| hex(*x)).collect()).collect()).collect(),
        }
    }
    fn failed(class: &str, text: &str) -> Self {
        Summary { class: class.into(), head: text.chars().take(30).collect(), vt: Vec::new(), cells: Vec::new() }
    }
    fn to_json(&self) -> Value {
        json!({
            "class": self.class,
            "head": self.head,
            "vt": self.vt.iter().map(|(u, p, d)| json!([u, p, d])).collect::<Vec<_>>(),
            "cells": self.cells,
        })
    }
    fn from_json(v: &Value) -> Option<Self> {
        let class = v.get("class")?.as_str()?.to_string();
        let head = v.get("head")?.as_str()?.to_string();
        let mut vt = Vec::new();
        for e in v.get("vt")?.as_array()? {
            let u = e.get(0)?.as_str()?.to_string();
            let p: Vec<String> = e.get(1)?.as_array()?.iter().map(|x| x.as_str().map(str::to_string)).collect::<Option<_>>()?;
            let d = e.get(2)?.as_i64();
            vt.push((u, p, d));
        }
        let mut cells = Vec::new();
        for c in v.get("cells")?.as_array()? {
            let mut cc = Vec::new();
            for p in c.as_array()? {
                let pp: Vec<String> = p.as_array()?.iter().map(|x| x.as_str().map(str::to_string)).collect::<Option<_>>()?;
                cc.push(pp);
            }
            cells.push(cc);
        }
        Some(Summary { class, head, vt, cells })
    }
    fn brief(&self) -> String {
        if self.class == "ok" { format!("ok({} vertices, {} cells)", self.vt.len(), self.cells.len()) } else { format!("{}({:?})", self.class, self.head) }
    }
}

fn cell_str(c: &[Vec<String>]) -> String {
    let pts: Vec<String> = c.iter().map(|p| format!("{:?}", p.iter().map(|s| unhex(s)).collect::<Vec<f64>>())).collect();
    format!("[{}]", pts.join(" "))
}

/// Human-readable account of how two summaries differ.
fn describe_diff(a: &Summary, b: &Summary) -> String {
    if a.class != b.class || a.head != b.head {
        return format!("outcome differs: {} vs {}", a.brief(), b.brief());
    }
    let mut parts = Vec::new();
    if a.vt != b.vt {
        let only_a: Vec<_> = a.vt.iter().filter(|x| !b.vt.contains(x)).collect();
        let only_b: Vec<_> = b.vt.iter().filter(|x| !a.vt.contains(x)).collect();
        let show = |l: &[&(String, Vec<String>, Option<i64>)]| l.iter().take(4).map(|(u, p, d)| format!("{} {:?} data {:?}", u, p.iter().map(|s| unhex(s)).collect::<Vec<f64>>(), d)).collect::<Vec<_>>().join("; ");
        parts.push(format!("vertex tables differ ({} vs {} vertices; only in first: {}; only in second: {})", a.vt.len(), b.vt.len(), show(&only_a), show(&only_b)));
    }
    if a.cells != b.cells {
        let only_a: Vec<_> = a.cells.iter().filter(|x| !b.cells.contains(x)).collect();
        let only_b: Vec<_> = b.cells.iter().filter(|x| !a.cells.contains(x)).collect();
        parts.push(format!(
            "cell sets differ ({} vs {} cells; {} only in first e.g. {}; {} only in second e.g. {})",
            a.cells.len(),
            b.cells.len(),
            only_a.len(),
            only_a.iter().take(3).map(|c| cell_str(c)).collect::<Vec<_>>().join(" "),
            only_b.len(),
            only_b.iter().take(3).map(|c| cell_str(c)).collect::<Vec<_>>().join(" ")
        ));
    }
    parts.join("; ")
}

// ---------------------------------------------------------------------------------------------
// case generation (pure function of the case seed, dimension and tier)
// ---------------------------------------------------------------------------------------------

struct Spec<const D: usize> {
    fam: Family,
    general: bool,
    pts: Vec<[f64; D]>,
    inp: Vec<Input<D>>,
    gu: Guarantee,
    opts: Opts,
    /// two inputs with numerically equal coordinates (0.0 == -0.0 counts)
    has_dup: bool,
    /// smallest pairwise Chebyshev distance
    min_sep: f64,
    /// stream for everything decided after generation (permutation seeds, ...)
    rng: Rng,
}

fn gen_case<const D: usize>(cs: u64, thorough: bool) -> Spec<D> {
    let mut rng = Rng::new(cs);
    let fam = *rng.pick(&[
        Family::Dyadic,
        Family::Dyadic,
        Family::Uniform,
        Family::Hull,
        Family::Grid,
        Family::Grid,
        Family::TinyGrid,
        Family::TinyGrid,
        Family::Sphere,
        Family::Sphere,
        Family::Stacked,
    ]);
    // diagnostic override (not used by the normal runs): DVERIF_C14_FAMILY=<family name>
    let fam = std::env::var("DVERIF_C14_FAMILY").ok().and_then(|v| Family::from_name(&v)).unwrap_or(fam);
    let general = matches!(fam, Family::Dyadic | Family::Uniform | Family::Hull);
    // construction cost explodes with D: keep the high dimensions small in the quick tier
    let extra = match (D, thorough) {
        (2, false) | (3, false) => 5 * D - 1,
        (4, false) => 9,
        (_, false) => 7,
        (2, true) | (3, true) => 7 * D,
        (4, true) => 11,
        (_, true) => 9,
    };
    let n = D + 2 + rng.usize(extra);
    let mut pts = g::points::<D>(&mut rng, fam, n);
    // now and then an exact duplicate (clause A still applies, clause B is not judged)
    if !pts.is_empty() && rng.chance(1, 8) {
        let k = 1 + rng.usize(2);
        for _ in 0..k {
            let p = *rng.pick(&pts);
            let at = rng.usize(pts.len() + 1);
            pts.insert(at, p);
        }
    }
    // now and then one or two far outliers (2^34 x the extent, exactly representable): the space-filling
    // orderings quantise the bounding box to 64/D (Morton) or 31/25 (Hilbert) bits per axis, so all the
    // other points then share one code and only the tie-break decides their order
    if !pts.is_empty() && rng.chance(1, 5) {
        let ext = pts.iter().flat_map(|p| p.iter().map(|x| x.abs())).fold(1.0f64, f64::max);
        let far = 2f64.powi(34) * 2f64.powf(ext.log2().ceil());
        for k in 0..1 + rng.usize(2) {
            let mut p = [0.0; D];
            for (j, x) in p.iter_mut().enumerate() {
                *x = far * [1.0, 0.25, 0.5, 0.75, 0.125][(j + 2 * k + rng.usize(2)) % 5];
            }
            let at = rng.usize(pts.len() + 1);
            pts.insert(at, p);
        }
    }
    let inp = tri::mk_inputs(&mut rng, &pts);
    let gu = *rng.pick(&GUARANTEES);
    let mut opts = Opts::random(&mut rng);
    // retry policy with an explicitly recorded seed choice
    let attempts = NonZeroUsize::new(1 + rng.usize(3)).unwrap();
    let seed = if rng.bool() { Some(rng.next_u64()) } else { None };
    opts.retry = match rng.usize(4) {
        0 => RetryPolicy::Disabled,
        1 | 2 => RetryPolicy::Shuffled { attempts, base_seed: seed },
        _ => RetryPolicy::DebugOnlyShuffled { attempts, base_seed: seed },
    };
    let mut has_dup = false;
    let mut min_sep = f64::INFINITY;
    for i in 0..pts.len() {
        for j in i + 1..pts.len() {
            let d = (0..D).map(|k| (pts[i][k] - pts[j][k]).abs()).fold(0.0f64, f64::max);
            if d == 0.0 {
                has_dup = true;
            }
            if d < min_sep {
                min_sep = d;
            }
        }
    }
    Spec { fam, general, pts, inp, gu, opts, has_dup, min_sep, rng }
}

fn permuted<const D: usize>(inp: &[Input<D>], perm_seed: Option<u64>) -> Vec<Input<D>> {
    let mut v = inp.to_vec();
    if let Some(s) = perm_seed {
        Rng::new(s).shuffle(&mut v);
    }
    v
}

fn with_order(opts: &Opts, order: Option<InsertionOrderStrategy>) -> Opts {
    let mut o = opts.clone();
    if let Some(x) = order {
        o.order = x;
    }
    o
}

fn base_doc<const D: usize>(cs: u64, kn: Kn, thorough: bool, spec: &Spec<D>) -> Value {
    json!({
        "property": P,
        "case_seed": cs.to_string(),
        "D": D,
        "kernel": kn.name(),
        "thorough": thorough,
        "family": spec.fam.name(),
        "guarantee": format!("{:?}", spec.gu),
        "options": spec.opts.describe(),
        "has_duplicate_coordinates": spec.has_dup,
        "points": crate::common::pts_json(&spec.pts),
        "uuids": spec.inp.iter().map(|i| i.uuid.to_string()).collect::<Vec<_>>(),
    })
}

// ---------------------------------------------------------------------------------------------
// builds
// ---------------------------------------------------------------------------------------------

struct Built<const D: usize> {
    sum: Summary,
    model: Option<RefModel<D>>,
    panic: Option<PanicInfo>,
}

fn summarize<K, const D: usize>(r: Result<Result<Dt<K, D>, String>, PanicInfo>) -> Built<D>
where
    K: Kernel<D, Scalar = f64>,
{
    match r {
        Ok(Ok(dt)) => {
            let m = RefModel::from_dt(&dt);
            Built { sum: Summary::of_model(&m), model: Some(m), panic: None }
        }
        Ok(Err(e)) => Built { sum: Summary::failed("err", &e), model: None, panic: None },
        Err(pi) => Built { sum: Summary::failed("panic", &pi.message), model: None, panic: Some(pi) },
    }
}

/// One batch construction of the case with an optional ordering override and an optional
/// permutation of the caller's slice.
fn build_variant<K, const D: usize>(inp: &[Input<D>], gu: Guarantee, opts: &Opts, order: Option<InsertionOrderStrategy>, perm_seed: Option<u64>) -> Built<D>
where
    K: Kernel<D, Scalar = f64>,
{
    let v = permuted(inp, perm_seed);
    let o = with_order(opts, order);
    let mut b = summarize(tri::build::<K, D>(&K::default(), &v, gu, &o));
    corrupt_hook(&mut b.sum);
    b
}

/// Self-test hook: with DVERIF_C14_CORRUPT=<n> every n-th summary seen by the oracle loses its
/// last cell (proves the monitor can fail). Inactive unless the variable is set.
fn corrupt_hook(s: &mut Summary) {
    use std::sync::atomic::{AtomicU64, Ordering};
    static N: AtomicU64 = AtomicU64::new(0);
    static EVERY: std::sync::OnceLock<u64> = std::sync::OnceLock::new();
    let every = *EVERY.get_or_init(|| std::env::var("DVERIF_C14_CORRUPT").ok().and_then(|v| v.parse().ok()).unwrap_or(0));
    if every == 0 {
        return;
    }
    let k = N.fetch_add(1, Ordering::Relaxed) + 1;
    if k % every == 0 && s.cells.len() > 1 {
        s.cells.pop();
    }
}

/// Incremental construction: empty triangulation + one `insert` per vertex. None if any insert
/// failed or panicked, or if the library's own `validate()` does not certify the final state.
fn build_incremental<K, const D: usize>(inp: &[Input<D>], gu: Guarantee, out: &mut Out) -> Option<Built<D>>
where
    K: Kernel<D, Scalar = f64>,
{
    let r = guard(|| {
        let mut dt = Dt::<K, D>::with_empty_kernel_and_topology_guarantee(K::default(), gu.to_lib());
        for i in inp {
            if dt.insert(mk_vertex::<i32, D>(i.p, i.uuid, i.data)).is_err() {
                return Err("insert failed");
            }
        }
        if dt.validate().is_err() {
            return Err("not certified");
        }
        Ok(dt)
    });
    match r {
        Ok(Ok(dt)) => {
            let m = RefModel::from_dt(&dt);
            Some(Built { sum: Summary::of_model(&m), model: Some(m), panic: None })
        }
        Ok(Err(why)) => {
            out.count(&format!("C/not_judged/incremental/{}", why.replace(' ', "-")));
            None
        }
        Err(_) => {
            out.count("C/not_judged/incremental/panic");
            None
        }
    }
}

// ---------------------------------------------------------------------------------------------
// child processes
// ---------------------------------------------------------------------------------------------

fn child_doc(cs: u64, d: usize, kn: Kn, thorough: bool, order: Option<InsertionOrderStrategy>, perm_seed: Option<u64>) -> Value {
    json!({
        "property": P,
        "mode": "child-build",
        "case_seed": cs.to_string(),
        "D": d,
        "kernel": kn.name(),
        "thorough": thorough,
        "order": order.map(|o| ORDERS.iter().position(|x| *x == o).unwrap_or(0)),
        "perm_seed": perm_seed.map(|s| s.to_string()),
    })
}

fn child_build<K, const D: usize>(doc: &Value)
where
    K: Kernel<D, Scalar = f64>,
{
    let cs: u64 = doc["case_seed"].as_str().and_then(|s| s.parse().ok()).unwrap_or(0);
    let thorough = doc["thorough"].as_bool().unwrap_or(false);
    let order = doc["order"].as_u64().and_then(|i| ORDERS.get(i as usize).copied());
    let perm_seed = doc["perm_seed"].as_str().and_then(|s| s.parse::<u64>().ok());
    let spec = gen_case::<D>(cs, thorough);
    let b = build_variant::<K, D>(&spec.inp, spec.gu, &spec.opts, order, perm_seed);
    println!("CHILD-RESULT {}", serde_json::to_string(&b.sum.to_json()).unwrap_or_default());
}

/// Runs `k` fresh processes of this very binary on the child document, concurrently.
fn spawn_children(doc: &Value, k: usize) -> Vec<Result<Summary, String>> {
    use std::process::{Command, Stdio};
    use std::sync::atomic::{AtomicU64, Ordering};
    static SERIAL: AtomicU64 = AtomicU64::new(0);
    let exe = match std::env::current_exe() {
        Ok(e) => e,
        Err(e) => return vec![Err(format!("current_exe: {}", e)); k],
    };
    let path = std::env::temp_dir().join(format!("dverif-c14-{}-{}.json", std::process::id(), SERIAL.fetch_add(1, Ordering::Relaxed)));
    if let Err(e) = std::fs::write(&path, serde_json::to_string(doc).unwrap_or_default()) {
        return vec![Err(format!("write replay file: {}", e)); k];
    }
    let mut kids = Vec::new();
    for _ in 0..k {
        kids.push(Command::new(&exe).arg(P).arg("--replay").arg(&path).arg("--budget").arg("600").env_remove("DVERIF_C14_CORRUPT").stdin(Stdio::null()).stdout(Stdio::piped()).stderr(Stdio::null()).spawn());
    }
    let mut res = Vec::new();
    for kid in kids {
        let r = match kid {
            Err(e) => Err(format!("spawn: {}", e)),
            Ok(ch) => match ch.wait_with_output() {
                Err(e) => Err(format!("wait: {}", e)),
                Ok(o) => {
                    let txt = String::from_utf8_lossy(&o.stdout);
                    match txt.lines().find_map(|l| l.strip_prefix("CHILD-RESULT ")) {
                        None => Err(format!("no CHILD-RESULT line (exit {:?})", o.status.code())),
                        Some(js) => serde_json::from_str::<Value>(js).ok().and_then(|v| Summary::from_json(&v)).ok_or_else(|| "unparsable CHILD-RESULT".to_string()),
                    }
                }
            },
        };
        res.push(r);
    }
    let _ = std::fs::remove_file(&path);
    res
}

// ---------------------------------------------------------------------------------------------
// the case
// ---------------------------------------------------------------------------------------------

struct Ana {
    geo: bool,
    violations: usize,
    ambiguous_inside: usize,
    unique: bool,
}

fn analyse<const D: usize>(m: &RefModel<D>, gu: Guarantee) -> Ana {
    let geo = crate::props::c04::geometrically_valid(m, gu);
    let d = refcheck::check_delaunay(m);
    Ana { geo, violations: d.violations.len(), ambiguous_inside: d.ambiguous_inside, unique: d.unique_certificate }
}

fn case<K, K2, const D: usize>(ctx: &Ctx, out: &mut Out, cs: u64, kn: Kn, spawn: bool, thorough: bool)
where
    K: Kernel<D, Scalar = f64>,
    K2: Kernel<D, Scalar = f64>,
{
    out.eval();
    let t_case = std::time::Instant::now();
    let mut spec = gen_case::<D>(cs, thorough);
    let base = base_doc(cs, kn, thorough, &spec);
    let other_kn = if kn == Kn::Fast { Kn::Robust } else { Kn::Fast };
    if spec.inp.len() > D + 2 {
        out.nontrivial(&cs.to_string());
    }
    out.count(&format!("cases/D{}/{}", D, spec.fam.name()));
    out.count(&format!("cases/kernel/{}", kn.name()));
    out.count(&format!("cases/order/{}", order_name(spec.opts.order)));
    out.count(&format!(
        "cases/retry/{}",
        match spec.opts.retry {
            RetryPolicy::Disabled => "disabled",
            RetryPolicy::Shuffled { base_seed: Some(_), .. } => "shuffled-seeded",
            RetryPolicy::Shuffled { base_seed: None, .. } => "shuffled-derived",
            RetryPolicy::DebugOnlyShuffled { base_seed: Some(_), .. } => "debugonly-seeded",
            RetryPolicy::DebugOnlyShuffled { base_seed: None, .. } => "debugonly-derived",
            #[allow(unreachable_patterns)]
            _ => "other",
        }
    ));
    if spec.has_dup {
        out.count("cases/with_exact_duplicates");
    }
    let rp = |clause: &str, extra: Value| {
        let mut r = base.clone();
        r["clause"] = json!(clause);
        r["detail"] = extra;
        r
    };
    let inp = spec.inp.clone();
    let gu = spec.gu;
    let opts = spec.opts.clone();

    // ---------------------------------------------------------------- A. repeatability
    let t_first = std::time::Instant::now();
    let first = build_variant::<K, D>(&inp, gu, &opts, None, None);
    // a case whose single construction takes more than a second gets a reduced programme
    let slow = t_first.elapsed().as_millis() > 1000;
    if slow {
        out.count("cases/slow-construction-reduced-programme");
    }
    out.count(&format!("builds/base/{}", first.sum.class));
    if let Some(pi) = &first.panic {
        out.panic(P, pi, "batch construction", rp("A", json!(null)));
    }
    // evidence: which internal paths did this construction take (statistics constructor)
    {
        let verts = tri::to_vertices::<i32, D>(&inp);
        let r = guard(|| Dt::<K, D>::with_topology_guarantee_and_options_with_construction_statistics(&K::default(), &verts, gu.to_lib(), opts.to_lib()).map(|(dt, st)| (RefModel::from_dt(&dt), st)).map_err(|e| (e.error.to_string(), e.statistics)));
        let (sum, st) = match r {
            Ok(Ok((m, st))) => (Summary::of_model(&m), Some(st)),
            Ok(Err((e, st))) => (Summary::failed("err", &e), Some(st)),
            Err(pi) => (Summary::failed("panic", &pi.message), None),
        };
        if let Some(st) = st {
            if st.cells_removed_total > 0 {
                out.count("evidence/base/facet-repair-removed-cells");
            }
            if st.used_perturbation > 0 {
                out.count("evidence/base/used-perturbation");
            }
            if st.skipped_degeneracy > 0 {
                out.count("evidence/base/skipped-degenerate-vertices");
            }
            if st.skipped_duplicate > 0 {
                out.count("evidence/base/skipped-duplicate-vertices");
            }
        }
        // a different entry point, so only counted (not this property's business)
        out.count(if sum == first.sum { "other/statistics-constructor/same-as-plain" } else { "other/statistics-constructor/differs-from-plain" });
    }
    let k_same = if slow { 1 } else if thorough { 4 } else { 2 };
    for r in 0..k_same {
        let again = build_variant::<K, D>(&inp, gu, &opts, None, None);
        out.count(&format!("builds/repeat-same-thread/{}", again.sum.class));
        out.count("A/compared/same-thread");
        if again.sum != first.sum {
            out.violation(
                P,
                &format!("D{}/repeat/same-thread-differs", D),
                format!("build #{} of the same input with the same options ({}) in the same thread differs from build #1: {}", r + 2, opts.describe(), describe_diff(&first.sum, &again.sum)),
                rp("A/same-thread", json!({"first": first.sum.to_json(), "other": again.sum.to_json()})),
            );
            break;
        }
    }
    {
        // 4 concurrently running threads; threads 1 and 3 first build an unrelated variant so that
        // their thread-local state and the global telemetry differ when the judged build starts
        let warm_seed = spec.rng.next_u64();
        let results: Vec<Summary> = std::thread::scope(|s| {
            let handles: Vec<_> = (0..4usize)
                .map(|t| {
                    let my_inp = inp.clone();
                    let my_opts = opts.clone();
                    s.spawn(move || {
                        if t % 2 == 1 {
                            let _ = build_variant::<K, D>(&my_inp, gu, &my_opts, Some(InsertionOrderStrategy::Input), Some(warm_seed.wrapping_add(t as u64)));
                        }
                        build_variant::<K, D>(&my_inp, gu, &my_opts, None, None).sum
                    })
                })
                .collect();
            handles.into_iter().map(|h| h.join().unwrap_or_else(|_| Summary::failed("panic", "thread join failed"))).collect()
        });
        for (t, s) in results.iter().enumerate() {
            out.count(&format!("builds/threads/{}", s.class));
            out.count("A/compared/threads");
            if *s != first.sum {
                out.violation(
                    P,
                    &format!("D{}/repeat/threads-differs", D),
                    format!("build in concurrent thread {} differs from the main-thread build of the same input/options ({}): {}", t, opts.describe(), describe_diff(&first.sum, s)),
                    rp("A/threads", json!({"first": first.sum.to_json(), "other": s.to_json()})),
                );
                break;
            }
        }
    }
    if spawn {
        let doc = child_doc(cs, D, kn, thorough, None, None);
        for (c, r) in spawn_children(&doc, 2).into_iter().enumerate() {
            match r {
                Err(why) => {
                    out.count("A/not_judged/processes/child-failed");
                    if out.notes.len() < 5 {
                        out.notes.push(format!("child process failed: {}", why));
                    }
                }
                Ok(s) => {
                    out.count(&format!("builds/processes/{}", s.class));
                    out.count("A/compared/processes");
                    if s != first.sum {
                        out.violation(
                            P,
                            &format!("D{}/repeat/processes-differs", D),
                            format!("build in fresh child process {} differs from the build in this process of the same input/options ({}): {}", c, opts.describe(), describe_diff(&first.sum, &s)),
                            rp("A/processes", json!({"first": first.sum.to_json(), "other": s.to_json(), "child_doc": doc})),
                        );
                        break;
                    }
                }
            }
        }
    } else {
        out.count("A/not_judged/processes/not-sampled");
    }

    // ---------------------------------------------------------------- B. order independence
    // results kept for clause C: (variant name, build)
    let mut pool: Vec<(String, Built<D>)> = vec![("base".to_string(), first)];
    let dedup_inert = match opts.dedup {
        DedupPolicy::Off | DedupPolicy::Exact => true,
        DedupPolicy::Epsilon { tolerance } => spec.min_sep > 4.0 * tolerance && spec.min_sep > 1e-9,
        _ => false,
    };
    let judge_b = !spec.has_dup && dedup_inert;
    if !judge_b {
        out.count(if spec.has_dup { "B/not_judged/exact-duplicate-coordinates" } else { "B/not_judged/epsilon-dedup-may-drop-by-input-order" });
    }
    let n_perm = if slow { 2 } else if D <= 3 { 8 } else if thorough { 6 } else if D == 4 { 4 } else { 3 };
    for ord in [InsertionOrderStrategy::Hilbert, InsertionOrderStrategy::Morton, InsertionOrderStrategy::Lexicographic] {
        let name = order_name(ord);
        let reference = build_variant::<K, D>(&inp, gu, &opts, Some(ord), None);
        out.count(&format!("builds/order-{}/{}", name, reference.sum.class));
        if let Some(pi) = &reference.panic {
            out.panic(P, pi, "batch construction", rp("B", json!({"order": name})));
        }
        if judge_b {
            for _ in 0..n_perm {
                if ctx.replay.is_none() && ctx.elapsed() > ctx.budget_s * 1.25 {
                    out.count("B/not_judged/permutations-cut-by-time-budget");
                    break;
                }
                let ps = spec.rng.next_u64();
                let b = build_variant::<K, D>(&inp, gu, &opts, Some(ord), Some(ps));
                out.count(&format!("builds/order-{}-permuted/{}", name, b.sum.class));
                out.count(&format!("B/compared/{}", name));
                if b.sum != reference.sum {
                    out.violation(
                        P,
                        &format!("D{}/permutation/{}-differs", D, name),
                        format!(
                            "with {:?} ordering (dedup {:?}, simplex {:?}, retry {:?}) the result depends on the order of the caller's slice: as listed vs permuted (seed {}): {}",
                            ord,
                            opts.dedup,
                            opts.simplex,
                            opts.retry,
                            ps,
                            describe_diff(&reference.sum, &b.sum)
                        ),
                        rp("B", json!({"order": name, "perm_seed": ps.to_string(), "permuted_uuids": permuted(&inp, Some(ps)).iter().map(|i| i.uuid.to_string()).collect::<Vec<_>>(), "as_listed": reference.sum.to_json(), "permuted": b.sum.to_json()})),
                    );
                    break;
                }
            }
        }
        pool.push((format!("order-{}", name), reference));
    }

    // ---------------------------------------------------------------- C. uniqueness
    // analyses are cached per distinct (vertex table, cells)
    let mut anas: Vec<Option<Ana>> = Vec::new();
    let ana_of = |pool: &Vec<(String, Built<D>)>, anas: &mut Vec<Option<Ana>>, i: usize| {
        while anas.len() < pool.len() {
            anas.push(None);
        }
        if anas[i].is_none() {
            if let Some(j) = (0..i).find(|&j| anas[j].is_some() && pool[j].1.sum == pool[i].1.sum) {
                let a = anas[j].as_ref().unwrap();
                anas[i] = Some(Ana { geo: a.geo, violations: a.violations, ambiguous_inside: a.ambiguous_inside, unique: a.unique });
            } else if let Some(m) = &pool[i].1.model {
                anas[i] = Some(analyse(m, gu));
            }
        }
    };
    let certified_in = |pool: &Vec<(String, Built<D>)>, anas: &mut Vec<Option<Ana>>| -> Option<usize> {
        for i in 0..pool.len() {
            if pool[i].1.sum.class != "ok" {
                continue;
            }
            ana_of(pool, anas, i);
            if let Some(a) = &anas[i] {
                if a.geo && a.unique {
                    return Some(i);
                }
            }
        }
        None
    };
    let mut reference = certified_in(&pool, &mut anas);
    if spec.general || reference.is_some() {
        // the remaining variants: Input order on a permuted slice, the other kernel, incremental
        let ps = spec.rng.next_u64();
        let b = build_variant::<K, D>(&inp, gu, &opts, Some(InsertionOrderStrategy::Input), Some(ps));
        out.count(&format!("builds/input-order-permuted/{}", b.sum.class));
        if let Some(pi) = &b.panic {
            out.panic(P, pi, "batch construction", rp("C", json!({"order": "input", "perm_seed": ps.to_string()})));
        }
        pool.push(("input-order-permuted".to_string(), b));
        let mut b2 = summarize(tri::build::<K2, D>(&K2::default(), &inp, gu, &opts));
        corrupt_hook(&mut b2.sum);
        out.count(&format!("builds/other-kernel/{}", b2.sum.class));
        if let Some(pi) = &b2.panic {
            out.panic(P, pi, "batch construction (other kernel)", rp("C", json!({"kernel": other_kn.name()})));
        }
        pool.push(("other-kernel".to_string(), b2));
        let ps2 = spec.rng.next_u64();
        if let Some(mut b3) = build_incremental::<K, D>(&permuted(&inp, Some(ps2)), gu, out) {
            corrupt_hook(&mut b3.sum);
            out.count("builds/incremental/ok");
            pool.push(("incremental".to_string(), b3));
        }
        if reference.is_none() {
            reference = certified_in(&pool, &mut anas);
        }
    }
    match reference {
        None => out.count(&format!("C/cases/no-certificate/{}", if spec.general { "general-family" } else { "symmetric-family" })),
        Some(r) => {
            out.count("C/cases/with-certificate");
            out.count(&format!("C/cases/with-certificate/D{}", D));
            for x in 0..pool.len() {
                if x == r {
                    continue;
                }
                let name = pool[x].0.clone();
                if pool[x].1.sum.class != "ok" {
                    out.count(&format!("C/not_judged/{}/construction-{}", name, pool[x].1.sum.class));
                    continue;
                }
                if pool[x].1.sum.vt != pool[r].1.sum.vt {
                    out.count(&format!("C/not_comparable/{}/different-surviving-vertices", name));
                    continue;
                }
                ana_of(&pool, &mut anas, x);
                let Some(a) = &anas[x] else { continue };
                if !a.geo {
                    out.count(&format!("C/not_judged/{}/not-geometrically-valid", name));
                    continue;
                }
                if a.violations > 0 {
                    out.count(&format!("other/non-delaunay-result/{}", name));
                    continue;
                }
                out.count(&format!("C/compared/{}", name));
                if pool[x].1.sum.cells != pool[r].1.sum.cells {
                    out.violation(
                        P,
                        &format!("D{}/unique/{}-differs", D, name),
                        format!(
                            "the {} result carries the exact uniqueness certificate (every off-cell vertex strictly outside every circumsphere beyond the tolerance band), yet the successful, geometrically valid {} construction of the same vertex set (no Delaunay violation beyond the band, {} strictly-inside pairs within the band) has different cells: {}",
                            pool[r].0,
                            name,
                            a.ambiguous_inside,
                            describe_diff(&pool[r].1.sum, &pool[x].1.sum)
                        ),
                        rp("C", json!({"certified_variant": pool[r].0, "other_variant": name, "other_kernel": other_kn.name(), "certified": pool[r].1.sum.to_json(), "other": pool[x].1.sum.to_json()})),
                    );
                }
            }
        }
    }
    if out.samples.len() < 3 {
        out.sample(json!({
            "case_seed": cs.to_string(), "D": D, "kernel": kn.name(), "family": spec.fam.name(), "n": inp.len(), "options": opts.describe(),
            "base_result": pool[0].1.sum.brief(), "child_processes": spawn, "clause_B_judged": judge_b, "uniqueness_certificate": reference.is_some(),
            "variants_built": pool.iter().map(|(n, _)| n.clone()).collect::<Vec<_>>(),
        }));
    }
    let ms = t_case.elapsed().as_millis() as u64;
    out.add(&format!("time_ms/D{}", D), ms);
    out.max(&format!("time_ms_max/D{}", D), ms);
    let _ = ctx;
}

fn run_case(ctx: &Ctx, out: &mut Out, cs: u64, d: usize, kn: Kn, spawn: bool, thorough: bool) {
    type F = FastKernel<f64>;
    type R = RobustKernel<f64>;
    match (d, kn) {
        (2, Kn::Fast) => case::<F, R, 2>(ctx, out, cs, kn, spawn, thorough),
        (3, Kn::Fast) => case::<F, R, 3>(ctx, out, cs, kn, spawn, thorough),
        (4, Kn::Fast) => case::<F, R, 4>(ctx, out, cs, kn, spawn, thorough),
        (5, Kn::Fast) => case::<F, R, 5>(ctx, out, cs, kn, spawn, thorough),
        (2, Kn::Robust) => case::<R, F, 2>(ctx, out, cs, kn, spawn, thorough),
        (3, Kn::Robust) => case::<R, F, 3>(ctx, out, cs, kn, spawn, thorough),
        (4, Kn::Robust) => case::<R, F, 4>(ctx, out, cs, kn, spawn, thorough),
        _ => case::<R, F, 5>(ctx, out, cs, kn, spawn, thorough),
    }
}

fn run_child(doc: &Value, d: usize, kn: Kn) {
    type F = FastKernel<f64>;
    type R = RobustKernel<f64>;
    match (d, kn) {
        (2, Kn::Fast) => child_build::<F, 2>(doc),
        (3, Kn::Fast) => child_build::<F, 3>(doc),
        (4, Kn::Fast) => child_build::<F, 4>(doc),
        (5, Kn::Fast) => child_build::<F, 5>(doc),
        (2, Kn::Robust) => child_build::<R, 2>(doc),
        (3, Kn::Robust) => child_build::<R, 3>(doc),
        (4, Kn::Robust) => child_build::<R, 4>(doc),
        _ => child_build::<R, 5>(doc),
    }
}

pub fn run(ctx: &Ctx, out: &mut Out) {
    if let Some(doc) = &ctx.replay {
        if let (Some(cs), Some(d)) = (ctx.replay_seed(), doc["D"].as_u64()) {
            let kn = Kn::from_name(doc["kernel"].as_str().unwrap_or("fast")).unwrap_or(Kn::Fast);
            if doc["mode"].as_str() == Some("child-build") {
                run_child(doc, d as usize, kn);
                return;
            }
            let thorough = doc["thorough"].as_bool().unwrap_or(ctx.tier == Tier::Thorough);
            run_case(ctx, out, cs, d as usize, kn, true, thorough);
        } else {
            out.inconclusive("bad replay document");
        }
        return;
    }
    let thorough = ctx.tier == Tier::Thorough;
    let cap = (if thorough { 200_000.0 } else { 3_000.0 } * ctx.scale) as u64;
    let mut i = 0u64;
    let mut slowest = (0u128, 0u64, 0usize);
    while i < cap && !ctx.out_of_time() {
        let cs = ctx.case_seed(i);
        let d = super::c01::pick_dim_hist(ctx, cs >> 7);
        let kn = if (cs >> 3) & 1 == 0 { Kn::Fast } else { Kn::Robust };
        let spawn = thorough || i % 4 == 0;
        let t = std::time::Instant::now();
        run_case(ctx, out, cs, d, kn, spawn, thorough);
        let ms = t.elapsed().as_millis();
        if ms > slowest.0 {
            slowest = (ms, cs, d);
        }
        i += 1;
    }
    out.notes.push(format!("slowest case: seed {} D{} {} ms", slowest.1, slowest.2, slowest.0));
}
