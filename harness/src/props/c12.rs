//! C12 — geometric predicates return the exact sign on well-conditioned input.
//!
//! Oracle: exact determinant sign (exact.rs) judged against the documented band. A tuple is
//! *decided* when |det| > 8*tol + E (E = a-priori LU rounding allowance); *zero* when the exact
//! determinant is 0 and E < tol. Everything else is counted as ambiguous and never judged.

use crate::common::{Ctx, Out, Tier, bits, guard};
use crate::exact::{self, Band};
use crate::rng::Rng;
use delaunay::geometry::kernel::{FastKernel, Kernel, RobustKernel};
use delaunay::geometry::point::Point;
use delaunay::geometry::predicates::{InSphere, Orientation, insphere, insphere_distance, insphere_lifted, simplex_orientation};
use delaunay::geometry::traits::coordinate::Coordinate;
use serde_json::{Value, json};

const P: &str = "C12";

fn orient_i(o: Orientation) -> i32 {
    match o {
        Orientation::NEGATIVE => -1,
        Orientation::DEGENERATE => 0,
        Orientation::POSITIVE => 1,
    }
}
fn insph_i(o: InSphere) -> i32 {
    match o {
        InSphere::OUTSIDE => -1,
        InSphere::BOUNDARY => 0,
        InSphere::INSIDE => 1,
    }
}

fn parity(perm: &[usize]) -> i32 {
    let mut s = 1;
    for i in 0..perm.len() {
        for j in i + 1..perm.len() {
            if perm[i] > perm[j] {
                s = -s;
            }
        }
    }
    s
}

fn all_perms(n: usize) -> Vec<Vec<usize>> {
    let mut out = Vec::new();
    let mut p: Vec<usize> = (0..n).collect();
    fn rec(k: usize, p: &mut Vec<usize>, out: &mut Vec<Vec<usize>>) {
        if k == p.len() {
            out.push(p.clone());
            return;
        }
        for i in k..p.len() {
            p.swap(k, i);
            rec(k + 1, p, out);
            p.swap(k, i);
        }
    }
    rec(0, &mut p, &mut out);
    out
}

fn replay_doc<const D: usize>(simplex: &[[f64; D]], test: Option<&[f64; D]>, perm: &[usize], what: &str, expected: i32, got: &str) -> Value {
    json!({
        "property": P, "kind": "tuple", "D": D,
        "simplex": simplex.iter().map(|p| json!({"x": p.to_vec(), "bits": bits(p)})).collect::<Vec<_>>(),
        "test": test.map(|t| json!({"x": t.to_vec(), "bits": bits(t)})),
        "perm": perm, "predicate": what, "expected": expected, "got": got,
    })
}

/// Extra well-conditioning demanded before `insphere_distance` is judged: the simplex is far
/// from flat and the radial gap is large relative to the radii.
fn distance_judgeable<const D: usize>(simplex: &[[f64; D]], test: &[f64; D]) -> bool {
    // conditioning: |det_or| / prod(edge lengths from p0) > 1e-3
    let od = exact::orient_det(simplex).approx().abs();
    let mut prod = 1.0;
    for p in simplex.iter().skip(1) {
        let l: f64 = (0..D).map(|j| (p[j] - simplex[0][j]).powi(2)).sum::<f64>().sqrt();
        prod *= l;
    }
    if !(od / prod > 1e-3) {
        return false;
    }
    // radial gap: | |t-c|^2 - R^2 | relative to max(1, R^2, |t-c|^2): from the lifted identity
    // det_in = +-det(A) * (|t-c|^2 - R^2)
    let gap = exact::insphere_det(simplex, test).approx().abs() / od;
    // R^2 >= (max edge/2)^2 ; use a crude scale: max squared distance between any two points
    let mut scale: f64 = 1.0;
    for a in simplex.iter().chain(std::iter::once(test)) {
        for b in simplex.iter() {
            let d2: f64 = (0..D).map(|j| (a[j] - b[j]).powi(2)).sum();
            scale = scale.max(d2);
        }
    }
    // circumradius can exceed the diameter for obtuse simplices; conditioning above bounds it
    gap / (scale * 1e6) > 1e-6 && scale < 1e12 && scale > 1e-12
}

struct Stats {
    calls: u64,
    decided: u64,
    zero: u64,
    ambiguous: u64,
}

fn judge<const D: usize>(simplex: &[[f64; D]], test: Option<&[f64; D]>, perms: &[Vec<usize>], out: &mut Out, st: &mut Stats) {
    let fk = FastKernel::<f64>::new();
    let rk = RobustKernel::<f64>::new();
    // ---- orientation ----
    let od = exact::orient_det(simplex);
    let tol = exact::tol_orient(simplex);
    let err = exact::err_orient(simplex);
    let ob = exact::classify(&od, tol, err);
    let o_expected: Option<i32> = match ob {
        Band::Decided(s) => Some(s),
        Band::Zero if err < tol => Some(0),
        _ => None,
    };
    match ob {
        Band::Decided(_) => st.decided += 1,
        Band::Zero => st.zero += 1,
        Band::Ambiguous => st.ambiguous += 1,
    }
    if test.is_none() {
        if let Some(e0) = o_expected {
            for perm in perms {
                let pts: Vec<Point<f64, D>> = perm.iter().map(|&i| Point::new(simplex[i])).collect();
                let e = e0 * parity(perm);
                let permuted: Vec<[f64; D]> = perm.iter().map(|&i| simplex[i]).collect();
                let results: [(&str, Result<Result<i32, String>, _>); 3] = [
                    ("simplex_orientation", guard(|| simplex_orientation(&pts).map(orient_i).map_err(|e| e.to_string()))),
                    ("FastKernel::orientation", guard(|| Kernel::<D>::orientation(&fk, &pts).map_err(|e| e.to_string()))),
                    ("RobustKernel::orientation", guard(|| Kernel::<D>::orientation(&rk, &pts).map_err(|e| e.to_string()))),
                ];
                for (name, r) in results {
                    st.calls += 1;
                    match r {
                        Ok(Ok(g)) if g == e => {}
                        Ok(Ok(g)) => out.violation(P, &format!("orientation/{}/exp{}got{}", name, e, g), format!("{} returned {} but the exact sign is {} (det={}, tol={:e})", name, g, e, od.to_string_hex(), tol), replay_doc(&permuted, None, perm, name, e, &g.to_string())),
                        Ok(Err(m)) => out.violation(P, &format!("orientation/{}/err", name), format!("{} returned Err({}) on a decided tuple", name, m), replay_doc(&permuted, None, perm, name, e, "Err")),
                        Err(pi) => out.panic(P, &pi, name, replay_doc(&permuted, None, perm, name, e, "panic")),
                    }
                }
            }
        }
        return;
    }
    // ---- in-sphere ----
    let t = test.unwrap();
    let Band::Decided(os) = ob else {
        out.count("insphere/skipped_simplex_not_decided");
        return;
    };
    let id = exact::insphere_det(simplex, t);
    let itol = exact::tol_insphere(simplex, t);
    let ierr = exact::err_insphere(simplex, t);
    let ib = exact::classify(&id, itol, ierr);
    let expected: Option<i32> = match ib {
        Band::Decided(s) => Some(s * os),
        Band::Zero if ierr < itol => Some(0),
        _ => None,
    };
    match ib {
        Band::Decided(_) => st.decided += 1,
        Band::Zero => st.zero += 1,
        Band::Ambiguous => st.ambiguous += 1,
    }
    let Some(e) = expected else { return };
    let dist_ok = e != 0 && distance_judgeable(simplex, t);
    for perm in perms {
        let pts: Vec<Point<f64, D>> = perm.iter().map(|&i| Point::new(simplex[i])).collect();
        let tp = Point::new(*t);
        let permuted: Vec<[f64; D]> = perm.iter().map(|&i| simplex[i]).collect();
        let mut results: Vec<(&str, Result<Result<i32, String>, _>)> = vec![
            ("insphere", guard(|| insphere(&pts, tp).map(insph_i).map_err(|e| e.to_string()))),
            ("insphere_lifted", guard(|| insphere_lifted(&pts, tp).map(insph_i).map_err(|e| e.to_string()))),
            ("FastKernel::in_sphere", guard(|| Kernel::<D>::in_sphere(&fk, &pts, &tp).map_err(|e| e.to_string()))),
            ("RobustKernel::in_sphere", guard(|| Kernel::<D>::in_sphere(&rk, &pts, &tp).map_err(|e| e.to_string()))),
        ];
        if dist_ok {
            results.push(("insphere_distance", guard(|| insphere_distance(&pts, tp).map(insph_i).map_err(|e| e.to_string()))));
        }
        for (name, r) in results {
            st.calls += 1;
            match r {
                Ok(Ok(g)) if g == e => {}
                Ok(Ok(g)) => out.violation(P, &format!("insphere/{}/exp{}got{}", name, e, g), format!("{} returned {} but exact arithmetic says {} (det={}, tol={:e}, orient sign {})", name, g, e, id.to_string_hex(), itol, os), replay_doc(&permuted, Some(t), perm, name, e, &g.to_string())),
                Ok(Err(m)) => out.violation(P, &format!("insphere/{}/err", name), format!("{} returned Err({}) on a decided configuration", name, m), replay_doc(&permuted, Some(t), perm, name, e, "Err")),
                Err(pi) => out.panic(P, &pi, name, replay_doc(&permuted, Some(t), perm, name, e, "panic")),
            }
        }
    }
}

fn nontrivial<const D: usize>(pts: &[[f64; D]]) -> bool {
    // at least one edge vector from the first point has two or more non-zero components
    pts.iter().skip(1).any(|p| (0..D).filter(|&j| p[j] != pts[0][j]).count() >= 2)
}

fn ident<const D: usize>(pts: &[[f64; D]], test: Option<&[f64; D]>) -> String {
    let mut v: Vec<[u64; D]> = pts.iter().map(|p| p.map(f64::to_bits)).collect();
    v.sort();
    format!("{:?}|{:?}", v, test.map(|t| t.map(f64::to_bits)))
}

fn pick_perms(rng: &mut Rng, all: &[Vec<usize>], k: usize) -> Vec<Vec<usize>> {
    if all.len() <= k {
        return all.to_vec();
    }
    let mut out = vec![all[0].clone()];
    while out.len() < k {
        out.push(all[rng.usize(all.len())].clone());
    }
    out
}

fn exhaustive_d2(ctx: &Ctx, out: &mut Out, st: &mut Stats) {
    // all ordered 3-tuples (orientation) and ordered (3+1)-tuples (in-sphere) on the 4x4 grid
    let grid: Vec<[f64; 2]> = (0..16).map(|i| [(i % 4) as f64, (i / 4) as f64]).collect();
    let idp = vec![(0..3).collect::<Vec<usize>>()];
    let mut idx = 0u64;
    for a in 0..16 {
        for b in 0..16 {
            for c in 0..16 {
                if a == b || b == c || a == c {
                    continue;
                }
                idx += 1;
                if idx % ctx.nshards != ctx.shard {
                    continue;
                }
                let s = [grid[a], grid[b], grid[c]];
                out.eval();
                if nontrivial(&s) {
                    out.nontrivial(&ident(&s, None));
                }
                judge(&s, None, &idp, out, st);
                for d in 0..16 {
                    if d == a || d == b || d == c {
                        continue;
                    }
                    out.eval();
                    judge(&s, Some(&grid[d]), &idp, out, st);
                }
            }
        }
    }
    out.count("exhaustive/d2_grid4x4_done");
}

fn exhaustive_d3(ctx: &Ctx, out: &mut Out, st: &mut Stats, rng: &mut Rng) {
    let grid: Vec<[f64; 3]> = (0..27).map(|i| [(i % 3) as f64, ((i / 3) % 3) as f64, (i / 9) as f64]).collect();
    let all = all_perms(4);
    let full = ctx.tier == Tier::Thorough;
    let mut idx = 0u64;
    for a in 0..27 {
        for b in a + 1..27 {
            for c in b + 1..27 {
                for d in c + 1..27 {
                    idx += 1;
                    if idx % ctx.nshards != ctx.shard {
                        continue;
                    }
                    let s = [grid[a], grid[b], grid[c], grid[d]];
                    let perms = if full { all.clone() } else { pick_perms(rng, &all, 3) };
                    out.eval();
                    if nontrivial(&s) {
                        out.nontrivial(&ident(&s, None));
                    }
                    judge(&s, None, &perms, out, st);
                    for e in 0..27 {
                        if e == a || e == b || e == c || e == d {
                            continue;
                        }
                        let perms = if full { pick_perms(rng, &all, 6) } else { pick_perms(rng, &all, 2) };
                        out.eval();
                        judge(&s, Some(&grid[e]), &perms, out, st);
                    }
                }
            }
        }
    }
    out.count("exhaustive/d3_grid3x3x3_done");
}

fn random_tuple<const D: usize>(rng: &mut Rng) -> (Vec<[f64; D]>, [f64; D], &'static str) {
    let mode = rng.usize(8);
    let mut pts: Vec<[f64; D]> = Vec::new();
    let name;
    match mode {
        0 => {
            name = "intgrid";
            for _ in 0..D + 2 {
                let mut p = [0.0; D];
                for x in p.iter_mut() {
                    *x = rng.range_i64(-8, 8) as f64;
                }
                pts.push(p);
            }
        }
        1 => {
            name = "dyadic";
            for _ in 0..D + 2 {
                let mut p = [0.0; D];
                for x in p.iter_mut() {
                    *x = rng.range_i64(0, 1023) as f64 / 1024.0;
                }
                pts.push(p);
            }
        }
        2 => {
            name = "cospherical";
            let mut base = [0i64; D];
            for (i, b) in base.iter_mut().enumerate() {
                *b = (i as i64 % 3) + rng.range_i64(0, 3);
            }
            let shift = rng.range_i64(-3, 3) as f64;
            for _ in 0..D + 2 {
                let mut idx: Vec<usize> = (0..D).collect();
                rng.shuffle(&mut idx);
                let mut p = [0.0; D];
                for j in 0..D {
                    p[j] = base[idx[j]] as f64 * if rng.bool() { 1.0 } else { -1.0 } + shift;
                }
                pts.push(p);
            }
        }
        3 => {
            name = "coplanar";
            for _ in 0..D + 2 {
                let mut p = [0.0; D];
                for x in p.iter_mut() {
                    *x = rng.range_i64(-8, 8) as f64;
                }
                // hyperplane sum(x) == 3
                let s: f64 = p.iter().take(D - 1).sum();
                p[D - 1] = 3.0 - s;
                pts.push(p);
            }
            // the test point off the plane half of the time
            if rng.bool() {
                pts[D + 1][0] += 1.0;
            }
        }
        4 => {
            name = "scaled";
            let k = [-40, -20, -10, 10, 20, 40][rng.usize(6)];
            let f = 2f64.powi(k);
            for _ in 0..D + 2 {
                let mut p = [0.0; D];
                for x in p.iter_mut() {
                    *x = rng.range_i64(-32, 32) as f64 * f;
                }
                pts.push(p);
            }
        }
        5 => {
            name = "uniform53";
            for _ in 0..D + 2 {
                let mut p = [0.0; D];
                for x in p.iter_mut() {
                    *x = rng.f64() * 2.0 - 1.0;
                }
                pts.push(p);
            }
        }
        6 => {
            name = "offset_grid";
            // small grid far from the origin: cancellation-prone for the unshifted matrix
            let off = [16.0, 256.0, 4096.0][rng.usize(3)];
            for _ in 0..D + 2 {
                let mut p = [0.0; D];
                for x in p.iter_mut() {
                    *x = off + rng.range_i64(-4, 4) as f64;
                }
                pts.push(p);
            }
        }
        _ => {
            name = "near_sphere";
            // D+1 points on a sphere (signed permutations) and a test point just off it
            let mut base = [0i64; D];
            for (i, b) in base.iter_mut().enumerate() {
                *b = 1 + (i as i64 % 2) + rng.range_i64(0, 2);
            }
            for _ in 0..D + 2 {
                let mut idx: Vec<usize> = (0..D).collect();
                rng.shuffle(&mut idx);
                let mut p = [0.0; D];
                for j in 0..D {
                    p[j] = base[idx[j]] as f64 * if rng.bool() { 1.0 } else { -1.0 };
                }
                pts.push(p);
            }
            let j = rng.usize(D);
            pts[D + 1][j] += [0.5, -0.5, 0.125, -0.125, 1.0 / 1024.0][rng.usize(5)];
        }
    }
    // Anisotropic dyadic rescaling (one case in five): every axis is multiplied by its own power of two, which
    // multiplies all determinants by an exact power of two and leaves their signs alone, but spreads the LU pivots
    // over many orders of magnitude (a pivot near 1e-12 next to pivots near 1e3). Whether a tuple is judged is still
    // decided by the exact value against the documented band.
    let mut name = name;
    if rng.chance(1, 5) {
        let ks: Vec<i32> = (0..D).map(|_| rng.range_i64(-45, 12) as i32).collect();
        for p in pts.iter_mut() {
            for j in 0..D {
                p[j] *= 2f64.powi(ks[j]);
            }
        }
        name = match name {
            "intgrid" => "intgrid+anisotropic",
            "near_sphere" => "near_sphere+anisotropic",
            _ => "other+anisotropic",
        };
    }
    let t = pts.pop().unwrap();
    (pts, t, name)
}

fn random_phase<const D: usize>(ctx: &Ctx, out: &mut Out, st: &mut Stats, n: u64, case0: u64) {
    let all = all_perms(D + 1);
    let kperm = match (ctx.tier, D) {
        (Tier::Quick, 2) => 6,
        (Tier::Quick, _) => 8,
        (Tier::Thorough, 5) => 120,
        (Tier::Thorough, _) => 120,
    };
    for i in 0..n {
        if ctx.out_of_time() {
            out.count("random/stopped_by_budget");
            break;
        }
        let cs = ctx.case_seed(case0 + i);
        let mut rng = Rng::new(cs);
        let (s, t, fam) = random_tuple::<D>(&mut rng);
        let perms = pick_perms(&mut rng, &all, kperm);
        out.eval();
        out.count(&format!("random/D{}/{}", D, fam));
        if nontrivial(&s) {
            out.nontrivial(&ident(&s, Some(&t)));
        }
        if i < 2 && D == 3 && case0 == (1 << 40) {
            out.sample(json!({"D": D, "family": fam, "simplex": s.iter().map(|p| p.to_vec()).collect::<Vec<_>>(), "test": t.to_vec(), "permutations": perms.len()}));
        }
        judge(&s, None, &perms, out, st);
        judge(&s, Some(&t), &perms, out, st);
    }
}

fn parse_pt<const D: usize>(v: &Value) -> Option<[f64; D]> {
    let b = v.get("bits")?.as_array()?;
    if b.len() != D {
        return None;
    }
    let mut p = [0.0; D];
    for (i, x) in b.iter().enumerate() {
        p[i] = f64::from_bits(u64::from_str_radix(x.as_str()?, 16).ok()?);
    }
    Some(p)
}

fn replay_one<const D: usize>(doc: &Value, out: &mut Out, st: &mut Stats) {
    let simplex: Vec<[f64; D]> = doc["simplex"].as_array().map(|a| a.iter().filter_map(parse_pt::<D>).collect()).unwrap_or_default();
    if simplex.len() != D + 1 {
        out.inconclusive("bad replay document");
        return;
    }
    let test = doc.get("test").and_then(parse_pt::<D>);
    let idp = vec![(0..D + 1).collect::<Vec<usize>>()];
    out.eval();
    judge(&simplex, test.as_ref(), &idp, out, st);
}

pub fn run(ctx: &Ctx, out: &mut Out) {
    let mut st = Stats { calls: 0, decided: 0, zero: 0, ambiguous: 0 };
    if let Some(doc) = &ctx.replay {
        match doc["D"].as_u64() {
            Some(2) => replay_one::<2>(doc, out, &mut st),
            Some(3) => replay_one::<3>(doc, out, &mut st),
            Some(4) => replay_one::<4>(doc, out, &mut st),
            Some(5) => replay_one::<5>(doc, out, &mut st),
            _ => out.inconclusive("bad replay document"),
        }
    } else {
        let mut rng = Rng::new(ctx.case_seed(u64::MAX));
        exhaustive_d2(ctx, out, &mut st);
        exhaustive_d3(ctx, out, &mut st, &mut rng);
        out.exhaustive = Some(false); // the exhaustive sub-spaces are complete; the random part is sampled
        // random phases: rounds over D = 2..=5 until the wall budget (or the case cap) is reached
        let chunk = 400u64;
        let cap = (if ctx.tier == Tier::Thorough { 4_000_000.0 } else { 60_000.0 } * ctx.scale) as u64;
        let mut done = 0u64;
        let mut round = 0u64;
        while !ctx.out_of_time() && done < cap {
            random_phase::<2>(ctx, out, &mut st, chunk, round * chunk);
            random_phase::<3>(ctx, out, &mut st, chunk, (1 << 40) + round * chunk);
            random_phase::<4>(ctx, out, &mut st, chunk, (2 << 40) + round * chunk);
            random_phase::<5>(ctx, out, &mut st, chunk / 2, (3 << 40) + round * chunk);
            done += chunk * 3 + chunk / 2;
            round += 1;
        }
        out.sample(json!({"exhaustive_subspaces": ["D=2: every ordered 3- and 4-tuple of distinct points of the 4x4 integer grid", "D=3: every unordered 4-tuple of the 3x3x3 grid x every fifth point, with vertex permutations"]}));
    }
    out.add("predicate_calls", st.calls);
    out.add("judged/decided", st.decided);
    out.add("judged/exact_zero", st.zero);
    out.add("not_judged/ambiguous", st.ambiguous);
}
