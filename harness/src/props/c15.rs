//! C15 — topology queries (edges, facets, boundary facets, neighbours, incident cells / edges, the
//! adjacency index, simplex counts, Euler characteristic, classification) equal what a brute-force
//! enumeration of the faces of the stored cells gives; indexed and non-indexed variants agree.
//!
//! Oracle: everything is recomputed from `RefModel::cells[*].v` (vertex keys per cell) only —
//! k-faces as sorted key tuples, facet -> incident (cell, slot) list, stars, neighbours *through the
//! facet map* (not through the stored neighbour pointers). States are judged only when the
//! independent validators accept them (L1, L2, L3 at Pseudomanifold strength); everything else is
//! counted as not judged.

use super::c02::{guarantee_of, start_dt};
use crate::api::Kn;
use crate::common::{Ctx, Out, PanicInfo, Tier, guard};
use crate::fingerprint;
use crate::hist::{self, Mix, Op, Step};
use crate::model::{RefModel, ck_u64, vk_u64};
use crate::refcheck::{self, Guarantee};
use crate::rng::Rng;
use crate::tri::Dt;
use delaunay::core::adjacency::AdjacencyIndex;
use delaunay::core::edge::EdgeKey;
use delaunay::core::facet::FacetView;
use delaunay::core::traits::boundary_analysis::BoundaryAnalysis;
use delaunay::core::triangulation_data_structure::{CellKey, VertexKey};
use delaunay::geometry::kernel::{FastKernel, Kernel, RobustKernel};
use delaunay::topology::characteristics::euler::{self, TopologyClassification};
use delaunay::topology::characteristics::validation::validate_triangulation_euler;
use serde_json::{Value, json};
use std::collections::{BTreeMap, BTreeSet, HashMap};
use std::fmt::Debug;
use uuid::Uuid;

const P: &str = "C15";
/// states up to this many cells are queried exhaustively (all live keys)
const SMALL: usize = 60;
/// sample size of live keys on larger states
const SAMPLE: usize = 24;

type E = (u64, u64);
type F = (u64, u8);

// ---------------------------------------------------------------------------------------------
// Oracle
// ---------------------------------------------------------------------------------------------

fn subsets(items: &[u64], k: usize) -> Vec<Vec<u64>> {
    let n = items.len();
    let mut out = Vec::new();
    if k > n || k == 0 {
        return out;
    }
    let mut idx: Vec<usize> = (0..k).collect();
    loop {
        out.push(idx.iter().map(|&i| items[i]).collect());
        let mut i = k;
        while i > 0 && idx[i - 1] == i - 1 + n - k {
            i -= 1;
        }
        if i == 0 {
            return out;
        }
        idx[i - 1] += 1;
        for j in i..k {
            idx[j] = idx[j - 1] + 1;
        }
    }
}

fn alt_sum(f: &[usize]) -> i64 {
    f.iter().enumerate().map(|(k, &c)| if k % 2 == 0 { c as i64 } else { -(c as i64) }).sum()
}

struct Oracle {
    /// f-vector f_0..f_D (f_0 = stored vertices, as euler.rs documents)
    f: Vec<usize>,
    chi: i64,
    edges: BTreeSet<E>,
    /// every (cell, slot) pair
    all_facets: BTreeSet<F>,
    /// (cell, slot) pairs whose facet lies in exactly one cell
    bnd_facets: BTreeSet<F>,
    /// sorted vertex keys of the facet (cell, slot)
    facet_verts: HashMap<F, Vec<u64>>,
    /// number of cells containing the facet (cell, slot)
    facet_degree: HashMap<F, usize>,
    star: HashMap<u64, BTreeSet<u64>>,
    vedges: HashMap<u64, BTreeSet<E>>,
    nbrs: HashMap<u64, BTreeSet<u64>>,
    /// f-vector of the boundary complex (length D)
    bf: Vec<usize>,
    bchi: i64,
    b_ridges_closed: bool,
    b_connected: bool,
}

impl Oracle {
    fn build<const D: usize>(m: &RefModel<D>) -> Self {
        let cells: Vec<Vec<u64>> = m
            .cells
            .iter()
            .map(|c| {
                let mut ks: Vec<u64> = c.v.iter().map(|&k| vk_u64(k)).collect();
                ks.sort_unstable();
                ks
            })
            .collect();
        let mut f = vec![0usize; D + 1];
        f[0] = m.verts.len();
        let mut edges: BTreeSet<E> = BTreeSet::new();
        for k in 1..=D {
            let mut set: BTreeSet<Vec<u64>> = BTreeSet::new();
            for c in &cells {
                for s in subsets(c, k + 1) {
                    set.insert(s);
                }
            }
            f[k] = set.len();
            if k == 1 {
                edges = set.iter().map(|e| (e[0], e[1])).collect();
            }
        }
        let chi = alt_sum(&f);
        let fm = refcheck::facet_map(m);
        let mut all_facets = BTreeSet::new();
        let mut bnd_facets = BTreeSet::new();
        let mut facet_verts = HashMap::new();
        let mut facet_degree = HashMap::new();
        let mut nbrs: HashMap<u64, BTreeSet<u64>> = HashMap::new();
        for c in &m.cells {
            nbrs.entry(ck_u64(c.key)).or_default();
        }
        let mut bfaces: Vec<&Vec<u64>> = Vec::new();
        for (face, inc) in &fm {
            for &(ci, slot) in inc {
                let id = (ck_u64(m.cells[ci].key), slot as u8);
                all_facets.insert(id);
                facet_verts.insert(id, face.clone());
                facet_degree.insert(id, inc.len());
                if inc.len() == 1 {
                    bnd_facets.insert(id);
                }
            }
            if inc.len() == 1 {
                bfaces.push(face);
            }
            if inc.len() >= 2 {
                for &(a, _) in inc {
                    for &(b, _) in inc {
                        if a != b {
                            nbrs.entry(ck_u64(m.cells[a].key)).or_default().insert(ck_u64(m.cells[b].key));
                        }
                    }
                }
            }
        }
        let mut star: HashMap<u64, BTreeSet<u64>> = HashMap::new();
        let mut vedges: HashMap<u64, BTreeSet<E>> = HashMap::new();
        for v in &m.verts {
            star.entry(vk_u64(v.key)).or_default();
            vedges.entry(vk_u64(v.key)).or_default();
        }
        for c in &m.cells {
            for &k in &c.v {
                star.entry(vk_u64(k)).or_default().insert(ck_u64(c.key));
            }
        }
        for &(a, b) in &edges {
            vedges.entry(a).or_default().insert((a, b));
            vedges.entry(b).or_default().insert((a, b));
        }
        // boundary complex
        let mut bf = vec![0usize; D];
        let mut b_ridges_closed = true;
        let mut b_connected = true;
        if !bfaces.is_empty() {
            let bverts: BTreeSet<u64> = bfaces.iter().flat_map(|f| f.iter().copied()).collect();
            bf[0] = bverts.len();
            for k in 1..D {
                let mut set: BTreeSet<Vec<u64>> = BTreeSet::new();
                for face in &bfaces {
                    for s in subsets(face, k + 1) {
                        set.insert(s);
                    }
                }
                bf[k] = set.len();
            }
            // ridges of the boundary: (D-1)-subsets of the D-vertex boundary facets
            let mut ridge_to_faces: BTreeMap<Vec<u64>, Vec<usize>> = BTreeMap::new();
            for (i, face) in bfaces.iter().enumerate() {
                for r in subsets(face, D - 1) {
                    ridge_to_faces.entry(r).or_default().push(i);
                }
            }
            b_ridges_closed = ridge_to_faces.values().all(|v| v.len() == 2);
            // strong connectivity (through ridges): necessary for a closed connected manifold
            let mut parent: Vec<usize> = (0..bfaces.len()).collect();
            fn find(p: &mut Vec<usize>, x: usize) -> usize {
                let mut r = x;
                while p[r] != r {
                    r = p[r];
                }
                let mut y = x;
                while p[y] != r {
                    let n = p[y];
                    p[y] = r;
                    y = n;
                }
                r
            }
            for faces in ridge_to_faces.values() {
                for w in faces.windows(2) {
                    let (a, b) = (find(&mut parent, w[0]), find(&mut parent, w[1]));
                    if a != b {
                        parent[a] = b;
                    }
                }
            }
            let root = find(&mut parent, 0);
            b_connected = (0..bfaces.len()).all(|i| find(&mut parent, i) == root);
        }
        let bchi = alt_sum(&bf);
        Self { f, chi, edges, all_facets, bnd_facets, facet_verts, facet_degree, star, vedges, nbrs, bf, bchi, b_ridges_closed, b_connected }
    }

    /// Is the star of `v` connected through shared facets? (the library's non-indexed star walk
    /// can only reach facet-connected stars)
    fn star_facet_connected(&self, v: u64) -> bool {
        let Some(st) = self.star.get(&v) else { return true };
        let Some(&start) = st.iter().next() else { return true };
        let mut seen: BTreeSet<u64> = BTreeSet::new();
        let mut stack = vec![start];
        while let Some(c) = stack.pop() {
            if !seen.insert(c) {
                continue;
            }
            if let Some(ns) = self.nbrs.get(&c) {
                for n in ns {
                    if st.contains(n) && !seen.contains(n) {
                        stack.push(*n);
                    }
                }
            }
        }
        seen.len() == st.len()
    }
}

// ---------------------------------------------------------------------------------------------
// Findings
// ---------------------------------------------------------------------------------------------

struct Finding {
    func: String,
    kind: String,
    desc: String,
    key: String,
    expected: Vec<String>,
    got: Vec<String>,
}

#[derive(Default)]
struct Rep {
    findings: Vec<Finding>,
    panics: Vec<(PanicInfo, String)>,
}

fn lst<T: Debug>(it: impl IntoIterator<Item = T>) -> Vec<String> {
    it.into_iter().take(20).map(|x| format!("{:x?}", x)).collect()
}

impl Rep {
    fn bad(&mut self, func: &str, kind: &str, key: &str, desc: String, expected: Vec<String>, got: Vec<String>) {
        if self.findings.len() < 12 {
            self.findings.push(Finding { func: func.to_string(), kind: kind.to_string(), desc, key: key.to_string(), expected, got });
        }
    }
}

fn call<T>(rep: &mut Rep, what: &str, f: impl FnOnce() -> T) -> Option<T> {
    match guard(f) {
        Ok(v) => Some(v),
        Err(pi) => {
            rep.panics.push((pi, what.to_string()));
            None
        }
    }
}

/// Compares an iterator result (as collected) with the expected set. `missing`: the key queried is
/// not present, the documented answer is the empty iterator.
fn cmp_set<T: Ord + Clone + Debug>(rep: &mut Rep, out: &mut Out, func: &str, key: &str, got: &[T], want: &BTreeSet<T>, missing: bool) -> bool {
    out.count(&format!("fn/{}", func));
    let mut g: Vec<T> = got.to_vec();
    g.sort();
    let dup = g.windows(2).any(|w| w[0] == w[1]);
    let gs: BTreeSet<T> = g.iter().cloned().collect();
    if missing {
        if !g.is_empty() {
            rep.bad(func, "missing-key-nonempty", key, format!("{}({}) on a key that is not present returned {} item(s); documented: empty", func, key, g.len()), Vec::new(), lst(g.iter()));
            return false;
        }
        return true;
    }
    if gs != *want {
        let only_w: Vec<&T> = want.difference(&gs).collect();
        let only_g: Vec<&T> = gs.difference(want).collect();
        rep.bad(
            func,
            "differs",
            key,
            format!("{}({}) returned {} item(s), enumeration of the stored cells gives {}; missing from the answer: {:x?}; not in the enumeration: {:x?}", func, key, g.len(), want.len(), lst(only_w), lst(only_g)),
            lst(want.iter()),
            lst(g.iter()),
        );
        return false;
    }
    if dup {
        let d: Vec<&T> = g.windows(2).filter(|w| w[0] == w[1]).map(|w| &w[0]).collect();
        rep.bad(func, "duplicate-item", key, format!("{}({}) yielded an item more than once: {:x?}", func, key, lst(d)), lst(want.iter()), lst(g.iter()));
        return false;
    }
    true
}

/// Indexed variant must equal the non-indexed variant (as multisets).
fn cmp_pair<T: Ord + Clone + Debug>(rep: &mut Rep, out: &mut Out, func: &str, key: &str, indexed: &[T], plain: &[T]) {
    out.count(&format!("fn/{}~unindexed", func));
    let mut a = indexed.to_vec();
    a.sort();
    let mut b = plain.to_vec();
    b.sort();
    if a != b {
        rep.bad(func, "differs-from-unindexed", key, format!("{}({}) gives {} item(s), the non-indexed variant {}", func, key, a.len(), b.len()), lst(b.iter()), lst(a.iter()));
    }
}

fn cmp_num(rep: &mut Rep, out: &mut Out, func: &str, key: &str, got: usize, want: usize, missing: bool) {
    out.count(&format!("fn/{}", func));
    if got != want {
        let kind = if missing { "missing-key-nonzero" } else { "differs" };
        rep.bad(func, kind, key, format!("{}({}) = {}, enumeration of the stored cells gives {}", func, key, got, want), vec![want.to_string()], vec![got.to_string()]);
    }
}

fn cmp_opt<T: PartialEq + Debug>(rep: &mut Rep, out: &mut Out, func: &str, key: &str, got: &Option<T>, want: &Option<T>, missing: bool) {
    out.count(&format!("fn/{}", func));
    if got != want {
        let kind = if missing { "missing-key-some" } else { "differs" };
        rep.bad(func, kind, key, format!("{}({}) = {:x?}, expected {:x?}", func, key, got, want), vec![format!("{:x?}", want)], vec![format!("{:x?}", got)]);
    }
}

fn ek(e: EdgeKey) -> E {
    (vk_u64(e.v0()), vk_u64(e.v1()))
}

// ---------------------------------------------------------------------------------------------
// Facet views
// ---------------------------------------------------------------------------------------------

struct Fv {
    id: F,
    /// vertex keys (resolved through the vertex UUID), Err text if the accessor failed
    verts: Result<Vec<Option<u64>>, String>,
    opp: Result<Option<u64>, String>,
    key: Result<u64, String>,
}

fn read_views<'a, const D: usize>(it: impl Iterator<Item = FacetView<'a, f64, i32, i32, D>>, by_uuid: &HashMap<Uuid, u64>) -> Vec<Fv> {
    it.map(|fv| Fv {
        id: (ck_u64(fv.cell_key()), fv.facet_index()),
        verts: match fv.vertices() {
            Ok(vs) => Ok(vs.map(|v| by_uuid.get(&v.uuid()).copied()).collect()),
            Err(e) => Err(e.to_string()),
        },
        opp: fv.opposite_vertex().map(|v| by_uuid.get(&v.uuid()).copied()).map_err(|e| e.to_string()),
        key: fv.key().map_err(|e| e.to_string()),
    })
    .collect()
}

fn check_views<const D: usize>(rep: &mut Rep, out: &mut Out, func: &str, m: &RefModel<D>, o: &Oracle, views: &[Fv], want: &BTreeSet<F>) {
    let ids: Vec<F> = views.iter().map(|v| v.id).collect();
    cmp_set(rep, out, func, "", &ids, want, false);
    let cell_by: HashMap<u64, usize> = m.cells.iter().enumerate().map(|(i, c)| (ck_u64(c.key), i)).collect();
    let mut key_of_face: HashMap<&Vec<u64>, u64> = HashMap::new();
    let mut face_of_key: HashMap<u64, &Vec<u64>> = HashMap::new();
    out.count(&format!("fn/{}.view", func));
    for v in views {
        let Some(face) = o.facet_verts.get(&v.id) else { continue };
        let Some(&ci) = cell_by.get(&v.id.0) else { continue };
        let ks = format!("{:x?}", v.id);
        match &v.verts {
            Ok(vs) => {
                let mut got: Vec<u64> = vs.iter().map(|x| x.unwrap_or(u64::MAX)).collect();
                got.sort_unstable();
                if got != *face {
                    rep.bad(func, "view-vertices-differ", &ks, format!("FacetView{} vertices() = {:x?}, the cell's vertices without slot {} are {:x?}", ks, got, v.id.1, face), lst(face.iter()), lst(got.iter()));
                }
            }
            Err(e) => rep.bad(func, "view-vertices-error", &ks, format!("FacetView{} vertices() failed on a valid state: {}", ks, e), Vec::new(), vec![e.clone()]),
        }
        let want_opp = m.cells[ci].v.get(v.id.1 as usize).map(|&k| vk_u64(k));
        match &v.opp {
            Ok(k) => {
                if *k != want_opp {
                    rep.bad(func, "view-opposite-differs", &ks, format!("FacetView{} opposite_vertex() = {:x?}, slot {} of the cell holds {:x?}", ks, k, v.id.1, want_opp), vec![format!("{:x?}", want_opp)], vec![format!("{:x?}", k)]);
                }
            }
            Err(e) => rep.bad(func, "view-opposite-error", &ks, format!("FacetView{} opposite_vertex() failed on a valid state: {}", ks, e), Vec::new(), vec![e.clone()]),
        }
        match &v.key {
            Ok(k) => {
                if let Some(prev) = key_of_face.get(face) {
                    if prev != k {
                        rep.bad(func, "view-key-differs-for-same-vertices", &ks, format!("two facets with the vertex set {:x?} have keys {:x} and {:x}", face, prev, k), vec![format!("{:x}", prev)], vec![format!("{:x}", k)]);
                    }
                } else {
                    key_of_face.insert(face, *k);
                }
                match face_of_key.get(k) {
                    Some(other) if *other != face => out.count("note/facet_key_hash_collision"),
                    Some(_) => {}
                    None => {
                        face_of_key.insert(*k, face);
                    }
                }
            }
            Err(e) => rep.bad(func, "view-key-error", &ks, format!("FacetView{} key() failed on a valid state: {}", ks, e), Vec::new(), vec![e.clone()]),
        }
    }
}

// ---------------------------------------------------------------------------------------------
// Key selection
// ---------------------------------------------------------------------------------------------

#[derive(Default)]
struct Keys {
    v: Vec<(VertexKey, &'static str)>,
    c: Vec<(CellKey, &'static str)>,
}

struct KeyPool {
    stale_v: Vec<VertexKey>,
    stale_c: Vec<CellKey>,
    foreign_v: Vec<VertexKey>,
    foreign_c: Vec<CellKey>,
}

fn choose_keys<const D: usize>(m: &RefModel<D>, recent_v: &[VertexKey], recent_c: &[CellKey], pool: &KeyPool, rng: &mut Rng, out: &mut Out) -> Keys {
    let mut k = Keys::default();
    if m.cells.len() <= SMALL {
        k.v.extend(m.verts.iter().map(|v| (v.key, "live")));
        k.c.extend(m.cells.iter().map(|c| (c.key, "live")));
    } else {
        out.count("states/sampled_keys");
        for _ in 0..SAMPLE {
            k.v.push((rng.pick(&m.verts).key, "live"));
            k.c.push((rng.pick(&m.cells).key, "live"));
        }
    }
    // missing keys; every candidate is filtered against the current state (a rebuilt Tds restarts
    // its slot map, so an old or foreign key can coincide with a live one)
    let add_v = |key: VertexKey, class: &'static str, k: &mut Keys, out: &mut Out| {
        if m.vidx.contains_key(&key) {
            out.count(&format!("keys/vertex/{}_coincides_with_live", class));
        } else {
            k.v.push((key, class));
        }
    };
    for &x in recent_v.iter().take(3) {
        add_v(x, "stale", &mut k, out);
    }
    for _ in 0..3.min(pool.stale_v.len()) {
        add_v(*rng.pick(&pool.stale_v), "stale", &mut k, out);
    }
    for _ in 0..3.min(pool.foreign_v.len()) {
        add_v(*rng.pick(&pool.foreign_v), "foreign", &mut k, out);
    }
    add_v(VertexKey::default(), "null", &mut k, out);
    let add_c = |key: CellKey, class: &'static str, k: &mut Keys, out: &mut Out| {
        if m.cidx.contains_key(&key) {
            out.count(&format!("keys/cell/{}_coincides_with_live", class));
        } else {
            k.c.push((key, class));
        }
    };
    for &x in recent_c.iter().take(3) {
        add_c(x, "stale", &mut k, out);
    }
    for _ in 0..3.min(pool.stale_c.len()) {
        add_c(*rng.pick(&pool.stale_c), "stale", &mut k, out);
    }
    for _ in 0..3.min(pool.foreign_c.len()) {
        add_c(*rng.pick(&pool.foreign_c), "foreign", &mut k, out);
    }
    add_c(CellKey::default(), "null", &mut k, out);
    k
}

/// Keys of an unrelated triangulation (with some slot reuse so that versions differ).
fn foreign_pool<K, const D: usize>(rng: &mut Rng) -> (Vec<VertexKey>, Vec<CellKey>)
where
    K: Kernel<D, Scalar = f64>,
{
    let mut f = Dt::<K, D>::with_empty_kernel_and_topology_guarantee(K::default(), Guarantee::PLManifold.to_lib());
    let mut pts: Vec<[f64; D]> = vec![[0.0; D]];
    for j in 0..D {
        let mut p = [0.0; D];
        p[j] = 16.0;
        pts.push(p);
    }
    for j in 0..5 {
        let mut p = [1.0; D];
        p[0] += 0.5 * j as f64;
        p[D - 1] += 0.25 * j as f64;
        pts.push(p);
    }
    let mut ids: Vec<(Uuid, [f64; D])> = Vec::new();
    for p in &pts {
        let u = rng.uuid();
        if let Ok(hist::Res::Inserted { .. }) = hist::apply(&mut f, &Op::Insert { p: *p, uuid: u, data: Some(1), how: "foreign" }) {
            ids.push((u, *p));
        }
    }
    // remove two interior vertices and insert two others: reused slots carry a higher version
    for (u, p) in ids.iter().rev().take(2) {
        let _ = hist::apply(&mut f, &Op::Remove { uuid: *u, p: *p, how: "foreign" });
    }
    for j in 0..2 {
        let mut p = [2.0; D];
        p[0] += 0.125 * (j + 1) as f64;
        let _ = hist::apply(&mut f, &Op::Insert { p, uuid: rng.uuid(), data: Some(2), how: "foreign" });
    }
    let m = RefModel::from_dt(&f);
    (m.verts.iter().map(|v| v.key).collect(), m.cells.iter().map(|c| c.key).collect())
}

// ---------------------------------------------------------------------------------------------
// The state check
// ---------------------------------------------------------------------------------------------

struct VQ {
    adj: Vec<u64>,
    adj_i: Vec<u64>,
    n_adj_i: usize,
    inc: Vec<E>,
    inc_i: Vec<E>,
    n_inc: usize,
    n_inc_i: usize,
    coords: Option<Vec<u64>>,
    dt_inc: Vec<E>,
    dt_inc_i: Vec<E>,
    dt_coords: Option<Vec<u64>>,
    ix_adj: Vec<u64>,
    ix_n_adj: usize,
    ix_inc: Vec<E>,
    ix_n_inc: usize,
}

struct CQ {
    nb: Vec<u64>,
    nb_i: Vec<u64>,
    n_nb_i: usize,
    cv: Option<Vec<u64>>,
    dt_nb: Vec<u64>,
    dt_nb_i: Vec<u64>,
    dt_cv: Option<Vec<u64>>,
    ix_nb: Vec<u64>,
    ix_n_nb: usize,
    /// FacetView::new(tds, c, i).is_ok() for i in 0..=D+1
    view_new_ok: Vec<bool>,
}

/// Checks every query on one state. `cells_valid`: the state has cells and passed L1-L3;
/// otherwise the state has no cells and only the documented empty answers are checked.
/// `strict_ok`: the state also passes at the configured guarantee (gates the sphere verdict).
fn check_state<K, const D: usize>(out: &mut Out, dt: &Dt<K, D>, m: &RefModel<D>, keys: &Keys, rng: &mut Rng, strict_ok: bool, links_note: &str) -> Rep
where
    K: Kernel<D, Scalar = f64>,
{
    let mut rep = Rep::default();
    let o = Oracle::build(m);
    let tri = dt.as_triangulation();
    let tds = dt.tds();
    let n_cells = m.cells.len();
    let by_uuid: HashMap<Uuid, u64> = m.verts.iter().map(|v| (v.uuid, vk_u64(v.key))).collect();
    if n_cells > 0 && n_cells <= SMALL && m.verts.iter().any(|v| !o.star_facet_connected(vk_u64(v.key))) {
        // evidence: the non-indexed star walk is exercised on a star that is not facet-connected
        out.count("states/with_vertex_star_not_facet_connected");
    }

    // ---- adjacency index --------------------------------------------------------------------
    out.count("fn/build_adjacency_index");
    let index: Option<AdjacencyIndex> = match call(&mut rep, "build_adjacency_index", || tri.build_adjacency_index()) {
        Some(Ok(ix)) => Some(ix),
        Some(Err(e)) => {
            rep.bad("build_adjacency_index", "error", "", format!("build_adjacency_index() failed on a valid state: {}", e), vec!["Ok".into()], vec![e.to_string()]);
            None
        }
        None => None,
    };
    out.count("fn/dt.build_adjacency_index");
    let dt_index: Option<AdjacencyIndex> = match call(&mut rep, "dt.build_adjacency_index", || dt.build_adjacency_index()) {
        Some(Ok(ix)) => Some(ix),
        Some(Err(e)) => {
            rep.bad("dt.build_adjacency_index", "error", "", format!("DelaunayTriangulation::build_adjacency_index() failed on a valid state: {}", e), vec!["Ok".into()], vec![e.to_string()]);
            None
        }
        None => None,
    };

    // ---- global queries ---------------------------------------------------------------------
    let edges = call(&mut rep, "edges", || tri.edges().map(ek).collect::<Vec<E>>());
    if let Some(e) = &edges {
        cmp_set(&mut rep, out, "edges", "", e, &o.edges, false);
    }
    if let Some(n) = call(&mut rep, "number_of_edges", || tri.number_of_edges()) {
        cmp_num(&mut rep, out, "number_of_edges", "", n, o.edges.len(), false);
    }
    if let Some(e) = call(&mut rep, "dt.edges", || dt.edges().map(ek).collect::<Vec<E>>()) {
        cmp_set(&mut rep, out, "dt.edges", "", &e, &o.edges, false);
    }
    if let Some(ix) = &index {
        if let Some(e) = call(&mut rep, "edges_with_index", || tri.edges_with_index(ix).map(ek).collect::<Vec<E>>()) {
            cmp_set(&mut rep, out, "edges_with_index", "", &e, &o.edges, false);
            if let Some(p) = &edges {
                cmp_pair(&mut rep, out, "edges_with_index", "", &e, p);
            }
        }
        if let Some(n) = call(&mut rep, "number_of_edges_with_index", || tri.number_of_edges_with_index(ix)) {
            cmp_num(&mut rep, out, "number_of_edges_with_index", "", n, o.edges.len(), false);
        }
        if let Some(e) = call(&mut rep, "dt.edges_with_index", || dt.edges_with_index(ix).map(ek).collect::<Vec<E>>()) {
            cmp_set(&mut rep, out, "dt.edges_with_index", "", &e, &o.edges, false);
        }
        if let Some(e) = call(&mut rep, "AdjacencyIndex::edges", || ix.edges().map(ek).collect::<Vec<E>>()) {
            cmp_set(&mut rep, out, "AdjacencyIndex::edges", "", &e, &o.edges, false);
        }
        if let Some(n) = call(&mut rep, "AdjacencyIndex::number_of_edges", || ix.number_of_edges()) {
            cmp_num(&mut rep, out, "AdjacencyIndex::number_of_edges", "", n, o.edges.len(), false);
        }
        // documented: "The maps include an entry for every vertex currently stored"
        let live: BTreeSet<u64> = m.verts.iter().map(|v| vk_u64(v.key)).collect();
        let k1: Vec<u64> = ix.vertex_to_cells.keys().map(|k| vk_u64(*k)).collect();
        cmp_set(&mut rep, out, "AdjacencyIndex.vertex_to_cells.keys", "", &k1, &live, false);
        let k2: Vec<u64> = ix.vertex_to_edges.keys().map(|k| vk_u64(*k)).collect();
        cmp_set(&mut rep, out, "AdjacencyIndex.vertex_to_edges.keys", "", &k2, &live, false);
    }
    if let Some(ix) = &dt_index {
        if let Some(e) = call(&mut rep, "dt.build_adjacency_index.edges", || ix.edges().map(ek).collect::<Vec<E>>()) {
            cmp_set(&mut rep, out, "dt.build_adjacency_index.edges", "", &e, &o.edges, false);
        }
    }

    // ---- facets -----------------------------------------------------------------------------
    if let Some(v) = call(&mut rep, "facets", || read_views::<D>(tri.facets(), &by_uuid)) {
        check_views(&mut rep, out, "facets", m, &o, &v, &o.all_facets);
    }
    if let Some(v) = call(&mut rep, "dt.facets", || read_views::<D>(dt.facets(), &by_uuid)) {
        check_views(&mut rep, out, "dt.facets", m, &o, &v, &o.all_facets);
    }
    if let Some(v) = call(&mut rep, "boundary_facets", || read_views::<D>(tri.boundary_facets(), &by_uuid)) {
        check_views(&mut rep, out, "boundary_facets", m, &o, &v, &o.bnd_facets);
    }
    if let Some(v) = call(&mut rep, "dt.boundary_facets", || read_views::<D>(dt.boundary_facets(), &by_uuid)) {
        check_views(&mut rep, out, "dt.boundary_facets", m, &o, &v, &o.bnd_facets);
    }
    match call(&mut rep, "Tds::boundary_facets", || BoundaryAnalysis::boundary_facets(tds).map(|it| read_views::<D>(it, &by_uuid)).map_err(|e| e.to_string())) {
        Some(Ok(v)) => check_views(&mut rep, out, "Tds::boundary_facets", m, &o, &v, &o.bnd_facets),
        Some(Err(e)) => rep.bad("Tds::boundary_facets", "error", "", format!("BoundaryAnalysis::boundary_facets failed on a valid state: {}", e), vec!["Ok".into()], vec![e]),
        None => {}
    }
    match call(&mut rep, "Tds::number_of_boundary_facets", || tds.number_of_boundary_facets().map_err(|e| e.to_string())) {
        Some(Ok(n)) => cmp_num(&mut rep, out, "Tds::number_of_boundary_facets", "", n, o.bnd_facets.len(), false),
        Some(Err(e)) => rep.bad("Tds::number_of_boundary_facets", "error", "", format!("number_of_boundary_facets failed on a valid state: {}", e), vec![o.bnd_facets.len().to_string()], vec![e]),
        None => {}
    }
    // is_boundary_facet_with_map for every facet, is_boundary_facet (rebuilds the map) on a sample
    let sample_ids: BTreeSet<F> = {
        let all: Vec<F> = o.all_facets.iter().copied().collect();
        (0..8.min(all.len())).map(|_| *rng.pick(&all)).collect()
    };
    let res = call(&mut rep, "Tds::is_boundary_facet", || {
        let map = tds.build_facet_to_cells_map().map_err(|e| e.to_string())?;
        let mut with_map: Vec<(F, Result<bool, String>)> = Vec::new();
        let mut plain: Vec<(F, Result<bool, String>)> = Vec::new();
        for fv in tri.facets() {
            let id = (ck_u64(fv.cell_key()), fv.facet_index());
            with_map.push((id, tds.is_boundary_facet_with_map(&fv, &map).map_err(|e| e.to_string())));
            if sample_ids.contains(&id) {
                plain.push((id, tds.is_boundary_facet(&fv).map_err(|e| e.to_string())));
            }
        }
        Ok::<_, String>((with_map, plain))
    });
    match res {
        Some(Ok((with_map, plain))) => {
            for (func, list) in [("Tds::is_boundary_facet_with_map", &with_map), ("Tds::is_boundary_facet", &plain)] {
                out.add(&format!("fn/{}", func), list.len() as u64);
                for (id, r) in list {
                    let Some(&deg) = o.facet_degree.get(id) else { continue };
                    let ks = format!("{:x?}", id);
                    match r {
                        Ok(b) => {
                            if *b != (deg == 1) {
                                rep.bad(func, "differs", &ks, format!("{}{} = {}, but the facet lies in {} cell(s)", func, ks, b, deg), vec![(deg == 1).to_string()], vec![b.to_string()]);
                            }
                        }
                        Err(e) => rep.bad(func, "error", &ks, format!("{}{} failed on a valid state: {}", func, ks, e), vec![(deg == 1).to_string()], vec![e.clone()]),
                    }
                }
            }
        }
        Some(Err(e)) => rep.bad("Tds::build_facet_to_cells_map", "error", "", format!("build_facet_to_cells_map failed on a valid state: {}", e), vec!["Ok".into()], vec![e]),
        None => {}
    }

    // ---- per-vertex queries -----------------------------------------------------------------
    let empty_c: BTreeSet<u64> = BTreeSet::new();
    let empty_e: BTreeSet<E> = BTreeSet::new();
    for &(vk, class) in &keys.v {
        out.count(&format!("keys/vertex/{}", class));
        let live = class == "live";
        let ks = format!("{}:{:x}", class, vk_u64(vk));
        let q = call(&mut rep, "vertex queries", || {
            let bits = |s: Option<&[f64]>| s.map(|c| c.iter().map(|x| x.to_bits()).collect::<Vec<u64>>());
            let mut q = VQ {
                adj: tri.adjacent_cells(vk).map(ck_u64).collect(),
                adj_i: Vec::new(),
                n_adj_i: 0,
                inc: tri.incident_edges(vk).map(ek).collect(),
                inc_i: Vec::new(),
                n_inc: tri.number_of_incident_edges(vk),
                n_inc_i: 0,
                coords: bits(tri.vertex_coords(vk)),
                dt_inc: dt.incident_edges(vk).map(ek).collect(),
                dt_inc_i: Vec::new(),
                dt_coords: bits(dt.vertex_coords(vk)),
                ix_adj: Vec::new(),
                ix_n_adj: 0,
                ix_inc: Vec::new(),
                ix_n_inc: 0,
            };
            if let Some(ix) = &index {
                q.adj_i = tri.adjacent_cells_with_index(ix, vk).map(ck_u64).collect();
                q.n_adj_i = tri.number_of_adjacent_cells_with_index(ix, vk);
                q.inc_i = tri.incident_edges_with_index(ix, vk).map(ek).collect();
                q.n_inc_i = tri.number_of_incident_edges_with_index(ix, vk);
                q.dt_inc_i = dt.incident_edges_with_index(ix, vk).map(ek).collect();
                q.ix_adj = ix.adjacent_cells(vk).map(ck_u64).collect();
                q.ix_n_adj = ix.number_of_adjacent_cells(vk);
                q.ix_inc = ix.incident_edges(vk).map(ek).collect();
                q.ix_n_inc = ix.number_of_incident_edges(vk);
            }
            q
        });
        let Some(q) = q else { continue };
        let u = vk_u64(vk);
        let (w_star, w_inc) = if live { (o.star.get(&u).unwrap_or(&empty_c), o.vedges.get(&u).unwrap_or(&empty_e)) } else { (&empty_c, &empty_e) };
        let miss = !live;
        let before = rep.findings.len();
        if !cmp_set(&mut rep, out, "adjacent_cells", &ks, &q.adj, w_star, miss) && live && !o.star_facet_connected(u) {
            // diagnose: the non-indexed query walks the star through shared facets
            for f in rep.findings[before..].iter_mut() {
                if f.kind == "differs" {
                    f.kind = "differs/star-not-facet-connected".into();
                    f.desc.push_str(" [the star of this vertex is not connected through shared facets]");
                }
            }
        }
        let before = rep.findings.len();
        let inc_ok = cmp_set(&mut rep, out, "incident_edges", &ks, &q.inc, w_inc, miss);
        let dt_inc_ok = cmp_set(&mut rep, out, "dt.incident_edges", &ks, &q.dt_inc, w_inc, miss);
        if (!inc_ok || !dt_inc_ok) && live && !o.star_facet_connected(u) {
            for f in rep.findings[before..].iter_mut() {
                if f.kind == "differs" {
                    f.kind = "differs/star-not-facet-connected".into();
                }
            }
        }
        let before = rep.findings.len();
        cmp_num(&mut rep, out, "number_of_incident_edges", &ks, q.n_inc, w_inc.len(), miss);
        if live && rep.findings.len() > before && !o.star_facet_connected(u) {
            for f in rep.findings[before..].iter_mut() {
                f.kind = "differs/star-not-facet-connected".into();
            }
        }
        let want_coords = if live { m.vertex(vk).map(|v| v.p.iter().map(|x| x.to_bits()).collect::<Vec<u64>>()) } else { None };
        cmp_opt(&mut rep, out, "vertex_coords", &ks, &q.coords, &want_coords, miss);
        cmp_opt(&mut rep, out, "dt.vertex_coords", &ks, &q.dt_coords, &want_coords, miss);
        if index.is_some() {
            cmp_set(&mut rep, out, "adjacent_cells_with_index", &ks, &q.adj_i, w_star, miss);
            cmp_pair(&mut rep, out, "adjacent_cells_with_index", &ks, &q.adj_i, &q.adj);
            cmp_num(&mut rep, out, "number_of_adjacent_cells_with_index", &ks, q.n_adj_i, w_star.len(), miss);
            cmp_set(&mut rep, out, "incident_edges_with_index", &ks, &q.inc_i, w_inc, miss);
            cmp_pair(&mut rep, out, "incident_edges_with_index", &ks, &q.inc_i, &q.inc);
            cmp_num(&mut rep, out, "number_of_incident_edges_with_index", &ks, q.n_inc_i, w_inc.len(), miss);
            cmp_set(&mut rep, out, "dt.incident_edges_with_index", &ks, &q.dt_inc_i, w_inc, miss);
            cmp_set(&mut rep, out, "AdjacencyIndex::adjacent_cells", &ks, &q.ix_adj, w_star, miss);
            cmp_num(&mut rep, out, "AdjacencyIndex::number_of_adjacent_cells", &ks, q.ix_n_adj, w_star.len(), miss);
            cmp_set(&mut rep, out, "AdjacencyIndex::incident_edges", &ks, &q.ix_inc, w_inc, miss);
            cmp_num(&mut rep, out, "AdjacencyIndex::number_of_incident_edges", &ks, q.ix_n_inc, w_inc.len(), miss);
        }
    }

    // ---- per-cell queries -------------------------------------------------------------------
    for &(ckey, class) in &keys.c {
        out.count(&format!("keys/cell/{}", class));
        let live = class == "live";
        let ks = format!("{}:{:x}", class, ck_u64(ckey));
        let q = call(&mut rep, "cell queries", || {
            let ids = |s: Option<&[VertexKey]>| s.map(|c| c.iter().map(|k| vk_u64(*k)).collect::<Vec<u64>>());
            let mut q = CQ {
                nb: tri.cell_neighbors(ckey).map(ck_u64).collect(),
                nb_i: Vec::new(),
                n_nb_i: 0,
                cv: ids(tri.cell_vertices(ckey)),
                dt_nb: dt.cell_neighbors(ckey).map(ck_u64).collect(),
                dt_nb_i: Vec::new(),
                dt_cv: ids(dt.cell_vertices(ckey)),
                ix_nb: Vec::new(),
                ix_n_nb: 0,
                view_new_ok: (0..=D + 1).map(|i| FacetView::new(tds, ckey, i as u8).is_ok()).collect(),
            };
            if let Some(ix) = &index {
                q.nb_i = tri.cell_neighbors_with_index(ix, ckey).map(ck_u64).collect();
                q.n_nb_i = tri.number_of_cell_neighbors_with_index(ix, ckey);
                q.dt_nb_i = dt.cell_neighbors_with_index(ix, ckey).map(ck_u64).collect();
                q.ix_nb = ix.cell_neighbors(ckey).map(ck_u64).collect();
                q.ix_n_nb = ix.number_of_cell_neighbors(ckey);
            }
            q
        });
        let Some(q) = q else { continue };
        // positional neighbour query: slot i = the cell across the facet opposite vertex i (None on the boundary);
        // D+1 empty slots for a missing key
        if let Some(pos) = call(&mut rep, "Tds::find_neighbors_by_key", || tds.find_neighbors_by_key(ckey).iter().map(|x| x.map(ck_u64)).collect::<Vec<Option<u64>>>()) {
            out.count("fn/find_neighbors_by_key");
            let want: Vec<Option<u64>> = match (live, m.cell(ckey)) {
                (true, Some(c)) => (0..c.v.len())
                    .map(|i| {
                        let facet: Vec<VertexKey> = c.v.iter().enumerate().filter(|(j, _)| *j != i).map(|(_, k)| *k).collect();
                        m.cells.iter().find(|o2| o2.key != c.key && facet.iter().all(|k| o2.v.contains(k))).map(|o2| ck_u64(o2.key))
                    })
                    .collect(),
                _ => vec![None; D + 1],
            };
            if pos != want {
                rep.bad("Tds::find_neighbors_by_key", "slots-differ", &ks, format!("find_neighbors_by_key({}) = {:x?}, enumeration of the facets of the stored cells gives {:x?} (slot i = cell across the facet opposite vertex i)", ks, pos, want), want.iter().map(|x| format!("{:x?}", x)).collect(), pos.iter().map(|x| format!("{:x?}", x)).collect());
            }
        }
        let u = ck_u64(ckey);
        let w_nb = if live { o.nbrs.get(&u).unwrap_or(&empty_c) } else { &empty_c };
        let miss = !live;
        cmp_set(&mut rep, out, "cell_neighbors", &ks, &q.nb, w_nb, miss);
        cmp_set(&mut rep, out, "dt.cell_neighbors", &ks, &q.dt_nb, w_nb, miss);
        let want_cv = if live { m.cell(ckey).map(|c| c.v.iter().map(|k| vk_u64(*k)).collect::<Vec<u64>>()) } else { None };
        cmp_opt(&mut rep, out, "cell_vertices", &ks, &q.cv, &want_cv, miss);
        cmp_opt(&mut rep, out, "dt.cell_vertices", &ks, &q.dt_cv, &want_cv, miss);
        // FacetView::new: Err for a missing cell or an index >= D+1, Ok otherwise
        let want_new: Vec<bool> = (0..=D + 1).map(|i| live && i <= D).collect();
        out.count("fn/FacetView::new");
        if q.view_new_ok != want_new {
            rep.bad("FacetView::new", if miss { "missing-key-ok" } else { "index-range" }, &ks, format!("FacetView::new(tds, {}, 0..={}) is_ok = {:?}, expected {:?}", ks, D + 1, q.view_new_ok, want_new), vec![format!("{:?}", want_new)], vec![format!("{:?}", q.view_new_ok)]);
        }
        if index.is_some() {
            cmp_set(&mut rep, out, "cell_neighbors_with_index", &ks, &q.nb_i, w_nb, miss);
            cmp_pair(&mut rep, out, "cell_neighbors_with_index", &ks, &q.nb_i, &q.nb);
            cmp_num(&mut rep, out, "number_of_cell_neighbors_with_index", &ks, q.n_nb_i, w_nb.len(), miss);
            cmp_set(&mut rep, out, "dt.cell_neighbors_with_index", &ks, &q.dt_nb_i, w_nb, miss);
            cmp_set(&mut rep, out, "AdjacencyIndex::cell_neighbors", &ks, &q.ix_nb, w_nb, miss);
            cmp_num(&mut rep, out, "AdjacencyIndex::number_of_cell_neighbors", &ks, q.ix_n_nb, w_nb.len(), miss);
        }
    }

    // ---- simplex counts, Euler characteristic, classification ---------------------------------
    // A state with >= 2 cells and no boundary facet cannot be a Euclidean triangulation; it can only
    // get through the gate when some cell orientations were inside the tolerance band (not judged).
    // The documented answers for such a complex (ClosedSphere) are still compared, the "ball" and
    // "boundary is a sphere" verdicts are not judged.
    let closed = n_cells >= 2 && o.bnd_facets.is_empty();
    if closed {
        out.count("not_judged/ball_verdict/state_without_boundary");
    }
    let want_f = o.f.clone();
    match call(&mut rep, "count_simplices", || euler::count_simplices(tds).map_err(|e| e.to_string())) {
        Some(Ok(fv)) => {
            out.count("fn/count_simplices");
            if fv.by_dim != want_f {
                rep.bad("count_simplices", "differs", "", format!("count_simplices = {:?}, enumeration of the faces of the stored cells gives {:?}", fv.by_dim, want_f), vec![format!("{:?}", want_f)], vec![format!("{:?}", fv.by_dim)]);
            }
            out.count("fn/euler_characteristic");
            let chi = euler::euler_characteristic(&fv) as i64;
            if chi != alt_sum(&fv.by_dim) {
                rep.bad("euler_characteristic", "differs", "", format!("euler_characteristic({:?}) = {}, alternating sum is {}", fv.by_dim, chi, alt_sum(&fv.by_dim)), vec![alt_sum(&fv.by_dim).to_string()], vec![chi.to_string()]);
            }
            if n_cells > 0 && chi != 1 && o.chi == 1 {
                rep.bad("euler_characteristic", "chi-not-1", "", format!("Euler characteristic of a valid state with {} cells is {} (f-vector {:?}; enumeration gives chi {})", n_cells, chi, fv.by_dim, o.chi), vec!["1".into()], vec![chi.to_string()]);
            }
        }
        Some(Err(e)) => rep.bad("count_simplices", "error", "", format!("count_simplices failed on a valid state: {}", e), vec![format!("{:?}", want_f)], vec![e]),
        None => {}
    }
    match call(&mut rep, "count_boundary_simplices", || euler::count_boundary_simplices(tds).map_err(|e| e.to_string())) {
        Some(Ok(fv)) => {
            out.count("fn/count_boundary_simplices");
            if fv.by_dim != o.bf {
                rep.bad("count_boundary_simplices", "differs", "", format!("count_boundary_simplices = {:?}, enumeration of the faces of the boundary facets gives {:?}", fv.by_dim, o.bf), vec![format!("{:?}", o.bf)], vec![format!("{:?}", fv.by_dim)]);
            }
            if n_cells > 0 && !closed {
                // the boundary of a ball is a closed (D-1)-sphere: chi = 1 + (-1)^(D-1), every ridge
                // in two boundary facets (part of the L3 gate), connected
                let sphere_chi: i64 = 1 + if (D - 1) % 2 == 0 { 1 } else { -1 };
                let bchi = euler::euler_characteristic(&fv) as i64;
                // the library's own verdicts on this state (evidence for the witness only)
                let lib = |rep: &mut Rep| -> String {
                    let a = call(rep, "Triangulation::is_valid", || tri.is_valid().map_err(|e| e.to_string()));
                    let b = call(rep, "Triangulation::validate_at_completion", || tri.validate_at_completion().map_err(|e| e.to_string()));
                    format!("library: Triangulation::is_valid() = {:?}, validate_at_completion() = {:?}", a, b)
                };
                if strict_ok {
                    out.count("fn/boundary_is_closed_sphere");
                    if o.bnd_facets.is_empty() {
                        rep.bad("boundary", "empty", "", format!("a valid state with {} cells has no boundary facet", n_cells), vec!["> 0".into()], vec!["0".into()]);
                    } else if bchi != sphere_chi || o.bchi != sphere_chi {
                        let lv = lib(&mut rep);
                        rep.bad("boundary", "chi-not-sphere", "", format!("boundary f-vector {:?} (library) / {:?} (enumeration) has Euler characteristic {} / {}, a closed {}-sphere has {}; {}; {}", fv.by_dim, o.bf, bchi, o.bchi, D - 1, sphere_chi, links_note, lv), vec![sphere_chi.to_string()], vec![bchi.to_string()]);
                    } else if !o.b_connected || !o.b_ridges_closed {
                        let lv = lib(&mut rep);
                        rep.bad("boundary", "not-closed-connected", "", format!("boundary complex: connected through ridges = {}, every ridge in two boundary facets = {}; {}; {}", o.b_connected, o.b_ridges_closed, links_note, lv), vec!["true, true".into()], vec![format!("{}, {}", o.b_connected, o.b_ridges_closed)]);
                    }
                } else {
                    out.count("not_judged/boundary_sphere/state_fails_configured_guarantee");
                }
            }
        }
        Some(Err(e)) => rep.bad("count_boundary_simplices", "error", "", format!("count_boundary_simplices failed on a valid state: {}", e), vec![format!("{:?}", o.bf)], vec![e]),
        None => {}
    }
    let want_class = if n_cells == 0 {
        TopologyClassification::Empty
    } else if n_cells == 1 {
        TopologyClassification::SingleSimplex(D)
    } else if closed {
        TopologyClassification::ClosedSphere(D)
    } else {
        TopologyClassification::Ball(D)
    };
    let want_expected: Option<isize> = if n_cells == 0 {
        Some(0)
    } else if closed {
        Some(1 + if D % 2 == 0 { 1 } else { -1 })
    } else {
        Some(1)
    };
    match call(&mut rep, "classify_triangulation", || euler::classify_triangulation(tds).map_err(|e| e.to_string())) {
        Some(Ok(c)) => {
            out.count("fn/classify_triangulation");
            out.count(&format!("class/{}", format!("{:?}", c).split('(').next().unwrap_or("")));
            if c != want_class {
                rep.bad("classify", if n_cells == 0 { "not-empty" } else { "not-ball" }, "", format!("classify_triangulation = {:?} on a valid state with {} cells and {} boundary facets; expected {:?}", c, n_cells, o.bnd_facets.len(), want_class), vec![format!("{:?}", want_class)], vec![format!("{:?}", c)]);
            }
            out.count("fn/expected_chi_for");
            let e = euler::expected_chi_for(&c);
            if c == want_class && e != want_expected {
                rep.bad("expected_chi_for", "differs", "", format!("expected_chi_for({:?}) = {:?}, documented {:?}", c, e, want_expected), vec![format!("{:?}", want_expected)], vec![format!("{:?}", e)]);
            }
        }
        Some(Err(e)) => rep.bad("classify", "error", "", format!("classify_triangulation failed on a valid state: {}", e), vec![format!("{:?}", want_class)], vec![e]),
        None => {}
    }
    match call(&mut rep, "validate_triangulation_euler", || validate_triangulation_euler(tds).map_err(|e| e.to_string())) {
        Some(Ok(r)) => {
            out.count("fn/validate_triangulation_euler");
            let mut bad: Vec<String> = Vec::new();
            if r.counts.by_dim != want_f {
                bad.push(format!("counts {:?} != enumeration {:?}", r.counts.by_dim, want_f));
            }
            if r.chi as i64 != alt_sum(&r.counts.by_dim) {
                bad.push(format!("chi {} is not the alternating sum of its own counts {:?}", r.chi, r.counts.by_dim));
            }
            if r.classification != want_class {
                bad.push(format!("classification {:?}, expected {:?}", r.classification, want_class));
            }
            if r.classification == want_class && r.expected != want_expected {
                bad.push(format!("expected {:?}, documented {:?}", r.expected, want_expected));
            }
            // with cells: the state is a valid ball, so the check must pass; without cells the
            // verdict is only judged for the completely empty triangulation (f0 counts stored
            // vertices, so a bootstrap state has chi = #vertices against the documented 0)
            if closed && o.chi as isize != want_expected.unwrap_or(0) {
                // not a sphere either: nothing documented to compare the verdict with
            } else if n_cells > 0 || m.verts.is_empty() {
                if !r.is_valid() {
                    bad.push(format!("is_valid() = false (chi {}, expected {:?}, notes {:?})", r.chi, r.expected, r.notes));
                } else if !r.notes.is_empty() {
                    bad.push(format!("is_valid() but notes {:?}", r.notes));
                }
            } else {
                out.count("not_judged/validate_euler_verdict_on_bootstrap_state");
            }
            if !bad.is_empty() {
                rep.bad("validate_triangulation_euler", if n_cells > 0 { "differs" } else { "empty-differs" }, "", bad.join("; "), vec![format!("counts {:?} chi {} class {:?} valid", want_f, o.chi, want_class)], vec![format!("counts {:?} chi {} class {:?} valid {}", r.counts.by_dim, r.chi, r.classification, r.is_valid())]);
            }
        }
        Some(Err(e)) => rep.bad("validate_triangulation_euler", "error", "", format!("validate_triangulation_euler failed on a valid state: {}", e), vec!["Ok".into()], vec![e]),
        None => {}
    }
    rep
}

// ---------------------------------------------------------------------------------------------
// Histories
// ---------------------------------------------------------------------------------------------

fn history<K, const D: usize>(ctx: &Ctx, out: &mut Out, cs: u64, kn: Kn)
where
    K: Kernel<D, Scalar = f64>,
{
    let mut rng = Rng::new(cs);
    let thorough = ctx.tier == Tier::Thorough;
    out.eval();
    let Some((mut dt, mut mem, start)) = start_dt::<K, D>(&mut rng, thorough, out) else { return };
    let init: Vec<Op<D>> = vec![Op::SetValidationPolicy(rng.usize(4) as u8), Op::SetRepairPolicy(if rng.chance(1, 3) { 0 } else { rng.usize(4) as u8 })];
    for op in &init {
        let _ = hist::apply(&mut dt, op);
    }
    let len = if thorough { 30 + rng.usize(120) } else { 15 + rng.usize(45) };
    let len = if D >= 4 { len / 3 + 6 } else { len };
    let base = json!({"property": P, "case_seed": cs.to_string(), "D": D, "kernel": kn.name(), "start": start, "initial_policies": init.iter().map(|o| o.to_json()).collect::<Vec<_>>()});
    let mut qrng = Rng::derive(cs, 15, 0);
    let (fv, fc) = match guard(|| foreign_pool::<K, D>(&mut qrng)) {
        Ok(x) => x,
        Err(_) => (Vec::new(), Vec::new()),
    };
    let mut pool = KeyPool { stale_v: Vec::new(), stale_c: Vec::new(), foreign_v: fv, foreign_c: fc };
    let mut stopped = false;
    let mut checked_states = 0u64;

    // one state: gate, query, report. Returns false when the history should stop.
    let mut judge = |out: &mut Out, dt: &Dt<K, D>, m: &RefModel<D>, cfg: &fingerprint::Config, origin: &str, recent_v: &[VertexKey], recent_c: &[CellKey], pool: &KeyPool, log: &[Value], step: Option<usize>| -> bool {
        let n = m.cells.len();
        let strict_ok;
        let mut links_note = String::new();
        if n == 0 {
            // no cells: only L1/L2 (uuid maps, counts) are required; the answers are the documented empty ones
            if !refcheck::check_l1(m).is_empty() || !refcheck::check_l2(m).is_empty() {
                out.count("not_judged/invalid_state");
                out.count(&format!("not_judged/invalid_state/{}", origin));
                return true;
            }
            strict_ok = false;
            out.count(&format!("states/no_cells_checked/{}", origin));
        } else {
            let st = refcheck::Stack::compute(m);
            // "valid triangulation" = L1, L2 and the full PL-manifold Level 3 (vertex links) recomputed
            // independently, whatever guarantee is configured: pinched complexes (which the library's
            // hull-vertex removal produces and the Pseudomanifold guarantee tolerates) are not balls and
            // have stars that are not facet-connected; they are counted and skipped.
            if !st.l1.is_empty() || !st.l2.is_empty() || !st.fails(Guarantee::PLManifoldStrict, true, n).is_empty() {
                out.count("not_judged/invalid_state");
                out.count(&format!("not_judged/invalid_state/{}", origin));
                return true;
            }
            // a Euclidean triangulation covers the convex hull of its vertices: after the library's hull-vertex
            // removal (recorded under C06, F12c) the boundary can be non-convex with Levels 1-3 intact, and
            // insertions outside such a region then produce overlapping cells; those states are not valid
            // triangulations and are counted and skipped like the pinched ones
            if !refcheck::check_convex_boundary(m).fails.is_empty() {
                out.count("not_judged/invalid_state");
                out.count(&format!("not_judged/nonconvex_boundary/{}", origin));
                return true;
            }
            out.add("note/ambiguous_orientation_cells_in_judged_states", st.l3.orientation_ambiguous as u64);
            strict_ok = st.fails(guarantee_of(cfg), true, n).is_empty();
            links_note = format!(
                "configured guarantee {}; the state passes Level 1-3 at that guarantee; independent ridge-link check: {}, vertex-link check: {}",
                cfg.topology_guarantee,
                if st.l3.ridge_links.is_empty() { "pass".to_string() } else { format!("FAIL ({})", st.l3.ridge_links[0]) },
                if st.l3.vertex_links.is_empty() { "pass".to_string() } else { format!("FAIL ({})", st.l3.vertex_links[0]) }
            );
            out.count(&format!("states/checked/{}", origin));
            out.count(&format!("states/checked_by_dim/D{}/{}", D, kn.name()));
            out.max("max/cells_in_checked_state", n as u64);
            if m.verts.len() > D + 2 {
                out.nontrivial(&fingerprint::keyfree(m));
            }
            if strict_ok {
                out.count("states/also_valid_at_configured_guarantee");
            }
        }
        checked_states += 1;
        let keys = choose_keys(m, recent_v, recent_c, pool, &mut qrng, out);
        let rep = check_state::<K, D>(out, dt, m, &keys, &mut qrng, strict_ok, &links_note);
        let mk_rp = |extra: Value| {
            let mut rp = base.clone();
            rp["history"] = json!(log);
            rp["step"] = json!(step);
            rp["state"] = json!({"origin": origin, "vertices": m.verts.len(), "cells": n, "guarantee": cfg.topology_guarantee});
            if n <= SMALL {
                // the complex itself, so that the witness can be checked by hand
                rp["state"]["cell_vertex_keys"] = json!(m.cells.iter().map(|c| json!({"cell": format!("{:x}", ck_u64(c.key)), "v": c.v.iter().map(|k| format!("{:x}", vk_u64(*k))).collect::<Vec<_>>()})).collect::<Vec<_>>());
                rp["state"]["vertex_coords"] = json!(m.verts.iter().map(|v| json!({"key": format!("{:x}", vk_u64(v.key)), "p": v.p.to_vec()})).collect::<Vec<_>>());
            }
            if let Value::Object(map) = extra {
                for (k, v) in map {
                    rp[k] = v;
                }
            }
            rp
        };
        for (pi, what) in &rep.panics {
            out.panic(P, pi, what, mk_rp(json!({"function": what})));
        }
        for f in &rep.findings {
            out.violation(
                P,
                // verdicts about the state itself carry the operation that produced the state
                &(if f.func == "boundary" || f.func == "classify" { format!("D{}/{}/{}/after-{}", D, f.func, f.kind, origin) } else { format!("D{}/{}/{}", D, f.func, f.kind) }),
                format!("after {} ({} vertices, {} cells): {}", origin, m.verts.len(), n, f.desc),
                mk_rp(json!({"function": f.func, "key": f.key, "expected": f.expected, "got": f.got})),
            );
        }
        rep.findings.is_empty() && rep.panics.is_empty()
    };

    // the start state
    {
        let m0 = RefModel::from_dt(&dt);
        let cfg0 = crate::api::config_of(&dt);
        if !judge(out, &dt, &m0, &cfg0, "start", &[], &[], &pool, &[], None) {
            stopped = true;
        }
    }
    let mut log_len = 0usize;
    if !stopped {
        let log = hist::run_history(&mut dt, &mut rng, &mut mem, &Mix::everything(), len, |s: &Step<K, D>| {
            let res = match s.res {
                Ok(r) => r,
                Err(pi) => {
                    let mut rp = base.clone();
                    rp["history"] = json!(s.log);
                    out.panic(P, pi, s.op.kind(), rp);
                    return false;
                }
            };
            // error texts carry counts ("multiplicity 7"): fold the digits so that the counter set stays small
            let label: String = res.label().chars().map(|c| if c.is_ascii_digit() { '#' } else { c }).collect();
            out.count(&format!("op/{}/{}", s.op.kind(), label));
            if ctx.elapsed() > ctx.budget_s * 1.3 {
                out.count("history_cut_by_budget");
                return false;
            }
            // keys that were present before this step and are absent now
            let recent_v: Vec<VertexKey> = s.pre.verts.iter().map(|v| v.key).filter(|k| !s.post.vidx.contains_key(k)).collect();
            let recent_c: Vec<CellKey> = s.pre.cells.iter().map(|c| c.key).filter(|k| !s.post.cidx.contains_key(k)).collect();
            for &k in &recent_v {
                if pool.stale_v.len() < 48 {
                    pool.stale_v.push(k);
                }
            }
            for &k in &recent_c {
                if pool.stale_c.len() < 96 {
                    pool.stale_c.push(k);
                }
            }
            let go = judge(out, s.dt, s.post, s.post_cfg, s.op.kind(), &recent_v, &recent_c, &pool, s.log, Some(s.index));
            if !go {
                stopped = true;
            }
            go
        });
        log_len = log.len();
        if out.samples.len() < 3 && log.len() > 8 && !stopped {
            out.sample(json!({"D": D, "kernel": kn.name(), "start": start["start"], "ops": log.iter().take(12).cloned().collect::<Vec<_>>(), "total_ops": log.len(), "final_vertices": dt.number_of_vertices(), "final_cells": dt.number_of_cells()}));
        }
    }
    out.add("steps", log_len as u64);
    out.add("states/queried", checked_states);
}

pub fn run_case(ctx: &Ctx, out: &mut Out, cs: u64, d: usize, kn: Kn) {
    match (d, kn) {
        (2, Kn::Fast) => history::<FastKernel<f64>, 2>(ctx, out, cs, kn),
        (3, Kn::Fast) => history::<FastKernel<f64>, 3>(ctx, out, cs, kn),
        (4, Kn::Fast) => history::<FastKernel<f64>, 4>(ctx, out, cs, kn),
        (5, Kn::Fast) => history::<FastKernel<f64>, 5>(ctx, out, cs, kn),
        (2, Kn::Robust) => history::<RobustKernel<f64>, 2>(ctx, out, cs, kn),
        (3, Kn::Robust) => history::<RobustKernel<f64>, 3>(ctx, out, cs, kn),
        (4, Kn::Robust) => history::<RobustKernel<f64>, 4>(ctx, out, cs, kn),
        _ => history::<RobustKernel<f64>, 5>(ctx, out, cs, kn),
    }
}

pub fn run(ctx: &Ctx, out: &mut Out) {
    if let Some(doc) = &ctx.replay {
        if let (Some(cs), Some(d)) = (ctx.replay_seed(), doc["D"].as_u64()) {
            let kn = Kn::from_name(doc["kernel"].as_str().unwrap_or("fast")).unwrap_or(Kn::Fast);
            run_case(ctx, out, cs, d as usize, kn);
        } else {
            out.inconclusive("bad replay document");
        }
        return;
    }
    let cap = (if ctx.tier == Tier::Thorough { 100_000.0 } else { 1_500.0 } * ctx.scale) as u64;
    let mut i = 0u64;
    while i < cap && !ctx.out_of_time() {
        let cs = ctx.case_seed(i);
        let d = super::c01::pick_dim_hist(ctx, cs >> 7);
        let kn = if (cs >> 3) & 1 == 0 { Kn::Fast } else { Kn::Robust };
        run_case(ctx, out, cs, d, kn);
        i += 1;
    }
}
