//! C16 — toroidal domains: wrapping mode (`.toroidal(L)`) and periodic mode (`.toroidal_periodic(L)`).
//!
//! Oracles (independent of the library's arithmetic):
//! * exact remainder: for an input coordinate `x_in` and a period `L` the unique `r` in `[0, L)` with
//!   `x_in = q L + r`, `q` integer, is computed in exact dyadic arithmetic (`Dy`). A stored coordinate
//!   `x` is *congruent* when it is within the accuracy achievable by an fmod-style computation
//!   (`4 eps max(|x_in|, L)`) of `r`, `r + L` or `r - L`; *perturbed* when within the documented
//!   insertion perturbation (`1e-7 max(1, max L)`); otherwise a violation.
//! * half-open box: plain f64 comparison `0 <= x < L` (`-0.0` counts as 0, `x == L` is a violation).
//! * identity: UUID / data of every output vertex must be those of exactly one input.
//! * idempotence: rebuilding from the output coordinates must return them bit-identically.
//! * certification of the result with the shared RefCheck / exact Level 4 oracle (`tri::certify`).
//! * later insertions are read back and judged with the same box / congruence rules.
//! * periodic mode: closedness (all neighbour slots filled), Euler characteristic 0 of the quotient
//!   (V - 3F/2 + F, cross-checked by counting (vertex pair, relative lattice offset) edge classes),
//!   RefCheck levels 1-2, and the vertex set against the inputs.
//! * pure function `ToroidalSpace::wrap_coord` / `canonicalize_point`: same box / congruence /
//!   idempotence rules at high volume (signatures prefixed `fn/`).

use crate::api::Kn;
use crate::common::{Ctx, Out, PanicInfo, Tier, bits, guard, pts_json};
use crate::exact::Dy;
use crate::model::RefModel;
use crate::refcheck::{self, Guarantee};
use crate::rng::Rng;
use crate::tri::{self, Dt, GUARANTEES, Input, Opts};
use delaunay::core::builder::DelaunayTriangulationBuilder;
use delaunay::geometry::kernel::{FastKernel, Kernel, RobustKernel};
use delaunay::topology::spaces::ToroidalSpace;
use delaunay::topology::traits::topological_space::TopologicalSpace;
use serde_json::{Value, json};
use std::cmp::Ordering;
use std::collections::{BTreeMap, BTreeSet, HashMap, HashSet};
use uuid::Uuid;

const P: &str = "C16";
const EPS: f64 = 2.220446049250313e-16;

// =============================================================================================
// Exact remainder and the congruence judgement
// =============================================================================================

/// The exact `r` in `[0, L)` with `x = q L + r` for an integer `q`; `None` when it cannot be
/// established (never for finite `x`, positive finite `L` in practice).
fn exact_rem(x: f64, l: f64) -> Option<Dy> {
    if !x.is_finite() || !l.is_finite() || !(l > 0.0) {
        return None;
    }
    let dx = Dy::from_f64(x);
    let dl = Dy::from_f64(l);
    let q0 = (x / l).floor();
    let mut q = if q0.is_finite() { Dy::from_f64(q0) } else { Dy::zero() };
    for _ in 0..400 {
        let r = dx.sub(&q.mul(&dl));
        if r.sign() >= 0 && r.lt(&dl) {
            return Some(r);
        }
        // integer correction estimated in floating point, at least one unit in the right direction
        let mut est = (r.approx() / l).floor();
        if !est.is_finite() {
            // r too large for f64: halve the distance in the exponent domain
            let lg = r.log2_abs() - Dy::from_f64(l).log2_abs();
            if !lg.is_finite() || lg > 2000.0 {
                return None;
            }
            est = 2f64.powf((lg - 1.0).min(1000.0)).floor() * if r.sign() < 0 { -1.0 } else { 1.0 };
        }
        if r.sign() < 0 && est > -1.0 {
            est = -1.0;
        }
        if r.sign() >= 0 && est < 1.0 {
            est = 1.0;
        }
        q = q.add(&Dy::from_f64(est));
    }
    None
}

#[derive(Clone, Copy, Debug, PartialEq, Eq)]
enum Cong {
    /// stored value equals the exact remainder
    Exact,
    /// within one rounding of an exact-fmod implementation (4 eps L) of the exact remainder
    Rounded,
    /// within 4 eps L of r + L or r - L (rounding across the seam)
    Seam,
    /// within the given extra allowance (perturbation) of a representative
    Perturbed,
    /// within the accuracy of a division-based remainder, 4 eps max(|x_in|, L), but not tighter
    Loose,
    No,
}

impl Cong {
    fn name(self) -> &'static str {
        match self {
            Cong::Exact => "exact",
            Cong::Rounded => "rounded",
            Cong::Seam => "seam",
            Cong::Perturbed => "perturbed",
            Cong::Loose => "loose",
            Cong::No => "not-congruent",
        }
    }
}

/// Judges a stored coordinate `x` against the exact remainder `r` of `x_in` modulo `l`.
/// Accepted (not `No`): within `4 eps max(|x_in|, L) + extra` of `r`, `r + L` or `r - L`.
fn congruence(x: f64, x_in: f64, l: f64, r: &Dy, extra: f64) -> Cong {
    if !x.is_finite() {
        return Cong::No;
    }
    let dx = Dy::from_f64(x);
    if dx.cmp(r) == Ordering::Equal {
        return Cong::Exact;
    }
    let dl = Dy::from_f64(l);
    let d0 = dx.sub(r).abs();
    let dp = dx.sub(&r.add(&dl)).abs();
    let dm = dx.sub(&r.sub(&dl)).abs();
    let within = |b: f64| -> (bool, bool) {
        if !b.is_finite() {
            return (true, true);
        }
        (d0.cmp_f64(b) != Ordering::Greater, dp.cmp_f64(b) != Ordering::Greater || dm.cmp_f64(b) != Ordering::Greater)
    };
    let tight = 4.0 * EPS * l;
    let loose = 4.0 * EPS * x_in.abs().max(l);
    let (t0, ts) = within(tight);
    if t0 {
        return Cong::Rounded;
    }
    if ts {
        return Cong::Seam;
    }
    if extra > 0.0 {
        let (p0, ps) = within(tight + extra);
        if p0 || ps {
            return Cong::Perturbed;
        }
    }
    let (l0, ls) = within(loose);
    if l0 || ls {
        return Cong::Loose;
    }
    if extra > 0.0 {
        let (p0, ps) = within(loose + extra);
        if p0 || ps {
            return Cong::Perturbed;
        }
    }
    Cong::No
}

fn in_box(x: f64, l: f64) -> bool {
    x >= 0.0 && x < l
}

// =============================================================================================
// Workload
// =============================================================================================

const PERIODS: [f64; 11] = [1.0, 2.0, 0.5, 3.0, 0.1, 1e-6, 1e6, 0.3, 1.0 / 3.0, 1e-3, 7.0];

fn pick_domain<const D: usize>(rng: &mut Rng) -> [f64; D] {
    let mut dom = [1.0; D];
    match rng.usize(4) {
        0 => {}
        1 => {
            let l = *rng.pick(&PERIODS);
            dom = [l; D];
        }
        2 => {
            // mixed per axis, e.g. [1, 1e-3]
            for d in dom.iter_mut() {
                *d = *rng.pick(&PERIODS);
            }
        }
        _ => {
            // moderate periods, independent per axis
            for d in dom.iter_mut() {
                *d = *rng.pick(&[1.0, 2.0, 0.5, 3.0, 0.1, 0.3, 1.0 / 3.0, 7.0]);
            }
        }
    }
    dom
}

fn prev_f(x: f64) -> f64 {
    // next float towards zero for positive finite x
    if x > 0.0 { f64::from_bits(x.to_bits() - 1) } else { x }
}
fn next_f(x: f64) -> f64 {
    if x > 0.0 { f64::from_bits(x.to_bits() + 1) } else { x }
}

/// Ordinary coordinate strictly inside (0, L) on a 1024 grid.
fn ord_coord(rng: &mut Rng, l: f64) -> f64 {
    (1 + rng.below(1022)) as f64 / 1024.0 * l
}

const N_ADV: usize = 24;

/// Adversarial coordinate for period `l` (label, value).
fn adv_coord(rng: &mut Rng, l: f64, which: usize) -> (&'static str, f64) {
    let frac = rng.below(1024) as f64 / 1024.0;
    match which % N_ADV {
        0 => ("far+1e6", (1e6 + frac) * l),
        1 => ("far-1e6", (-1e6 + frac) * l),
        2 => ("far+1e15", 1e15 * l),
        3 => ("far-1e15", -1e15 * l),
        4 => ("far+1e15frac", (1e15 + rng.below(64) as f64 / 8.0) * l),
        5 => ("zero", 0.0),
        6 => ("L", l),
        7 => ("-L", -l),
        8 => ("2L", 2.0 * l),
        9 => ("-zero", -0.0),
        10 => ("-1e-20", -1e-20),
        11 => ("-min-subnormal", -5e-324),
        12 => ("-1e-300", -1e-300),
        13 => ("below-L", prev_f(l)),
        14 => {
            let k = [2.0, 3.0, 1024.0, 1e6, 1048576.0][rng.usize(5)];
            ("kL-tiny", prev_f(k * l))
        }
        15 => ("-L*2^-54", -l * 2f64.powi(-54)),
        16 => ("-L*2^-k", -l * 2f64.powi(-(54 + rng.usize(200) as i32))),
        17 => ("above-L", next_f(l)),
        18 => ("1.2L", 1.2 * l),
        19 => ("-0.1L", -0.1 * l),
        20 => ("7L+0.3", 7.0 * l + 0.3),
        21 => ("-L*2^-53", -l * 2f64.powi(-53)),
        22 => {
            let k = [2.0, 3.0, 1024.0, 1e6][rng.usize(4)];
            ("-kL+tiny", -prev_f(k * l))
        }
        _ => ("-far-frac", -(1e9 + frac) * l),
    }
}

struct Work<const D: usize> {
    domain: [f64; D],
    pts: Vec<[f64; D]>,
    /// per point: labels of adversarial coordinates (empty = ordinary)
    labels: Vec<Vec<&'static str>>,
    n_adv: usize,
}

fn gen_points<const D: usize>(rng: &mut Rng, domain: [f64; D], n_ord: usize, n_adv: usize) -> Work<D> {
    let mut pts = Vec::new();
    let mut labels: Vec<Vec<&'static str>> = Vec::new();
    for _ in 0..n_ord {
        let mut p = [0.0; D];
        let mut lab = Vec::new();
        for j in 0..D {
            p[j] = ord_coord(rng, domain[j]);
            if rng.chance(1, 6) {
                let m = rng.range_i64(-3, 3) as f64;
                if m != 0.0 {
                    p[j] += m * domain[j];
                    lab.push("shifted");
                }
            }
        }
        pts.push(p);
        labels.push(lab);
    }
    for _ in 0..n_adv {
        let mut p = [0.0; D];
        let mut lab = Vec::new();
        let forced = rng.usize(D);
        for j in 0..D {
            if j == forced || rng.chance(1, 4) {
                let w = rng.usize(N_ADV);
                let (name, x) = adv_coord(rng, domain[j], w);
                p[j] = x;
                lab.push(name);
            } else {
                p[j] = ord_coord(rng, domain[j]);
            }
        }
        pts.push(p);
        labels.push(lab);
    }
    // adversarial points are not always last
    let mut idx: Vec<usize> = (0..pts.len()).collect();
    rng.shuffle(&mut idx);
    let pts2: Vec<[f64; D]> = idx.iter().map(|&i| pts[i]).collect();
    let labels2: Vec<Vec<&'static str>> = idx.iter().map(|&i| labels[i].clone()).collect();
    Work { domain, pts: pts2, labels: labels2, n_adv }
}

fn dom_json<const D: usize>(d: &[f64; D]) -> Value {
    json!({"x": d.iter().map(|x| if x.is_finite() { json!(x) } else { json!(format!("{}", x)) }).collect::<Vec<_>>(), "bits": bits(d)})
}

fn err_prefix(msg: &str) -> String {
    // stable class of an error message: digits, keys and coordinates removed, first words kept
    let s: String = msg.chars().map(|c| if c.is_ascii_alphabetic() || c == ' ' { c } else { ' ' }).collect();
    let hexish = |w: &str| w.chars().all(|c| matches!(c, 'a'..='f' | 'A'..='F'));
    let words: Vec<&str> = s.split_whitespace().filter(|w| w.len() > 1 && !hexish(w)).take(14).collect();
    words.join(" ")
}

fn build_toroidal<K, const D: usize>(inp: &[Input<D>], domain: [f64; D], periodic: bool, g: Guarantee, opts: &Opts) -> Result<Result<Dt<K, D>, String>, PanicInfo>
where
    K: Kernel<D, Scalar = f64>,
{
    let verts = tri::to_vertices::<i32, D>(inp);
    let kernel = K::default();
    let tg = g.to_lib();
    let o = opts.to_lib();
    guard(|| {
        let b = DelaunayTriangulationBuilder::from_vertices(&verts);
        let b = if periodic { b.toroidal_periodic(domain) } else { b.toroidal(domain) };
        b.topology_guarantee(tg).construction_options(o).build_with_kernel::<K, i32>(&kernel).map_err(|e| e.to_string())
    })
}

/// Reports at most one violation per signature and case.
struct Reporter<'a> {
    out: &'a mut Out,
    base: Value,
    seen: HashSet<String>,
}

impl Reporter<'_> {
    fn violation(&mut self, sig: &str, desc: String, detail: Value) {
        if !self.seen.insert(sig.to_string()) {
            self.out.count(&format!("suppressed_repeat/{}", sig));
            return;
        }
        let mut rp = self.base.clone();
        rp["detail"] = detail;
        self.out.violation(P, sig, desc, rp);
    }
    fn panic(&mut self, pi: &PanicInfo, what: &str) {
        let rp = self.base.clone();
        self.out.panic(P, pi, what, rp);
    }
}

/// Box / congruence judgement of one stored point against its input. `ctx_sig` = "wrap", "insert",
/// "periodic". Returns (all coordinates in box, all coordinates congruent-or-perturbed).
#[allow(clippy::too_many_arguments)]
fn judge_point<const D: usize>(
    rep: &mut Reporter,
    ctx_sig: &str,
    domain: &[f64; D],
    x_in: &[f64; D],
    x: &[f64; D],
    extra: f64,
    extra_name: &str,
) -> (bool, Vec<Cong>) {
    let mut all_in = true;
    let mut congs = Vec::with_capacity(D);
    for j in 0..D {
        let l = domain[j];
        let Some(r) = exact_rem(x_in[j], l) else {
            rep.out.count("not_judged/exact_remainder_unavailable");
            congs.push(Cong::Rounded);
            continue;
        };
        let c = if x[j].to_bits() == x_in[j].to_bits() && in_box(x_in[j], l) { Cong::Exact } else { congruence(x[j], x_in[j], l, &r, extra) };
        congs.push(c);
        let cname = if c == Cong::Perturbed { extra_name } else { c.name() };
        rep.out.count(&format!("{}/coord/{}", ctx_sig, cname));
        if !in_box(x[j], l) {
            all_in = false;
            let sig = if x[j] == l {
                format!("{}/outside-box/equals-period", ctx_sig)
            } else if c == Cong::Perturbed || (extra > 0.0 && c != Cong::No && (x[j] < 0.0 || x[j] > l)) {
                // canonicalisation (rem_euclid) never yields a negative value or one above the period:
                // a congruent stored value strictly outside [0, L] was moved there afterwards by the
                // retry perturbation, also when the displacement is below the rounding allowance of a
                // large period
                format!("{}/outside-box/perturbed", ctx_sig)
            } else {
                format!("{}/outside-box", ctx_sig)
            };
            rep.violation(
                &sig,
                format!("axis {}: input {:e} with period {:e} is stored as {:e} which is outside the half-open box [0, {:e}) (exact remainder ~{:e}, {})", j, x_in[j], l, x[j], l, r.approx(), c.name()),
                json!({"axis": j, "input": pts_json(&[*x_in]), "stored": pts_json(&[*x]), "period": l, "exact_remainder": r.to_string_hex(), "exact_remainder_approx": r.approx()}),
            );
        }
        if c == Cong::No {
            rep.violation(
                &format!("{}/not-congruent", ctx_sig),
                format!("axis {}: input {:e} with period {:e} is stored as {:e}, exact remainder ~{:e}: further than 4 eps max(|x|, L) + {:e} from every representative", j, x_in[j], l, x[j], r.approx(), extra),
                json!({"axis": j, "input": pts_json(&[*x_in]), "stored": pts_json(&[*x]), "period": l, "exact_remainder": r.to_string_hex(), "exact_remainder_approx": r.approx()}),
            );
        }
    }
    (all_in, congs)
}

/// UUID / data accounting of the output against the inputs. Returns map uuid -> input index.
fn judge_identity<const D: usize>(rep: &mut Reporter, ctx_sig: &str, m: &RefModel<D>, inp: &[Input<D>]) -> HashMap<Uuid, usize> {
    let mut by_uuid: HashMap<Uuid, usize> = HashMap::new();
    for (i, v) in inp.iter().enumerate() {
        by_uuid.insert(v.uuid, i);
    }
    let mut seen = HashSet::new();
    for v in &m.verts {
        match by_uuid.get(&v.uuid) {
            None => rep.violation(
                &format!("{}/uuid-not-in-input", ctx_sig),
                format!("output vertex {:?} at {:?} carries a UUID that no input has", v.uuid, v.p),
                json!({"stored": pts_json(&[v.p]), "uuid": v.uuid.to_string()}),
            ),
            Some(&i) => {
                if !seen.insert(v.uuid) {
                    rep.violation(&format!("{}/uuid-duplicated", ctx_sig), format!("two output vertices share UUID {:?}", v.uuid), json!({"uuid": v.uuid.to_string()}));
                }
                if v.data != inp[i].data {
                    rep.violation(
                        &format!("{}/data-changed", ctx_sig),
                        format!("vertex {:?}: input data {:?}, stored data {:?}", v.uuid, inp[i].data, v.data),
                        json!({"uuid": v.uuid.to_string(), "input_index": i}),
                    );
                }
            }
        }
    }
    by_uuid
}

// =============================================================================================
// Wrapping mode
// =============================================================================================

fn wrap_case<K, const D: usize>(ctx: &Ctx, out: &mut Out, cs: u64, kn: Kn)
where
    K: Kernel<D, Scalar = f64>,
{
    let mut rng = Rng::new(cs);
    let thorough = ctx.tier == Tier::Thorough;
    out.eval();
    let domain = pick_domain::<D>(&mut rng);
    let n_ord = 6 + rng.usize(if thorough { 30 } else { 15 });
    let n_adv = rng.usize(5);
    let w = gen_points::<D>(&mut rng, domain, n_ord, n_adv);
    let inp = tri::mk_inputs(&mut rng, &w.pts);
    let gu = *rng.pick(&GUARANTEES);
    let opts = if rng.chance(2, 3) { Opts::default_like() } else { Opts::random(&mut rng) };
    let base = json!({
        "property": P, "kind": "wrap", "case_seed": cs.to_string(), "D": D, "kernel": kn.name(),
        "domain": dom_json(&domain), "guarantee": format!("{:?}", gu), "options": opts.describe(),
        "points": pts_json(&w.pts), "labels": w.labels,
    });
    for l in w.labels.iter().flatten() {
        out.count(&format!("adv/{}", l));
    }
    let maxl = domain.iter().cloned().fold(0.0, f64::max);
    let extra = 1e-7 * maxl.max(1.0);
    let mut rep = Reporter { out, base, seen: HashSet::new() };

    // 7. invalid domains must be rejected (cheap: validation precedes any construction)
    {
        let mut bad = domain;
        let axis = rng.usize(D);
        let (name, v) = *rng.pick(&[("zero", 0.0), ("-zero", -0.0), ("negative", -1.0), ("-L", -domain[0]), ("nan", f64::NAN), ("inf", f64::INFINITY), ("-inf", f64::NEG_INFINITY)]);
        bad[axis] = v;
        for periodic in [false, true] {
            if periodic && D != 2 {
                continue;
            }
            match build_toroidal::<K, D>(&inp, bad, periodic, gu, &opts) {
                Ok(Ok(_)) => rep.violation(
                    "domain/invalid-accepted",
                    format!("period {} ({:?}) on axis {} accepted by {}", name, v, axis, if periodic { "toroidal_periodic" } else { "toroidal" }),
                    json!({"bad_domain": dom_json(&bad), "periodic": periodic}),
                ),
                Ok(Err(_)) => rep.out.count(&format!("domain/invalid-rejected/{}", name)),
                Err(pi) => rep.panic(&pi, "build with invalid domain"),
            }
        }
    }

    let mut dt = match build_toroidal::<K, D>(&inp, domain, false, gu, &opts) {
        Ok(Ok(dt)) => dt,
        Ok(Err(e)) => {
            rep.out.count(&format!("wrap/build_err/{}", err_prefix(&e)));
            return;
        }
        Err(pi) => {
            rep.panic(&pi, "toroidal build");
            return;
        }
    };
    rep.out.count(&format!("wrap/build_ok/D{}/{}", D, kn.name()));
    let m = RefModel::from_dt(&dt);
    if m.verts.len() > D + 2 && w.n_adv > 0 {
        rep.out.nontrivial(&cs.to_string());
    }
    rep.out.add("wrap/vertices_out", m.verts.len() as u64);
    rep.out.add("wrap/vertices_in", inp.len() as u64);
    match guard(|| format!("{:?}", dt.global_topology())) {
        Ok(s) => {
            if s.starts_with("Toroidal") {
                rep.out.count("wrap/global_topology/toroidal");
            } else {
                rep.out.count("wrap/global_topology/other");
            }
        }
        Err(pi) => rep.panic(&pi, "global_topology"),
    }

    // 3. identity, 1. box, 2. congruence
    let by_uuid = judge_identity(&mut rep, "wrap", &m, &inp);
    let mut perturbed_vertices: HashSet<Uuid> = HashSet::new();
    for v in &m.verts {
        let Some(&i) = by_uuid.get(&v.uuid) else { continue };
        let (_, congs) = judge_point(&mut rep, "wrap", &domain, &inp[i].p, &v.p, extra, "perturbed");
        if congs.iter().any(|c| *c == Cong::Perturbed) {
            perturbed_vertices.insert(v.uuid);
        }
    }

    // 5. certified triangulation of the wrapped points
    {
        let cert = tri::certify(&m, gu, true, true, true);
        rep.out.add("judged/insphere_pairs", cert.pairs);
        rep.out.add("not_judged/ambiguous", cert.ambiguous);
        if cert.ok() {
            rep.out.count("wrap/cert/ok");
            if cert.unique {
                rep.out.count("wrap/cert/unique");
            }
        } else {
            // scale class of the domain: the predicates' tolerance has an absolute part (1e-15) and a
            // part relative to the coordinates, not to their products, so very small and very large
            // periods are a different regime (recorded findings) from ordinary ones
            let (lo, hi) = domain.iter().fold((f64::INFINITY, 0.0f64), |(a, b), &x| (a.min(x), b.max(x)));
            let scale = match (lo < 1e-2, hi > 1e3) {
                (false, false) => "unit",
                (true, false) => "small",
                (false, true) => "large",
                (true, true) => "mixed",
            };
            let sig = format!("wrap/cert/{}/{:?}/{}", scale, gu, cert.aspect());
            rep.violation(&sig, format!("result of .toroidal({:?}) is not a certified triangulation of its (wrapped) vertices: {}", domain, cert.summary()), json!({"failures": cert.summary()}));
        }
    }

    // 4. idempotence: rebuild from the output coordinates
    {
        let inp2: Vec<Input<D>> = m.verts.iter().map(|v| Input { uuid: v.uuid, p: v.p, data: v.data }).collect();
        match build_toroidal::<K, D>(&inp2, domain, false, gu, &opts) {
            Ok(Ok(dt2)) => {
                rep.out.count("idem/rebuild_ok");
                let m2 = RefModel::from_dt(&dt2);
                let first: HashMap<Uuid, [f64; D]> = m.verts.iter().map(|v| (v.uuid, v.p)).collect();
                for v2 in &m2.verts {
                    let Some(p1) = first.get(&v2.uuid) else { continue };
                    for j in 0..D {
                        if v2.p[j].to_bits() == p1[j].to_bits() {
                            rep.out.count("idem/coord_identical");
                            continue;
                        }
                        let l = domain[j];
                        if in_box(p1[j], l) {
                            // wrapping a value of the box is the identity in exact arithmetic: a change is
                            // either the documented insertion perturbation or a defect
                            if (v2.p[j] - p1[j]).abs() <= extra {
                                rep.out.count("idem/not_judged/perturbed_on_rebuild");
                            } else {
                                rep.violation(
                                    "wrap/not-idempotent",
                                    format!("axis {}: coordinate {:e} (inside the box, period {:e}) came back as {:e} when the output was wrapped again", j, p1[j], l, v2.p[j]),
                                    json!({"axis": j, "first": pts_json(&[*p1]), "second": pts_json(&[v2.p]), "period": l}),
                                );
                            }
                        } else {
                            let sub = if p1[j] == l { "/equals-period" } else if perturbed_vertices.contains(&v2.uuid) { "/perturbed" } else { "" };
                            rep.violation(
                                &format!("wrap/not-idempotent{}", sub),
                                format!("axis {}: the first build stored {:e} (period {:e}); wrapping the output again gives {:e}", j, p1[j], l, v2.p[j]),
                                json!({"axis": j, "first": pts_json(&[*p1]), "second": pts_json(&[v2.p]), "period": l}),
                            );
                        }
                    }
                }
            }
            Ok(Err(e)) => rep.out.count(&format!("idem/rebuild_err/{}", err_prefix(&e))),
            Err(pi) => rep.panic(&pi, "toroidal rebuild from output"),
        }
    }

    // 6. later insertions
    {
        let k = if thorough { 6 } else { 3 };
        for step in 0..k {
            let mut p = [0.0; D];
            let mut lab = Vec::new();
            let forced = rng.usize(D);
            for j in 0..D {
                if j == forced {
                    let (name, x) = match rng.usize(8) {
                        0 => ("1.2L", 1.2 * domain[j]),
                        1 => ("-0.1L", -0.1 * domain[j]),
                        2 => ("7L+0.3", 7.0 * domain[j] + 0.3),
                        3 => ("L", domain[j]),
                        4 => ("-L", -domain[j]),
                        5 => ("-1e-20", -1e-20),
                        _ => {
                            let wch = rng.usize(N_ADV);
                            adv_coord(&mut rng, domain[j], wch)
                        }
                    };
                    p[j] = x;
                    lab.push(name);
                } else {
                    p[j] = ord_coord(&mut rng, domain[j]);
                }
            }
            let uuid = rng.uuid();
            let data = Some(7000 + step as i64);
            let vtx = crate::api::mk_vertex::<i32, D>(p, uuid, data);
            let res = guard(|| dt.insert(vtx).map(|_| ()).map_err(|e| e.to_string()));
            match res {
                Err(pi) => {
                    rep.base["insert"] = json!({"point": pts_json(&[p]), "labels": lab});
                    rep.panic(&pi, "insert on toroidal triangulation");
                    break;
                }
                Ok(Err(e)) => rep.out.count(&format!("insert/err/{}", err_prefix(&e))),
                Ok(Ok(())) => {
                    rep.out.count("insert/ok");
                    for l in &lab {
                        rep.out.count(&format!("insert/label/{}", l));
                    }
                    let mi = RefModel::from_dt(&dt);
                    let Some(sv) = mi.verts.iter().find(|v| v.uuid == uuid) else {
                        rep.violation("insert/ok-but-vertex-absent", format!("insert({:?}) returned Ok but no vertex with its UUID exists", p), json!({"point": pts_json(&[p])}));
                        continue;
                    };
                    if sv.data != data {
                        rep.violation("insert/data-changed", format!("inserted data {:?}, stored {:?}", data, sv.data), json!({"point": pts_json(&[p])}));
                    }
                    let saved = rep.base.clone();
                    rep.base["insert"] = json!({"point": pts_json(&[p]), "labels": lab, "step": step});
                    // "not wrapped": on an axis where the input is outside the box the stored value is
                    // outside the box too and equals the raw input up to the insertion perturbation
                    // (<= (j+1) 1e-8 x distance to the nearest vertex <= 1e-6 x (|input| + box))
                    let mag = p.iter().fold(maxl.max(1.0), |a, x| a.max(x.abs()));
                    // the input must be outside the box by clearly more than the perturbation,
                    // otherwise "stored = wrapped image pushed out by the perturbation" (reported
                    // as outside-box/perturbed) cannot be told apart from "never wrapped"
                    let dist_out = |x: f64, l: f64| if x < 0.0 { -x } else if x >= l { x - l } else { 0.0 };
                    let unwrapped_axis = (0..D).find(|&j| dist_out(p[j], domain[j]) > 4e-6 * mag && !in_box(sv.p[j], domain[j]) && (sv.p[j] - p[j]).abs() <= 1e-6 * mag);
                    let all_in = if let Some(j) = unwrapped_axis {
                        let identical = (0..D).all(|a| sv.p[a].to_bits() == p[a].to_bits());
                        rep.out.count(if identical { "insert/not_wrapped/bit_identical" } else { "insert/not_wrapped/perturbed" });
                        rep.violation(
                            "insert/not-wrapped",
                            format!(
                                "insert({:?}) on a .toroidal({:?}) triangulation returned Ok and the vertex is stored at {:?}: axis {} is outside [0, {:e}) and {} the raw input instead of its wrapped image",
                                p, domain, sv.p, j, domain[j], if identical { "bit-identical to" } else { "within the insertion perturbation of" }
                            ),
                            json!({"axis": j, "input": pts_json(&[p]), "stored": pts_json(&[sv.p]), "bit_identical": identical}),
                        );
                        false
                    } else {
                        judge_point(&mut rep, "insert", &domain, &p, &sv.p, extra, "perturbed").0
                    };
                    rep.base = saved;
                    if all_in {
                        rep.out.count("insert/stored_in_box");
                    } else {
                        rep.out.count("insert/stored_outside_box");
                    }
                    if unwrapped_axis.is_some() {
                        // the triangulation now contains a vertex outside the box; later insertions
                        // would only show consequences of that (huge local perturbation scales)
                        break;
                    }
                }
            }
        }
    }
    if rep.out.samples.len() < 3 {
        let s = json!({"kind": "wrap", "D": D, "kernel": kn.name(), "domain": domain.to_vec(), "n_in": inp.len(), "n_out": m.verts.len(), "n_adv": w.n_adv});
        rep.out.sample(s);
    }
}

// =============================================================================================
// Periodic mode (D = 2)
// =============================================================================================

fn periodic_case<K>(ctx: &Ctx, out: &mut Out, cs: u64, kn: Kn)
where
    K: Kernel<2, Scalar = f64>,
{
    const D: usize = 2;
    let mut rng = Rng::new(cs);
    let thorough = ctx.tier == Tier::Thorough;
    out.eval();
    // one case in four is "plain": unit square or a moderate dyadic-friendly box, ordinary points strictly
    // inside the box only (the documented use)
    let plain = rng.chance(1, 4);
    let domain = if !plain {
        pick_domain::<D>(&mut rng)
    } else if rng.bool() {
        [1.0; D]
    } else {
        [*rng.pick(&[1.0, 2.0, 0.5, 3.0, 7.0]), *rng.pick(&[1.0, 2.0, 0.5, 3.0, 7.0])]
    };
    let n_adv = if plain { 0 } else { rng.usize(3) };
    let n_tot = if rng.chance(1, 12) { 2 + rng.usize(3) } else { 5 + rng.usize(if thorough { 16 } else { 8 }) };
    let n_ord = n_tot.saturating_sub(n_adv).max(1);
    let mut w = gen_points::<D>(&mut rng, domain, n_ord, n_adv);
    if plain {
        // undo the integer shifts: every point strictly inside the box
        for (p, lab) in w.pts.iter_mut().zip(w.labels.iter_mut()) {
            for j in 0..D {
                p[j] -= (p[j] / domain[j]).floor() * domain[j];
            }
            lab.clear();
        }
    }
    out.count(if plain { "periodic/cases_plain" } else { "periodic/cases_adversarial" });
    let inp = tri::mk_inputs(&mut rng, &w.pts);
    let gu = *rng.pick(&GUARANTEES);
    let opts = if rng.chance(3, 4) { Opts::default_like() } else { Opts::random(&mut rng) };
    let base = json!({
        "property": P, "kind": "periodic", "case_seed": cs.to_string(), "D": D, "kernel": kn.name(), "plain": plain,
        "domain": dom_json(&domain), "guarantee": format!("{:?}", gu), "options": opts.describe(),
        "points": pts_json(&w.pts), "labels": w.labels,
    });
    let t0 = std::time::Instant::now();
    let built = build_toroidal::<K, D>(&inp, domain, true, gu, &opts);
    let ms = t0.elapsed().as_millis() as u64;
    out.add("periodic/build_ms", ms);
    out.max("periodic/build_ms_max", ms);
    let mut rep = Reporter { out, base, seen: HashSet::new() };
    let dt = match built {
        Ok(Ok(dt)) => dt,
        Ok(Err(e)) => {
            rep.out.count(&format!("periodic/build_err/{}/{}", kn.name(), err_prefix(&e)));
            return;
        }
        Err(pi) => {
            rep.panic(&pi, "toroidal_periodic build");
            return;
        }
    };
    rep.out.count(&format!("periodic/build_ok/{}/{}", kn.name(), if plain { "plain" } else { "adversarial" }));
    let m = RefModel::from_dt(&dt);
    if m.verts.len() > D + 2 && w.n_adv > 0 {
        rep.out.nontrivial(&cs.to_string());
    }
    let mut ok_all = true;
    if std::env::var("DVERIF_DEBUG").is_ok() {
        for v in &m.verts {
            eprintln!("v {:?} {:?} {:?}", v.key, v.p, inp.iter().position(|i| i.uuid == v.uuid));
        }
        for c in &m.cells {
            eprintln!("c {:?} v {:?} off {:?} nb {:?}", c.key, c.v, c.offsets, c.nb);
        }
    }

    // edge classes of the quotient complex: (vertex pair, relative lattice offset) -> incident (cell, opposite slot)
    type EdgeKey = (u64, u64, [i16; 2]);
    let offsets_ok = !m.cells.is_empty() && m.cells.iter().all(|c| c.offsets.as_ref().map(|o| o.len() == D + 1).unwrap_or(false) && c.v.len() == D + 1);
    let mut classes: BTreeMap<EdgeKey, Vec<(usize, usize)>> = BTreeMap::new();
    if offsets_ok {
        for (ci, c) in m.cells.iter().enumerate() {
            let off = c.offsets.as_ref().unwrap();
            for i in 0..=D {
                for j in i + 1..=D {
                    let (a, b) = (crate::model::vk_u64(c.v[i]), crate::model::vk_u64(c.v[j]));
                    let mut rel = [0i16; D];
                    for k in 0..D {
                        rel[k] = off[j][k] as i16 - off[i][k] as i16;
                    }
                    let key = if a < b {
                        (a, b, rel)
                    } else if a > b {
                        (b, a, rel.map(|x| -x))
                    } else {
                        // loop edge: the class of offset o equals the class of -o
                        let neg = rel.map(|x| -x);
                        (a, b, if rel < neg { neg } else { rel })
                    };
                    classes.entry(key).or_default().push((ci, 3 - i - j));
                }
            }
        }
    } else {
        rep.out.count("periodic/not_judged/offsets_absent");
    }

    // (a) no boundary facets: no empty neighbour slot, and (with lattice offsets) no edge class with a
    // single incident triangle. A slot that points back to its own cell does not close a facet.
    let mut none_slots = 0usize;
    let mut self_slots = 0usize;
    for c in &m.cells {
        match &c.nb {
            None => none_slots += D + 1,
            Some(nb) => {
                none_slots += nb.iter().filter(|x| x.is_none()).count() + (D + 1).saturating_sub(nb.len());
                self_slots += nb.iter().filter(|x| **x == Some(c.key)).count();
            }
        }
    }
    rep.out.add("periodic/self_neighbour_slots", self_slots as u64);
    if none_slots > 0 {
        ok_all = false;
        rep.violation("periodic/boundary-facet", format!("{} neighbour slots of the periodic result are empty (boundary facets)", none_slots), json!({"empty_slots": none_slots, "cells": m.cells.len()}));
    }
    let v = m.verts.len() as i64;
    let f = m.cells.len() as i64;
    if offsets_ok {
        let one_sided: Vec<(usize, usize)> = classes.values().filter(|inc| inc.len() == 1).map(|inc| inc[0]).collect();
        let over: usize = classes.values().filter(|inc| inc.len() > 2).count();
        if !one_sided.is_empty() {
            ok_all = false;
            let self_ptr = one_sided.iter().filter(|(ci, k)| m.cells[*ci].nb.as_ref().and_then(|n| n.get(*k).copied().flatten()) == Some(m.cells[*ci].key)).count();
            let sig = if self_ptr == one_sided.len() { "periodic/boundary-facet/self-neighbour" } else { "periodic/boundary-facet/one-sided" };
            let (ci, k) = one_sided[0];
            rep.violation(
                sig,
                format!(
                    "{} edges of the periodic result (V = {}, F = {}) are incident to a single triangle, i.e. are boundary facets; {} of them are disguised by a neighbour slot that points back to the cell itself (e.g. cell {:?} slot {}, vertices {:?}, offsets {:?})",
                    one_sided.len(), v, f, self_ptr, m.cells[ci].key, k, m.cells[ci].v, m.cells[ci].offsets
                ),
                json!({"V": v, "F": f, "E_classes": classes.len(), "one_sided_edges": one_sided.len(), "of_which_self_neighbour_slots": self_ptr}),
            );
        } else {
            rep.out.count("periodic/closed");
        }
        if over > 0 {
            ok_all = false;
            rep.violation("periodic/structure/edge-overshared", format!("{} edge classes are shared by more than two triangles", over), json!({"overshared": over}));
        }
        // evidence for the reading of the offsets: the lifted triangles of a closed periodic
        // triangulation tile the torus, so their areas add up to L0 * L1
        let mut twice_area = 0.0f64;
        let mut flat = 0usize;
        for c in &m.cells {
            let off = c.offsets.as_ref().unwrap();
            let Some(cp) = m.cell_points(c) else { continue };
            let lifted: Vec<[f64; D]> = (0..=D).map(|i| [cp[i][0] + off[i][0] as f64 * domain[0], cp[i][1] + off[i][1] as f64 * domain[1]]).collect();
            let d = crate::exact::orient_det(&lifted).approx();
            if d == 0.0 {
                flat += 1;
            }
            twice_area += d.abs();
        }
        let want = 2.0 * domain[0] * domain[1];
        let ratio = twice_area / want;
        rep.out.count(if (ratio - 1.0).abs() <= 1e-6 { "periodic/area/equals_domain" } else if ratio < 1.0 { "periodic/area/deficit" } else { "periodic/area/excess" });
        if flat > 0 {
            rep.out.add("periodic/flat_lifted_cells", flat as u64);
        }
        if one_sided.is_empty() && over == 0 && (ratio - 1.0).abs() > 1e-6 {
            rep.out.count("periodic/area/closed_but_area_differs");
        }
    }

    // (b) Euler characteristic of the quotient surface: E = number of edge classes; without lattice
    // offsets E = 3F/2 (closed surface)
    {
        let e_formula = if (3 * f) % 2 == 0 { Some(3 * f / 2) } else { None };
        let e = if offsets_ok { Some(classes.len() as i64) } else { e_formula };
        match e {
            Some(e) if v - e + f == 0 => rep.out.count("periodic/chi_zero"),
            _ => {
                ok_all = false;
                rep.violation(
                    "periodic/chi",
                    format!("V = {}, E = {:?} ({}), F = {}: Euler characteristic V - E + F = {:?}, expected 0", v, e, if offsets_ok { "distinct edge classes" } else { "3F/2" }, f, e.map(|e| v - e + f)),
                    json!({"V": v, "E": e, "F": f, "E_if_closed": e_formula}),
                );
            }
        }
        if e_formula.map(|e| v - e + f == 0).unwrap_or(false) {
            rep.out.count("periodic/F_equals_2V");
        }
    }

    // (c) structure
    {
        let mut fails = refcheck::check_l1(&m);
        fails.extend(refcheck::check_l2(&m));
        if !fails.is_empty() {
            ok_all = false;
            let first = fails[0].clone();
            let words: String = first.split_whitespace().filter(|w| w.chars().all(|c| c.is_ascii_alphabetic() || c == '-' || c == '_')).take(4).collect::<Vec<_>>().join("-");
            rep.violation(&format!("periodic/structure/{}", words), format!("{} structural failures, first: {}", fails.len(), first), json!({"failures": fails.iter().take(6).collect::<Vec<_>>()}));
        }
    }

    // (d) vertex set
    {
        let seen_before = rep.seen.len();
        let by_uuid = judge_identity(&mut rep, "periodic", &m, &inp);
        // distinctness of the inputs modulo the periods (toroidal separation > 1e-6 L per point pair)
        let rems: Vec<Option<[f64; D]>> = inp
            .iter()
            .map(|i| {
                let mut r = [0.0; D];
                for j in 0..D {
                    r[j] = exact_rem(i.p[j], domain[j])?.approx();
                }
                Some(r)
            })
            .collect();
        let mut separated = rems.iter().all(|r| r.is_some());
        if separated {
            'outer: for a in 0..inp.len() {
                for b in a + 1..inp.len() {
                    let (ra, rb) = (rems[a].unwrap(), rems[b].unwrap());
                    let close = (0..D).all(|j| {
                        let d = (ra[j] - rb[j]).abs();
                        d.min(domain[j] - d) <= 1e-6 * domain[j]
                    });
                    if close {
                        separated = false;
                        break 'outer;
                    }
                }
            }
        }
        let present: HashSet<Uuid> = m.verts.iter().map(|v| v.uuid).collect();
        let missing: Vec<usize> = inp.iter().enumerate().filter(|(_, i)| !present.contains(&i.uuid)).map(|(k, _)| k).collect();
        if !missing.is_empty() {
            if separated {
                ok_all = false;
                rep.violation(
                    "periodic/vertex-set/missing",
                    format!("{} of {} inputs (pairwise distinct modulo the periods) are absent from the successful periodic result, e.g. input {} = {:?}", missing.len(), inp.len(), missing[0], inp[missing[0]].p),
                    json!({"missing_inputs": missing}),
                );
            } else {
                rep.out.count("periodic/not_judged/missing_but_inputs_not_separated");
            }
        } else {
            rep.out.count("periodic/all_inputs_present");
        }
        // coordinates: wrapped inputs up to the documented 2^20 grid units of 2^-52 L
        for vx in &m.verts {
            let Some(&i) = by_uuid.get(&vx.uuid) else { continue };
            let maxl = domain.iter().cloned().fold(0.0, f64::max);
            // the periodic builder moves every canonical point by at most 2^20 units of 2^-52 L
            let grid = (1048576.0 + 4.0) * 2f64.powi(-52) * maxl;
            judge_point(&mut rep, "periodic", &domain, &inp[i].p, &vx.p, grid.max(1e-7 * maxl.max(1.0)), "perturbed");
        }
        if rep.seen.len() != seen_before {
            ok_all = false;
        }
    }

    // (e) the library's own Level 2 verdict (evidence only)
    match guard(|| dt.tds().is_valid().map_err(|e| e.to_string())) {
        Ok(Ok(())) => rep.out.count("periodic/lib_is_valid/ok"),
        Ok(Err(e)) => {
            rep.out.count("periodic/lib_is_valid/err");
            if ok_all {
                rep.out.count("periodic/lib_is_valid_rejects");
                rep.out.count(&format!("periodic/lib_is_valid_rejects/{}", err_prefix(&e)));
            }
        }
        Err(pi) => rep.panic(&pi, "tds().is_valid() on periodic result"),
    }
    if ok_all {
        rep.out.count("periodic/all_checks_pass");
    }
    if rep.out.samples.len() < 4 && rep.out.samples.iter().all(|s| s["kind"] != "periodic") {
        let s = json!({"kind": "periodic", "kernel": kn.name(), "domain": domain.to_vec(), "n_in": inp.len(), "V": m.verts.len(), "F": m.cells.len(), "build_ms": ms});
        rep.out.sample(s);
    }
}

// =============================================================================================
// Pure wrapping functions
// =============================================================================================

fn fn_case(ctx: &Ctx, out: &mut Out, cs: u64) {
    let mut rng = Rng::new(cs);
    out.eval();
    let n = if ctx.tier == Tier::Thorough { 4000 } else { 1500 };
    let base = json!({"property": P, "kind": "fn", "case_seed": cs.to_string(), "D": 2, "kernel": "fast"});
    let mut rep = Reporter { out, base, seen: HashSet::new() };
    let mut labels_seen: BTreeSet<&'static str> = BTreeSet::new();
    for _ in 0..n {
        let l = match rng.usize(8) {
            0 => *rng.pick(&[1e-300, 1e300, 5e-324, 2.2250738585072014e-308, 1e-12, 1e12]),
            1 => (1 + rng.below(1 << 20)) as f64 / 1024.0,
            2 => rng.f64() + 1e-3,
            _ => *rng.pick(&PERIODS),
        };
        let (label, x) = if rng.chance(1, 4) {
            let k = rng.range_i64(-1000, 1000) as f64;
            ("ordinary", (k + rng.f64()) * l)
        } else {
            let wch = rng.usize(N_ADV);
            adv_coord(&mut rng, l, wch)
        };
        if !x.is_finite() {
            continue;
        }
        labels_seen.insert(label);
        let Some(r) = exact_rem(x, l) else {
            rep.out.count("fn/not_judged/exact_remainder_unavailable");
            continue;
        };
        let space = ToroidalSpace::<2>::new([l, 1.0]);
        // wrap_coord
        let w1 = match guard(|| space.wrap_coord::<f64>(0, x)) {
            Ok(w) => w,
            Err(pi) => {
                rep.base["detail"] = json!({"x": x, "period": l});
                rep.panic(&pi, "wrap_coord");
                continue;
            }
        };
        // canonicalize_point (slice API) must agree with wrap_coord
        let mut buf = [x, 0.25];
        if let Err(pi) = guard(|| space.canonicalize_point(&mut buf)) {
            rep.panic(&pi, "canonicalize_point");
            continue;
        }
        let Some(w1) = w1 else {
            rep.violation("fn/wrap_coord/none-on-valid-input", format!("wrap_coord(0, {:e}) with period {:e} returned None", x, l), json!({"x": x, "x_bits": format!("{:016x}", x.to_bits()), "period": l}));
            continue;
        };
        rep.out.count("fn/judged");
        if buf[0].to_bits() != w1.to_bits() {
            rep.out.count("fn/canonicalize_point_differs_from_wrap_coord");
        }
        let detail = json!({"x": x, "x_bits": format!("{:016x}", x.to_bits()), "period": l, "period_bits": format!("{:016x}", l.to_bits()), "wrapped": w1, "wrapped_bits": format!("{:016x}", w1.to_bits()), "exact_remainder": r.to_string_hex(), "label": label});
        let c = congruence(w1, x, l, &r, 0.0);
        rep.out.count(&format!("fn/coord/{}", c.name()));
        if !in_box(w1, l) {
            let sig = if w1 == l { "fn/wrap_coord/outside-box/equals-period" } else { "fn/wrap_coord/outside-box" };
            rep.violation(sig, format!("wrap_coord({:e}) with period {:e} = {:e}, outside [0, L)", x, l, w1), detail.clone());
        }
        if c == Cong::No {
            rep.violation("fn/wrap_coord/not-congruent", format!("wrap_coord({:e}) with period {:e} = {:e}, exact remainder ~{:e}", x, l, w1, r.approx()), detail.clone());
        }
        // idempotence
        match guard(|| space.wrap_coord::<f64>(0, w1)) {
            Ok(Some(w2)) => {
                if w2.to_bits() != w1.to_bits() && !(w2 == 0.0 && w1 == 0.0) {
                    let sig = if w1 == l { "fn/wrap_coord/not-idempotent/equals-period" } else { "fn/wrap_coord/not-idempotent" };
                    rep.violation(sig, format!("wrap(wrap({:e})) = {:e} differs from wrap({:e}) = {:e} (period {:e})", x, w2, x, w1, l), detail.clone());
                } else {
                    rep.out.count("fn/idempotent");
                }
            }
            Ok(None) => rep.violation("fn/wrap_coord/none-on-valid-input", format!("wrap_coord(0, {:e}) with period {:e} returned None", w1, l), detail.clone()),
            Err(pi) => rep.panic(&pi, "wrap_coord (second application)"),
        }
    }
    // invalid periods: wrap_coord must refuse
    for bad in [0.0, -0.0, -1.0, f64::NAN, f64::INFINITY, f64::NEG_INFINITY] {
        let space = ToroidalSpace::<2>::new([bad, 1.0]);
        match guard(|| space.wrap_coord::<f64>(0, 0.75)) {
            Ok(None) => rep.out.count("fn/invalid_period_refused"),
            Ok(Some(w)) => rep.violation("fn/wrap_coord/invalid-period-accepted", format!("wrap_coord with period {:?} returned {:?}", bad, w), json!({"period": format!("{:?}", bad)})),
            Err(pi) => rep.panic(&pi, "wrap_coord with invalid period"),
        }
    }
    rep.out.max("fn/labels_seen", labels_seen.len() as u64);
}

// =============================================================================================
// Dispatch
// =============================================================================================

#[derive(Clone, Copy, Debug, PartialEq, Eq)]
enum Kind {
    Wrap,
    Periodic,
    Fn,
}

impl Kind {
    fn name(self) -> &'static str {
        match self {
            Kind::Wrap => "wrap",
            Kind::Periodic => "periodic",
            Kind::Fn => "fn",
        }
    }
}

fn run_case(ctx: &Ctx, out: &mut Out, cs: u64, kind: Kind, d: usize, kn: Kn) {
    match (kind, d, kn) {
        (Kind::Fn, _, _) => fn_case(ctx, out, cs),
        (Kind::Periodic, _, Kn::Fast) => periodic_case::<FastKernel<f64>>(ctx, out, cs, kn),
        (Kind::Periodic, _, Kn::Robust) => periodic_case::<RobustKernel<f64>>(ctx, out, cs, kn),
        (Kind::Wrap, 3, Kn::Fast) => wrap_case::<FastKernel<f64>, 3>(ctx, out, cs, kn),
        (Kind::Wrap, 3, Kn::Robust) => wrap_case::<RobustKernel<f64>, 3>(ctx, out, cs, kn),
        (Kind::Wrap, _, Kn::Fast) => wrap_case::<FastKernel<f64>, 2>(ctx, out, cs, kn),
        (Kind::Wrap, _, Kn::Robust) => wrap_case::<RobustKernel<f64>, 2>(ctx, out, cs, kn),
    }
}

pub fn run(ctx: &Ctx, out: &mut Out) {
    if let Some(doc) = &ctx.replay {
        if let Some(cs) = ctx.replay_seed() {
            let kind = match doc["kind"].as_str().unwrap_or("wrap") {
                "periodic" => Kind::Periodic,
                "fn" => Kind::Fn,
                _ => Kind::Wrap,
            };
            let d = doc["D"].as_u64().unwrap_or(2) as usize;
            let kn = Kn::from_name(doc["kernel"].as_str().unwrap_or("fast")).unwrap_or(Kn::Fast);
            run_case(ctx, out, cs, kind, d, kn);
        } else {
            out.inconclusive("bad replay document");
        }
        return;
    }
    let cap = (if ctx.tier == Tier::Thorough { 400_000.0 } else { 6_000.0 } * ctx.scale) as u64;
    let mut i = 0u64;
    let mut periodic_s = 0.0f64;
    while i < cap && !ctx.out_of_time() {
        let cs = ctx.case_seed(i);
        i += 1;
        let kn = if (cs >> 3) & 1 == 0 { Kn::Fast } else { Kn::Robust };
        let mut kind = match (cs >> 8) % 16 {
            0 => Kind::Fn,
            1..=4 => Kind::Periodic,
            _ => Kind::Wrap,
        };
        // the periodic mode is slow: it may use at most half of the budget
        if kind == Kind::Periodic && periodic_s > 0.5 * ctx.budget_s {
            out.count("periodic/skipped_time_cap");
            kind = Kind::Wrap;
        }
        let d = if kind == Kind::Wrap && (cs >> 5) % 3 == 0 { 3 } else { 2 };
        out.count(&format!("cases/{}", kind.name()));
        let t0 = std::time::Instant::now();
        run_case(ctx, out, cs, kind, d, kn);
        if kind == Kind::Periodic {
            periodic_s += t0.elapsed().as_secs_f64();
        }
    }
}
