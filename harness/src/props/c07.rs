//! C07 — bistellar flips are manifold-preserving, exactly invertible edits.

use crate::api::Kn;
use crate::common::{Ctx, Out, Tier};
use crate::r#gen::{self as g, Family};
use crate::hist::{self, FlipData, Memory, Mix, Op, Res};
use crate::model::{RefModel, ck_u64, vk_u64};
use crate::refcheck::{self, facet_map};
use crate::rng::Rng;
use crate::tri::{self, Dt, GUARANTEES, Opts};
use delaunay::core::triangulation_data_structure::{CellKey, VertexKey};
use delaunay::geometry::kernel::{FastKernel, Kernel, RobustKernel};
use serde_json::{Value, json};
use std::collections::BTreeSet;

const P: &str = "C07";

fn cellset<const D: usize>(m: &RefModel<D>) -> BTreeSet<Vec<u64>> {
    m.cells_as_keys().into_iter().collect()
}

fn boundary_facets<const D: usize>(m: &RefModel<D>) -> BTreeSet<Vec<u64>> {
    facet_map(m).into_iter().filter(|(_, inc)| inc.len() == 1).map(|(f, _)| f).collect()
}

fn delta_for<const D: usize>(op: &Op<D>) -> Option<i64> {
    let d = D as i64;
    match op {
        Op::FlipK1Insert { .. } => Some(d),
        Op::FlipK1Remove { .. } => Some(-d),
        Op::FlipK2 { .. } => Some(d - 2),
        Op::FlipK3 { .. } => Some(d - 4),
        Op::FlipK2Inv { .. } => Some(2 - d),
        Op::FlipK3Inv { .. } => Some(4 - d),
        _ => None,
    }
}

fn is_k1<const D: usize>(op: &Op<D>) -> bool {
    matches!(op, Op::FlipK1Insert { .. } | Op::FlipK1Remove { .. })
}

/// All checks on one successful flip. Returns (signature suffix, description) pairs.
pub fn check_flip<const D: usize>(op: &Op<D>, info: &FlipData, pre: &RefModel<D>, post: &RefModel<D>) -> Vec<(String, String)> {
    let mut v: Vec<(String, String)> = Vec::new();
    // element + structural levels
    let l1 = refcheck::check_l1(post);
    let l2 = refcheck::check_l2(post);
    if !l1.is_empty() {
        v.push(("L1".into(), l1[0].clone()));
    }
    if !l2.is_empty() {
        v.push(("L2".into(), l2.iter().take(2).cloned().collect::<Vec<_>>().join("; ")));
    }
    if !v.is_empty() {
        return v;
    }
    let l3a = refcheck::check_l3(pre, None);
    let l3b = refcheck::check_l3(post, None);
    if l3a.facet_degree.is_empty() && !l3b.facet_degree.is_empty() {
        v.push(("facet-degree".into(), l3b.facet_degree[0].clone()));
    }
    if l3a.closed_boundary.is_empty() && !l3b.closed_boundary.is_empty() {
        v.push(("closed-boundary".into(), l3b.closed_boundary[0].clone()));
    }
    if l3a.connected.is_empty() && !l3b.connected.is_empty() {
        v.push(("connectedness".into(), l3b.connected[0].clone()));
    }
    if l3a.chi != l3b.chi {
        v.push(("euler".into(), format!("Euler characteristic changed from {} to {}", l3a.chi, l3b.chi)));
    }
    if !is_k1(op) {
        if boundary_facets(pre) != boundary_facets(post) {
            v.push(("boundary-set".into(), "the set of boundary facets changed".into()));
        }
        let a: BTreeSet<u64> = pre.verts.iter().map(|x| vk_u64(x.key)).collect();
        let b: BTreeSet<u64> = post.verts.iter().map(|x| vk_u64(x.key)).collect();
        if a != b {
            v.push(("vertex-set".into(), "the vertex set changed under a k>=2 move".into()));
        }
    } else {
        let dv = post.verts.len() as i64 - pre.verts.len() as i64;
        let want = if matches!(op, Op::FlipK1Insert { .. }) { 1 } else { -1 };
        if dv != want {
            v.push(("vertex-count".into(), format!("vertex count changed by {} (expected {})", dv, want)));
        }
    }
    // cell count
    let dc = post.cells.len() as i64 - pre.cells.len() as i64;
    if let Some(want) = delta_for(op) {
        if dc != want {
            v.push(("cell-delta".into(), format!("cell count changed by {} but {} prescribes {}", dc, op.kind(), want)));
        }
    }
    // FlipInfo vs state diff
    let removed: BTreeSet<u64> = pre.cells.iter().filter(|c| !post.cidx.contains_key(&c.key)).map(|c| ck_u64(c.key)).collect();
    let created: BTreeSet<u64> = post.cells.iter().filter(|c| !pre.cidx.contains_key(&c.key)).map(|c| ck_u64(c.key)).collect();
    let ir: BTreeSet<u64> = info.removed_cells.iter().map(|k| ck_u64(*k)).collect();
    let ic: BTreeSet<u64> = info.new_cells.iter().map(|k| ck_u64(*k)).collect();
    if ir != removed {
        v.push(("info-removed".into(), format!("FlipInfo.removed_cells {:?} but cells that disappeared are {:?}", ir, removed)));
    }
    if ic != created {
        v.push(("info-new".into(), format!("FlipInfo.new_cells {:?} but cells that appeared are {:?}", ic, created)));
    }
    if info.removed_cells.len() != ir.len() || info.new_cells.len() != ic.len() {
        v.push(("info-duplicates".into(), "FlipInfo lists a cell twice".into()));
    }
    // faces: every removed cell contains the removed face; every new cell contains the inserted face;
    // removed cells = star of removed face in pre; union of vertices = removed_face + inserted_face
    let rf: BTreeSet<VertexKey> = info.removed_face.iter().copied().collect();
    let inf: BTreeSet<VertexKey> = info.inserted_face.iter().copied().collect();
    for k in &info.removed_cells {
        if let Some(c) = pre.cell(*k) {
            if !rf.iter().all(|x| c.v.contains(x)) {
                v.push(("info-removed-face".into(), format!("removed cell {:?} does not contain removed_face_vertices", k)));
                break;
            }
        }
    }
    for k in &info.new_cells {
        if let Some(c) = post.cell(*k) {
            if !inf.iter().all(|x| c.v.contains(x)) {
                v.push(("info-inserted-face".into(), format!("new cell {:?} does not contain inserted_face_vertices", k)));
                break;
            }
            if !c.v.iter().all(|x| rf.contains(x) || inf.contains(x)) {
                v.push(("info-faces-cover".into(), format!("new cell {:?} has a vertex outside removed_face + inserted_face", k)));
                break;
            }
        }
    }
    if info.removed_face.len() + info.inserted_face.len() != D + 2 {
        v.push(("info-face-sizes".into(), format!("|removed_face| + |inserted_face| = {} (expected D+2)", info.removed_face.len() + info.inserted_face.len())));
    }
    v
}

/// Handles through which the move that created `info.inserted_face` can be undone.
fn inverse_ops<const D: usize>(info: &FlipData, post: &RefModel<D>) -> Vec<Op<D>> {
    let f = &info.inserted_face;
    let mut ops = Vec::new();
    let m = f.len();
    if m == 1 {
        ops.push(Op::FlipK1Remove { vertex: f[0], how: "inverse" });
        return ops;
    }
    // a new cell containing the face
    let host = info.new_cells.iter().filter_map(|k| post.cell(*k)).find(|c| f.iter().all(|x| c.v.contains(x)));
    if m == D {
        if let Some(c) = host {
            if let Some(idx) = c.v.iter().position(|x| !f.contains(x)) {
                ops.push(Op::FlipK2 { cell: c.key, idx: idx as u8, how: "inverse" });
            }
        }
    }
    if m + 1 == D && D >= 3 {
        if let Some(c) = host {
            let omit: Vec<usize> = c.v.iter().enumerate().filter(|(_, x)| !f.contains(x)).map(|(i, _)| i).collect();
            if omit.len() == 2 {
                ops.push(Op::FlipK3 { cell: c.key, a: omit[0] as u8, b: omit[1] as u8, how: "inverse" });
            }
        }
    }
    if m == 2 && D >= 3 {
        ops.push(Op::FlipK2Inv { a: f[0], b: f[1], how: "inverse" });
    }
    if m == 3 && D >= 4 {
        ops.push(Op::FlipK3Inv { a: f[0], b: f[1], c: f[2], how: "inverse" });
    }
    ops
}

struct Env<'a> {
    base: &'a Value,
    d: usize,
}

/// Applies `op` to a clone of `dt`; on success checks the flip and its inverse round trip.
fn try_op<K, const D: usize>(dt: &Dt<K, D>, pre: &RefModel<D>, op: &Op<D>, out: &mut Out, env: &Env, history: &[Value]) -> Option<(Dt<K, D>, RefModel<D>)>
where
    K: Kernel<D, Scalar = f64>,
{
    let mut c = dt.clone();
    let res = hist::apply(&mut c, op);
    let mk_rp = |extra: Value| {
        let mut rp = env.base.clone();
        rp["history"] = json!(history);
        rp["op"] = op.to_json();
        rp["detail"] = extra;
        rp
    };
    let res = match res {
        Ok(r) => r,
        Err(pi) => {
            out.panic(P, &pi, op.kind(), mk_rp(json!(null)));
            return None;
        }
    };
    out.count(&format!("op/{}/{}/{}", op.kind(), op.how(), res.label()));
    let Res::Flip(info) = &res else { return None };
    let post = RefModel::from_dt(&c);
    let problems = check_flip(op, info, pre, &post);
    for (sig, desc) in &problems {
        out.violation(P, &format!("D{}/{}/{}", env.d, op.kind(), sig), format!("{} succeeded but: {}", op.kind(), desc), mk_rp(json!({"flip_info": format!("{:?}", info)})));
    }
    if !problems.is_empty() {
        return Some((c, post));
    }
    // inverse round trip
    let want = cellset(pre);
    // judge the inverse only when the original cells are decidedly non-degenerate
    let originals_ok = info.removed_cells.iter().all(|k| {
        pre.cell(*k).and_then(|cl| pre.cell_points(cl)).map(|p| matches!(crate::exact::classify(&crate::exact::orient_det(&p), crate::exact::tol_orient(&p), crate::exact::err_orient(&p)), crate::exact::Band::Decided(_))).unwrap_or(false)
    });
    for inv in inverse_ops(info, &post) {
        let mut c2 = c.clone();
        match hist::apply(&mut c2, &inv) {
            Err(pi) => out.panic(P, &pi, inv.kind(), mk_rp(json!({"inverse": inv.to_json()}))),
            Ok(Res::Flip(_)) => {
                let back = RefModel::from_dt(&c2);
                out.count(&format!("inverse/{}->{}/restored_checked", op.kind(), inv.kind()));
                if cellset(&back) != want {
                    out.violation(P, &format!("D{}/{}/inverse-differs", env.d, op.kind()), format!("{} followed by {} on the created face does not restore the original set of cells", op.kind(), inv.kind()), mk_rp(json!({"inverse": inv.to_json()})));
                }
                if is_k1(op) && matches!(op, Op::FlipK1Insert { .. }) && back.verts.len() != pre.verts.len() {
                    out.violation(P, &format!("D{}/{}/inverse-vertexcount", env.d, op.kind()), "k=1 insert + remove does not restore the vertex count".into(), mk_rp(json!({"inverse": inv.to_json()})));
                }
            }
            Ok(other) => {
                out.count(&format!("inverse/{}->{}/{}", op.kind(), inv.kind(), other.label()));
                if originals_ok {
                    let e = if let Res::Err { error, .. } = &other { error.clone() } else { other.label() };
                    out.violation(P, &format!("D{}/{}/inverse-refused", env.d, op.kind()), format!("{} succeeded but the inverse {} on the created face was refused: {}", op.kind(), inv.kind(), e), mk_rp(json!({"inverse": inv.to_json()})));
                } else {
                    out.count("inverse/not_judged_degenerate_originals");
                }
            }
        }
    }
    Some((c, post))
}

fn every_handle<K, const D: usize>(dt: &Dt<K, D>, m: &RefModel<D>, rng: &mut Rng, out: &mut Out, env: &Env, cap: usize)
where
    K: Kernel<D, Scalar = f64>,
{
    let mut ops: Vec<Op<D>> = Vec::new();
    for c in &m.cells {
        for i in 0..=(D + 1) {
            ops.push(Op::FlipK2 { cell: c.key, idx: i as u8, how: if i <= D { "every-facet" } else { "out-of-range" } });
        }
        ops.push(Op::FlipK2 { cell: c.key, idx: 255, how: "out-of-range" });
        // also in D = 2, where the move does not exist: every such call must be refused without a trace
        if D >= 2 {
            for a in 0..=D {
                for b in a..=D {
                    ops.push(Op::FlipK3 { cell: c.key, a: a as u8, b: b as u8, how: if a == b { "equal-omits" } else { "every-ridge" } });
                }
            }
        }
        // k=1 insert: inside (weighted centroid), on a facet (centroid of D vertices), outside
        if let Some(pts) = m.cell_points(c) {
            let mut inside = [0.0; D];
            for j in 0..D {
                inside[j] = pts.iter().map(|p| p[j]).sum::<f64>() / (D as f64 + 1.0);
            }
            ops.push(Op::FlipK1Insert { cell: c.key, p: inside, uuid: rng.uuid(), how: "inside" });
            let mut onf = [0.0; D];
            for j in 0..D {
                onf[j] = (pts[0][j] + pts[1][j]) / 2.0;
            }
            ops.push(Op::FlipK1Insert { cell: c.key, p: onf, uuid: rng.uuid(), how: "on-edge" });
            let mut outside = inside;
            outside[0] += 1000.0;
            ops.push(Op::FlipK1Insert { cell: c.key, p: outside, uuid: rng.uuid(), how: "outside" });
            ops.push(Op::FlipK1Insert { cell: c.key, p: pts[0], uuid: rng.uuid(), how: "at-vertex" });
        }
    }
    for v in &m.verts {
        ops.push(Op::FlipK1Remove { vertex: v.key, how: "every-vertex" });
    }
    if D >= 2 {
        let mut edges: BTreeSet<(u64, u64)> = BTreeSet::new();
        let mut tris: BTreeSet<(u64, u64, u64)> = BTreeSet::new();
        for c in &m.cells {
            for a in 0..c.v.len() {
                for b in a + 1..c.v.len() {
                    let (x, y) = (c.v[a], c.v[b]);
                    if edges.insert((vk_u64(x).min(vk_u64(y)), vk_u64(x).max(vk_u64(y)))) {
                        ops.push(Op::FlipK2Inv { a: x, b: y, how: "every-edge" });
                    }
                    if D >= 2 {
                        for cc in b + 1..c.v.len() {
                            let z = c.v[cc];
                            let mut t = [vk_u64(x), vk_u64(y), vk_u64(z)];
                            t.sort();
                            if tris.insert((t[0], t[1], t[2])) {
                                ops.push(Op::FlipK3Inv { a: x, b: y, c: z, how: "every-triangle" });
                            }
                        }
                    }
                }
            }
        }
        if let Some(v) = m.verts.first() {
            ops.push(Op::FlipK2Inv { a: v.key, b: v.key, how: "equal-endpoints" });
        }
    }
    // null / foreign keys
    ops.push(Op::FlipK2 { cell: CellKey::default(), idx: 0, how: "null-key" });
    ops.push(Op::FlipK1Remove { vertex: VertexKey::default(), how: "null-key" });
    if ops.len() > cap {
        rng.shuffle(&mut ops);
        ops.truncate(cap);
        out.count("every_handle/sampled");
    } else {
        out.count("every_handle/complete");
    }
    out.add("handles_tried", ops.len() as u64);
    for op in &ops {
        let _ = try_op(dt, m, op, out, env, &[]);
    }
}

fn case<K, const D: usize>(ctx: &Ctx, out: &mut Out, cs: u64, kn: Kn)
where
    K: Kernel<D, Scalar = f64>,
{
    let mut rng = Rng::new(cs);
    let thorough = ctx.tier == Tier::Thorough;
    out.eval();
    let fam = *rng.pick(&[Family::Dyadic, Family::Grid, Family::Uniform, Family::Hull, Family::TinyGrid, Family::Sphere]);
    let n = D + 2 + rng.usize(if thorough { 3 * D } else { 2 * D });
    let pts = g::points::<D>(&mut rng, fam, n);
    let inp = tri::mk_inputs(&mut rng, &pts);
    let gu = *rng.pick(&GUARANTEES);
    let dt = match tri::build::<K, D>(&K::default(), &inp, gu, &Opts::default_like()) {
        Ok(Ok(dt)) => dt,
        Ok(Err(_)) => {
            out.count("start/construction_err");
            return;
        }
        Err(pi) => {
            out.panic(P, &pi, "construction", json!({"case_seed": cs.to_string()}));
            return;
        }
    };
    let base = json!({"property": P, "case_seed": cs.to_string(), "D": D, "kernel": kn.name(), "family": fam.name(), "guarantee": format!("{:?}", gu), "points": crate::common::pts_json(&pts)});
    let env = Env { base: &base, d: D };
    let m0 = RefModel::from_dt(&dt);
    if m0.cells.len() >= 2 {
        out.nontrivial(&format!("{}", cs));
    }
    out.count(&format!("D{}/{}", D, fam.name()));
    // Phase A: every handle of the constructed state
    let cap = if thorough { 4000 } else { [0, 0, 400, 500, 400, 300][D] };
    every_handle(&dt, &m0, &mut rng, out, &env, cap);
    // Phase B: random flip walk; each successful flip is checked (incl. inverse) and committed
    let steps = if thorough { 20 + rng.usize(180) } else { 10 + rng.usize(50) };
    let mut cur = dt;
    let mut cur_m = m0;
    let mut mem = Memory::<D> { grid: 0.125, extent: 1.0, ..Default::default() };
    let mut log: Vec<Value> = Vec::new();
    let mut ok_flips = 0;
    for _ in 0..steps {
        if ctx.elapsed() > ctx.budget_s * 1.3 {
            break;
        }
        let op = hist::next_op(&mut rng, &cur_m, &mem, &Mix::flips_mostly());
        if !op.kind().starts_with("flip") {
            continue;
        }
        if let Some((next, next_m)) = try_op(&cur, &cur_m, &op, out, &env, &log) {
            for c in &cur_m.cells {
                if !next_m.cidx.contains_key(&c.key) && mem.stale_cells.len() < 64 {
                    mem.stale_cells.push(c.key);
                }
            }
            for v in &cur_m.verts {
                if !next_m.vidx.contains_key(&v.key) && mem.stale_vertices.len() < 64 {
                    mem.stale_vertices.push(v.key);
                }
            }
            log.push(op.to_json());
            cur = next;
            cur_m = next_m;
            ok_flips += 1;
        }
    }
    out.add("walk/successful_flips", ok_flips);
    out.max("max/walk_length", ok_flips);
    if out.samples.len() < 3 && ok_flips >= 3 {
        out.sample(json!({"D": D, "kernel": kn.name(), "family": fam.name(), "guarantee": format!("{:?}", gu), "start_cells": cur_m.cells.len(), "walk": log.iter().take(10).cloned().collect::<Vec<_>>(), "successful_flips": ok_flips}));
    }
}

pub fn run_case(ctx: &Ctx, out: &mut Out, cs: u64, d: usize, kn: Kn) {
    match (d, kn) {
        (2, Kn::Fast) => case::<FastKernel<f64>, 2>(ctx, out, cs, kn),
        (3, Kn::Fast) => case::<FastKernel<f64>, 3>(ctx, out, cs, kn),
        (4, Kn::Fast) => case::<FastKernel<f64>, 4>(ctx, out, cs, kn),
        (5, Kn::Fast) => case::<FastKernel<f64>, 5>(ctx, out, cs, kn),
        (2, Kn::Robust) => case::<RobustKernel<f64>, 2>(ctx, out, cs, kn),
        (3, Kn::Robust) => case::<RobustKernel<f64>, 3>(ctx, out, cs, kn),
        (4, Kn::Robust) => case::<RobustKernel<f64>, 4>(ctx, out, cs, kn),
        _ => case::<RobustKernel<f64>, 5>(ctx, out, cs, kn),
    }
}

pub fn run(ctx: &Ctx, out: &mut Out) {
    if let Some(doc) = &ctx.replay {
        if let (Some(cs), Some(d)) = (ctx.replay_seed(), doc["D"].as_u64()) {
            let kn = Kn::from_name(doc["kernel"].as_str().unwrap_or("fast")).unwrap_or(Kn::Fast);
            run_case(ctx, out, cs, d as usize, kn);
        } else {
            out.inconclusive("bad replay document");
        }
        return;
    }
    let cap = (if ctx.tier == Tier::Thorough { 100_000.0 } else { 2_000.0 } * ctx.scale) as u64;
    let mut i = 0u64;
    while i < cap && !ctx.out_of_time() {
        let cs = ctx.case_seed(i);
        let d = super::c01::pick_dim(cs >> 7);
        let kn = if (cs >> 3) & 1 == 0 { Kn::Fast } else { Kn::Robust };
        run_case(ctx, out, cs, d, kn);
        i += 1;
    }
}
