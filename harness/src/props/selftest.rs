//! SELFTEST: emits exact decisions (determinant signs, in-sphere signs) for re-decision by
//! oracle_py/recheck.py with python fractions. Covers the i128 and the bigint paths.

use crate::common::{Ctx, Out};
use crate::exact::{self, Dy};
use crate::rng::Rng;
use serde_json::json;

fn hexbits(x: f64) -> String {
    format!("{:016x}", x.to_bits())
}

fn rand_val(rng: &mut Rng, mode: usize) -> f64 {
    match mode {
        0 => rng.range_i64(-9, 9) as f64,
        1 => rng.range_i64(-1024, 1024) as f64 / 1024.0,
        2 => (rng.f64() * 2.0 - 1.0) * 2f64.powi(rng.range_i64(-40, 40) as i32),
        _ => (rng.f64() * 2.0 - 1.0) * 2f64.powi(rng.range_i64(-300, 300) as i32),
    }
}

fn insphere_rec<const D: usize>(rng: &mut Rng, mode: usize) {
    let mut s = vec![[0.0f64; D]; D + 1];
    for p in s.iter_mut() {
        for x in p.iter_mut() {
            *x = rand_val(rng, mode.min(2));
        }
    }
    let mut t = [0.0f64; D];
    for x in t.iter_mut() {
        *x = rand_val(rng, mode.min(2));
    }
    if mode == 0 && rng.bool() {
        // force a cospherical test point: reflect a simplex vertex through... simply reuse a vertex
        t = s[rng.usize(D + 1)];
    }
    let sign = exact::insphere_sign(&s, &t);
    println!(
        "{}",
        json!({"kind": "insphere", "D": D,
            "simplex": s.iter().map(|p| p.iter().map(|&x| hexbits(x)).collect::<Vec<_>>()).collect::<Vec<_>>(),
            "test": t.iter().map(|&x| hexbits(x)).collect::<Vec<_>>(), "sign": sign})
    );
}

pub fn run(ctx: &Ctx, out: &mut Out) {
    let mut rng = Rng::new(ctx.seed ^ 0x5E1F7E57);
    for i in 0..600 {
        let n = 1 + rng.usize(7);
        let mode = i % 4;
        let m: Vec<Vec<f64>> = (0..n).map(|_| (0..n).map(|_| rand_val(&mut rng, mode)).collect()).collect();
        let mut m = m;
        if n >= 2 && i % 5 == 0 {
            // exact singularity: last row = sum of two others (exactly representable for integer mode)
            if mode == 0 {
                for c in 0..n {
                    m[n - 1][c] = m[0][c] + m[n - 2][c];
                }
            }
        }
        let rows: Vec<Vec<Dy>> = m.iter().map(|r| r.iter().map(|&x| Dy::from_f64(x)).collect()).collect();
        let d = exact::det(&rows);
        println!("{}", json!({"kind": "det", "matrix": m.iter().map(|r| r.iter().map(|&x| hexbits(x)).collect::<Vec<_>>()).collect::<Vec<_>>(), "sign": d.sign()}));
        out.eval();
    }
    for i in 0..150 {
        let mode = i % 3;
        insphere_rec::<2>(&mut rng, mode);
        insphere_rec::<3>(&mut rng, mode);
        insphere_rec::<4>(&mut rng, mode);
        insphere_rec::<5>(&mut rng, mode);
        out.eval();
    }
}
