//! C06 — vertex removal yields a valid triangulation minus that vertex, or no change.

use super::c02::{guarantee_of, start_dt, state_failures};
use crate::api::Kn;
use crate::common::{Ctx, Out, Tier};
use crate::fingerprint;
use crate::hist::{self, Mix, Op, Res, Step};
use crate::model::RefModel;
use crate::refcheck;
use crate::rng::Rng;
use crate::tri;
use delaunay::geometry::kernel::{FastKernel, Kernel, RobustKernel};
use serde_json::{Value, json};
use std::collections::BTreeMap;

const P: &str = "C06";

fn vertex_table<const D: usize>(m: &RefModel<D>) -> BTreeMap<uuid::Uuid, ([u64; D], Option<i64>)> {
    m.verts.iter().map(|v| (v.uuid, (v.p.map(f64::to_bits), v.data))).collect()
}

/// Class of the victim in the pre-state (evidence only).
fn victim_class<const D: usize>(m: &RefModel<D>, uuid: uuid::Uuid) -> &'static str {
    let Some(v) = m.verts.iter().find(|v| v.uuid == uuid) else { return "absent" };
    let star = m.cells.iter().filter(|c| c.v.contains(&v.key)).count();
    if m.cells.is_empty() {
        return "bootstrap";
    }
    if star == m.cells.len() {
        return "star-is-everything";
    }
    let fm = refcheck::facet_map(m);
    let on_hull = fm.iter().any(|(f, inc)| inc.len() == 1 && f.contains(&crate::model::vk_u64(v.key)));
    if star == D + 1 && !on_hull {
        return "degree-D+1-interior";
    }
    if on_hull { "hull" } else { "interior" }
}

fn history<K, const D: usize>(ctx: &Ctx, out: &mut Out, cs: u64, kn: Kn)
where
    K: Kernel<D, Scalar = f64>,
{
    let mut rng = Rng::new(cs);
    let thorough = ctx.tier == Tier::Thorough;
    out.eval();
    let Some((mut dt, mut mem, start)) = start_dt::<K, D>(&mut rng, thorough, out) else { return };
    let init: Vec<Op<D>> = vec![Op::SetValidationPolicy(rng.usize(4) as u8), Op::SetRepairPolicy(if rng.chance(1, 3) { 0 } else { rng.usize(4) as u8 })];
    for op in &init {
        let _ = hist::apply(&mut dt, op);
    }
    let len = if thorough { 30 + rng.usize(120) } else { 15 + rng.usize(45) };
    let len = if D >= 4 { len / 3 + 6 } else { len };
    let base = json!({"property": P, "case_seed": cs.to_string(), "D": D, "kernel": kn.name(), "start": start, "initial_policies": init.iter().map(|o| o.to_json()).collect::<Vec<_>>()});
    let mut nontrivial = false;
    // drain mode: remove-heavy so that histories go down into the bootstrap state and back up
    let mix = if rng.chance(1, 3) { Mix { insert: 2, insert_stats: 1, remove: 9, flips: 0, repair: 0, policy: 1, misc: 1 } } else { Mix::insert_remove() };
    let log = hist::run_history(&mut dt, &mut rng, &mut mem, &mix, len, |s: &Step<K, D>| {
        let res = match s.res {
            Ok(r) => r,
            Err(pi) => {
                let mut rp = base.clone();
                rp["history"] = json!(s.log);
                out.panic(P, pi, s.op.kind(), rp);
                return false;
            }
        };
        if ctx.elapsed() > ctx.budget_s * 1.3 {
            return false;
        }
        let Op::Remove { uuid, how, .. } = s.op else { return true };
        let class = victim_class(s.pre, *uuid);
        out.count(&format!("remove/{}/{}/{}", how, class, res.label()));
        if s.pre.verts.len() > D + 2 {
            nontrivial = true;
        }
        let mk_rp = |log: &[Value]| {
            let mut rp = base.clone();
            rp["history"] = json!(log);
            rp["step"] = json!(s.index);
            rp
        };
        let gu = guarantee_of(s.post_cfg);
        let present = s.pre.verts.iter().any(|v| v.uuid == *uuid);
        // incident_cell is a derived "some incident cell" hint that rebuilds may re-point; it is
        // not part of the observable state compared here
        let fp_pre = fingerprint::full(s.pre, s.pre_cfg, false);
        let fp_post = fingerprint::full(s.post, s.post_cfg, false);
        let mut bad: Vec<(String, String)> = Vec::new();
        match res {
            Res::Removed(n) => {
                if !present {
                    if *n != 0 {
                        bad.push(("unknown-nonzero".into(), format!("remove_vertex(unknown) returned Ok({})", n)));
                    }
                    if fp_pre != fp_post {
                        bad.push(("unknown-changed-state".into(), format!("remove_vertex(unknown) changed the state: {}", fingerprint::first_diff(&fp_pre, &fp_post))));
                    }
                } else {
                    if s.post.verts.iter().any(|v| v.uuid == *uuid) {
                        bad.push(("still-present".into(), format!("remove_vertex returned Ok({}) but the vertex is still present", n)));
                    }
                    let mut want = vertex_table(s.pre);
                    want.remove(uuid);
                    if vertex_table(s.post) != want {
                        bad.push(("other-vertices-changed".into(), "another vertex changed UUID/coordinates/data, disappeared or appeared".into()));
                    }
                    // removed-cell count: the star of the vertex
                    let star = s.pre.cells.iter().filter(|c| s.pre.vertex(c.v[0]).is_some() && c.v.iter().any(|k| s.pre.vertex(*k).map(|v| v.uuid == *uuid).unwrap_or(false))).count();
                    if *n != star {
                        out.count("note/removed_count_differs_from_star");
                    }
                    let (fails, amb) = state_failures(s.post, gu);
                    out.add("not_judged/ambiguous_orientation", amb);
                    if !fails.is_empty() {
                        let aspect = tri::Cert { structure: fails.clone(), ..Default::default() }.aspect();
                        bad.push((format!("{:?}/{}", gu, aspect), fails.iter().take(3).cloned().collect::<Vec<_>>().join("; ")));
                    } else if s.pre_cfg.repair_policy != "Never" && !s.post.cells.is_empty() && refcheck::check_delaunay(s.pre).violations.is_empty() {
                        // automatic repair ran on a state that was Delaunay before the removal:
                        // the Delaunay level must be certified afterwards
                        let d = refcheck::check_delaunay(s.post);
                        out.add("judged/insphere_pairs", d.pairs as u64);
                        out.count("l4_checked_states");
                        if !d.violations.is_empty() {
                            let root = tri::l4_root_cause(s.post, &d.violations);
                            let (ci, vi) = d.violations[0];
                            bad.push((format!("L4/{}", root), format!("repair policy {} but vertex {:?} is strictly inside the circumsphere of cell {:?} after removal ({})", s.pre_cfg.repair_policy, s.post.verts[vi].p, s.post.cells[ci].key, root)));
                        }
                    }
                }
            }
            Res::Err { error, class: eclass } => {
                out.count(&format!("err/{}", eclass));
                if fp_pre != fp_post {
                    let gone = !s.post.verts.iter().any(|v| v.uuid == *uuid);
                    let what = if gone { "vertex-removed" } else if s.pre.cells_as_keys() != s.post.cells_as_keys() { "cells-changed" } else { "keys-or-slots-changed" };
                    let stage: String = error.split(':').nth(1).unwrap_or("").trim().chars().take(40).collect::<String>().replace(' ', "-");
                    bad.push((format!("err-changed-state/{}/{}", what, stage), format!("remove_vertex returned Err({}) but the state changed ({}): {}", error.chars().take(200).collect::<String>(), what, fingerprint::first_diff(&fp_pre, &fp_post))));
                }
            }
            _ => {}
        }
        for (sig, desc) in &bad {
            out.violation(P, &format!("D{}/{}/{}", D, class, sig), format!("remove_vertex ({} victim): {}", class, desc), mk_rp(s.log));
        }
        bad.is_empty()
    });
    if nontrivial {
        out.nontrivial(&format!("{}|{}", cs, log.len()));
    }
    out.add("steps", log.len() as u64);
    if out.samples.len() < 3 && log.len() > 8 {
        out.sample(json!({"D": D, "kernel": kn.name(), "start": start["start"], "ops": log.iter().take(12).cloned().collect::<Vec<_>>(), "total_ops": log.len()}));
    }
}

pub fn run_case(ctx: &Ctx, out: &mut Out, cs: u64, d: usize, kn: Kn) {
    match (d, kn) {
        (2, Kn::Fast) => history::<FastKernel<f64>, 2>(ctx, out, cs, kn),
        (3, Kn::Fast) => history::<FastKernel<f64>, 3>(ctx, out, cs, kn),
        (4, Kn::Fast) => history::<FastKernel<f64>, 4>(ctx, out, cs, kn),
        (5, Kn::Fast) => history::<FastKernel<f64>, 5>(ctx, out, cs, kn),
        (2, Kn::Robust) => history::<RobustKernel<f64>, 2>(ctx, out, cs, kn),
        (3, Kn::Robust) => history::<RobustKernel<f64>, 3>(ctx, out, cs, kn),
        (4, Kn::Robust) => history::<RobustKernel<f64>, 4>(ctx, out, cs, kn),
        _ => history::<RobustKernel<f64>, 5>(ctx, out, cs, kn),
    }
}

pub fn run(ctx: &Ctx, out: &mut Out) {
    if let Some(doc) = &ctx.replay {
        if let (Some(cs), Some(d)) = (ctx.replay_seed(), doc["D"].as_u64()) {
            let kn = Kn::from_name(doc["kernel"].as_str().unwrap_or("fast")).unwrap_or(Kn::Fast);
            run_case(ctx, out, cs, d as usize, kn);
        } else {
            out.inconclusive("bad replay document");
        }
        return;
    }
    let cap = (if ctx.tier == Tier::Thorough { 100_000.0 } else { 1_500.0 } * ctx.scale) as u64;
    let mut i = 0u64;
    while i < cap && !ctx.out_of_time() {
        let cs = ctx.case_seed(i);
        let d = super::c01::pick_dim_hist(ctx, cs >> 7);
        let kn = if (cs >> 3) & 1 == 0 { Kn::Fast } else { Kn::Robust };
        run_case(ctx, out, cs, d, kn);
        i += 1;
    }
}
