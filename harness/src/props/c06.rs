//! C06 — vertex removal yields a valid triangulation minus that vertex, or no change.

use super::c02::{guarantee_of, start_dt, state_failures};
use crate::api::Kn;
use crate::common::{Ctx, Out, Tier};
use crate::fingerprint;
use crate::hist::{self, Mix, Op, Res, Step};
use crate::model::RefModel;
use crate::refcheck;
use crate::rng::Rng;
use crate::tri;
use delaunay::geometry::kernel::{FastKernel, Kernel, RobustKernel};
use serde_json::{Value, json};
use std::collections::BTreeMap;

const P: &str = "C06";

fn vertex_table<const D: usize>(m: &RefModel<D>) -> BTreeMap<uuid::Uuid, ([u64; D], Option<i64>)> {
    m.verts.iter().map(|v| (v.uuid, (v.p.map(f64::to_bits), v.data))).collect()
}

/// Class of the victim in the pre-state (evidence only).
fn victim_class<const D: usize>(m: &RefModel<D>, uuid: uuid::Uuid) -> &'static str {
    let Some(v) = m.verts.iter().find(|v| v.uuid == uuid) else { return "absent" };
    let star = m.cells.iter().filter(|c| c.v.contains(&v.key)).count();
    if m.cells.is_empty() {
        return "bootstrap";
    }
    if star == m.cells.len() {
        return "star-is-everything";
    }
    let fm = refcheck::facet_map(m);
    let on_hull = fm.iter().any(|(f, inc)| inc.len() == 1 && f.contains(&crate::model::vk_u64(v.key)));
    if star == D + 1 && !on_hull {
        return "degree-D+1-interior";
    }
    if on_hull { "hull" } else { "interior" }
}

fn history<K, const D: usize>(ctx: &Ctx, out: &mut Out, cs: u64, kn: Kn)
where
    K: Kernel<D, Scalar = f64>,
{
    let mut rng = Rng::new(cs);
    let thorough = ctx.tier == Tier::Thorough;
    out.eval();
    let Some((mut dt, mut mem, start)) = start_dt::<K, D>(&mut rng, thorough, out) else { return };
    let init: Vec<Op<D>> = vec![Op::SetValidationPolicy(rng.usize(4) as u8), Op::SetRepairPolicy(if rng.chance(1, 3) { 0 } else { rng.usize(4) as u8 })];
    for op in &init {
        let _ = hist::apply(&mut dt, op);
    }
    let len = if thorough { 30 + rng.usize(120) } else { 15 + rng.usize(45) };
    let len = if D >= 4 { len / 3 + 6 } else { len };
    let base = json!({"property": P, "case_seed": cs.to_string(), "D": D, "kernel": kn.name(), "start": start, "initial_policies": init.iter().map(|o| o.to_json()).collect::<Vec<_>>()});
    let mut nontrivial = false;
    // drain mode: remove-heavy so that histories go down into the bootstrap state and back up
    let mix = if rng.chance(1, 3) { Mix { insert: 2, insert_stats: 1, remove: 9, flips: 0, repair: 0, policy: 1, misc: 1 } } else { Mix::insert_remove() };
    let log = hist::run_history(&mut dt, &mut rng, &mut mem, &mix, len, |s: &Step<K, D>| {
        let res = match s.res {
            Ok(r) => r,
            Err(pi) => {
                let mut rp = base.clone();
                rp["history"] = json!(s.log);
                out.panic(P, pi, s.op.kind(), rp);
                return false;
            }
        };
        if ctx.elapsed() > ctx.budget_s * 1.3 {
            return false;
        }
        let Op::Remove { uuid, how, .. } = s.op else { return true };
        let class = victim_class(s.pre, *uuid);
        out.count(&format!("remove/{}/{}/{}", how, class, res.label()));
        if s.pre.verts.len() > D + 2 {
            nontrivial = true;
        }
        let mk_rp = |log: &[Value]| {
            let mut rp = base.clone();
            rp["history"] = json!(log);
            rp["step"] = json!(s.index);
            rp
        };
        let gu = guarantee_of(s.post_cfg);
        let present = s.pre.verts.iter().any(|v| v.uuid == *uuid);
        // incident_cell is a derived "some incident cell" hint that rebuilds may re-point; it is
        // not part of the observable state compared here
        let fp_pre = fingerprint::full(s.pre, s.pre_cfg, false);
        let fp_post = fingerprint::full(s.post, s.post_cfg, false);
        let mut bad: Vec<(String, String)> = Vec::new();
        match res {
            Res::Removed(n) => {
                if !present {
                    if *n != 0 {
                        bad.push(("unknown-nonzero".into(), format!("remove_vertex(unknown) returned Ok({})", n)));
                    }
                    if fp_pre != fp_post {
                        bad.push(("unknown-changed-state".into(), format!("remove_vertex(unknown) changed the state: {}", fingerprint::first_diff(&fp_pre, &fp_post))));
                    }
                } else {
                    if s.post.verts.iter().any(|v| v.uuid == *uuid) {
                        bad.push(("still-present".into(), format!("remove_vertex returned Ok({}) but the vertex is still present", n)));
                    }
                    let mut want = vertex_table(s.pre);
                    want.remove(uuid);
                    if vertex_table(s.post) != want {
                        bad.push(("other-vertices-changed".into(), "another vertex changed UUID/coordinates/data, disappeared or appeared".into()));
                    }
                    // removed-cell count: the star of the vertex
                    let star = s.pre.cells.iter().filter(|c| s.pre.vertex(c.v[0]).is_some() && c.v.iter().any(|k| s.pre.vertex(*k).map(|v| v.uuid == *uuid).unwrap_or(false))).count();
                    if *n != star {
                        out.count("note/removed_count_differs_from_star");
                    }
                    // conservation: removing an interior vertex replaces its star by cells that fill the same
                    // region, so the (exact) volume of the cells that disappear equals that of the cells that appear
                    if class == "interior" {
                        match star_volume_balance(s.pre, s.post, *uuid) {
                            Some((removed, added)) if removed.cmp(&added) != std::cmp::Ordering::Equal => {
                                out.count("interior/volume_not_conserved");
                                bad.push((format!("{:?}/embedding/volume-not-conserved", gu), format!("the cells that disappeared have D! x volume {:e}, the cells that appeared {:e} (exact comparison): the new cells overlap or leave a gap", removed.approx(), added.approx())));
                            }
                            Some(_) => out.count("interior/volume_conserved"),
                            None => out.count("interior/volume_not_comparable"),
                        }
                    }
                    let (fails, amb) = state_failures(s.post, gu);
                    out.add("not_judged/ambiguous_orientation", amb);
                    if !fails.is_empty() {
                        let aspect = tri::Cert { structure: fails.clone(), ..Default::default() }.aspect();
                        // root-cause class for interior victims: the fan retriangulation connects one boundary
                        // vertex (the apex) to the boundary facets of the cavity; when some cavity-boundary vertex is
                        // exactly (or within the tolerance band) coplanar with a boundary facet that does not contain
                        // it, fan cells through it are flat and get skipped (recorded finding); a topological failure
                        // on a cavity without such a degeneracy is a different defect
                        let deg = if class != "interior" {
                            ""
                        } else if degenerate_cavity(s.pre, *uuid) {
                            "/degenerate-cavity"
                        } else if !cavity_star_shaped_from_fan_apex(s.pre, s.post, *uuid) {
                            "/cavity-not-star-shaped-from-fan-apex"
                        } else {
                            ""
                        };
                        bad.push((format!("{:?}/{}{}", gu, aspect, deg), fails.iter().take(3).cloned().collect::<Vec<_>>().join("; ")));
                    } else if !s.post.cells.is_empty() && refcheck::check_convex_boundary(s.pre).fails.is_empty() && !refcheck::check_convex_boundary(s.post).fails.is_empty() {
                        // "a valid triangulation minus that vertex" covers the convex hull of the remaining vertices:
                        // a boundary that was convex before the removal and has a vertex strictly outside one of its
                        // facets afterwards (exact, beyond the band) is not the boundary of a triangulation of them.
                        // (Later insertions outside such a region create overlapping cells, which no level sees.)
                        let c = refcheck::check_convex_boundary(s.post);
                        out.count("convexity_lost");
                        bad.push((format!("{:?}/convex/boundary-not-convex-after-removal", gu), c.fails.iter().take(2).cloned().collect::<Vec<_>>().join("; ")));
                    } else if s.pre_cfg.repair_policy != "Never" && !s.post.cells.is_empty() && refcheck::check_delaunay(s.pre).violations.is_empty() {
                        // automatic repair ran on a state that was Delaunay before the removal:
                        // the Delaunay level must be certified afterwards
                        let d = refcheck::check_delaunay(s.post);
                        out.add("judged/insphere_pairs", d.pairs as u64);
                        out.count("l4_checked_states");
                        if !d.violations.is_empty() {
                            let root = tri::l4_root_cause(s.post, &d.violations);
                            let (ci, vi) = d.violations[0];
                            bad.push((format!("L4/{}", root), format!("repair policy {} but vertex {:?} is strictly inside the circumsphere of cell {:?} after removal ({})", s.pre_cfg.repair_policy, s.post.verts[vi].p, s.post.cells[ci].key, root)));
                        }
                    }
                }
            }
            Res::Err { error, class: eclass } => {
                out.count(&format!("err/{}", eclass));
                if fp_pre != fp_post {
                    let gone = !s.post.verts.iter().any(|v| v.uuid == *uuid);
                    let what = if gone { "vertex-removed" } else if s.pre.cells_as_keys() != s.post.cells_as_keys() { "cells-changed" } else { "keys-or-slots-changed" };
                    let stage: String = error.split(':').nth(1).unwrap_or("").trim().chars().take(40).collect::<String>().replace(' ', "-");
                    bad.push((format!("err-changed-state/{}/{}", what, stage), format!("remove_vertex returned Err({}) but the state changed ({}): {}", error.chars().take(200).collect::<String>(), what, fingerprint::first_diff(&fp_pre, &fp_post))));
                }
            }
            _ => {}
        }
        for (sig, desc) in &bad {
            out.violation(P, &format!("D{}/{}/{}", D, class, sig), format!("remove_vertex ({} victim): {}", class, desc), mk_rp(s.log));
        }
        bad.is_empty()
    });
    if nontrivial {
        out.nontrivial(&format!("{}|{}", cs, log.len()));
    }
    out.add("steps", log.len() as u64);
    if out.samples.len() < 3 && log.len() > 8 {
        out.sample(json!({"D": D, "kernel": kn.name(), "start": start["start"], "ops": log.iter().take(12).cloned().collect::<Vec<_>>(), "total_ops": log.len()}));
    }
}

/// Does the cavity of `uuid` (the facets of its star cells opposite to it) have a boundary vertex that is
/// coplanar, exactly or within the predicates' tolerance band, with a boundary facet not containing it?
fn degenerate_cavity<const D: usize>(m: &RefModel<D>, uuid: uuid::Uuid) -> bool {
    use crate::exact::{Band, classify, err_orient, orient_det, tol_orient};
    let Some(v) = m.verts.iter().find(|v| v.uuid == uuid) else { return false };
    let mut facets: Vec<Vec<[f64; D]>> = Vec::new();
    let mut bverts: Vec<[f64; D]> = Vec::new();
    for c in &m.cells {
        if !c.v.contains(&v.key) {
            continue;
        }
        let f: Vec<[f64; D]> = c.v.iter().filter(|k| **k != v.key).filter_map(|k| m.vertex(*k).map(|w| w.p)).collect();
        if f.len() != D {
            return false;
        }
        for p in &f {
            if !bverts.iter().any(|q| q.iter().zip(p.iter()).all(|(a, b)| a.to_bits() == b.to_bits())) {
                bverts.push(*p);
            }
        }
        facets.push(f);
    }
    for f in &facets {
        for w in &bverts {
            if f.iter().any(|q| q.iter().zip(w.iter()).all(|(a, b)| a.to_bits() == b.to_bits())) {
                continue;
            }
            let mut s: Vec<[f64; D]> = f.clone();
            s.push(*w);
            let od = orient_det(&s);
            if !matches!(classify(&od, tol_orient(&s), err_orient(&s)), Band::Decided(_)) {
                return true;
            }
        }
    }
    false
}

/// Exact `D! x volume` of the cells of `pre` that are not in `post` and of the cells of `post` that are not in `pre`
/// (cells compared as vertex-UUID sets).
fn star_volume_balance<const D: usize>(pre: &RefModel<D>, post: &RefModel<D>, _uuid: uuid::Uuid) -> Option<(crate::exact::Dy, crate::exact::Dy)> {
    use crate::exact::{Dy, orient_det};
    let ids = |m: &RefModel<D>, c: &crate::model::MCell<D>| -> Option<Vec<uuid::Uuid>> {
        let mut x: Vec<uuid::Uuid> = Vec::new();
        for k in &c.v {
            x.push(m.vertex(*k)?.uuid);
        }
        x.sort();
        Some(x)
    };
    let set = |m: &RefModel<D>| -> Option<std::collections::HashSet<Vec<uuid::Uuid>>> { m.cells.iter().map(|c| ids(m, c)).collect() };
    let (a, b) = (set(pre)?, set(post)?);
    let vol = |m: &RefModel<D>, other: &std::collections::HashSet<Vec<uuid::Uuid>>| -> Option<Dy> {
        let mut s = Dy::zero();
        for c in &m.cells {
            if other.contains(&ids(m, c)?) {
                continue;
            }
            let p = m.cell_points(c)?;
            if p.len() != D + 1 {
                return None;
            }
            s = s.add(&orient_det(&p).abs());
        }
        Some(s)
    };
    Some((vol(pre, &b)?, vol(post, &a)?))
}

fn m_points<const D: usize>(m: &RefModel<D>, c: &crate::model::MCell<D>) -> Vec<[f64; D]> {
    m.cell_points(c).unwrap_or_default()
}

/// The fan retriangulation joins one cavity-boundary vertex (the apex: the vertex common to all cells that are
/// new in `post`) to the boundary facets that do not contain it. That tiles the cavity only if the apex sees every
/// such facet from the side on which the removed vertex was. Returns false when it does not (or when no apex can be
/// identified), i.e. when the recorded defect "a fan from one apex is not a retriangulation of the cavity" applies.
fn cavity_star_shaped_from_fan_apex<const D: usize>(pre: &RefModel<D>, post: &RefModel<D>, uuid: uuid::Uuid) -> bool {
    use crate::exact::orient_det;
    let Some(v) = pre.verts.iter().find(|v| v.uuid == uuid) else { return true };
    let ids = |m: &RefModel<D>, c: &crate::model::MCell<D>| -> Option<Vec<uuid::Uuid>> {
        let mut x: Vec<uuid::Uuid> = Vec::new();
        for k in &c.v {
            x.push(m.vertex(*k)?.uuid);
        }
        x.sort();
        Some(x)
    };
    let old: std::collections::HashSet<Vec<uuid::Uuid>> = pre.cells.iter().filter_map(|c| ids(pre, c)).collect();
    let new_cells: Vec<Vec<uuid::Uuid>> = post.cells.iter().filter_map(|c| ids(post, c)).filter(|x| !old.contains(x)).collect();
    if new_cells.is_empty() {
        return false;
    }
    let apex: Vec<uuid::Uuid> = new_cells[0].iter().copied().filter(|u| new_cells.iter().all(|c| c.contains(u))).collect();
    if std::env::var_os("DVERIF_DEBUG").is_some() {
        let star = pre.cells.iter().filter(|c| c.v.contains(&v.key)).count();
        let gone: Vec<Vec<uuid::Uuid>> = { let newset: std::collections::HashSet<Vec<uuid::Uuid>> = post.cells.iter().filter_map(|c| ids(post, c)).collect(); pre.cells.iter().filter_map(|c| ids(pre, c)).filter(|x| !newset.contains(x)).collect() };
        eprintln!("victim {:?} star {} cells; {} cells of pre are gone; {} new cells; common vertices of new cells: {}; pre cells {} post cells {}", v.p, star, gone.len(), new_cells.len(), apex.len(), pre.cells.len(), post.cells.len());
        let gone_not_star = gone.iter().filter(|c| !c.contains(&uuid)).count();
        eprintln!("cells gone that did not contain the victim: {}", gone_not_star);
        let pt = |u: &uuid::Uuid| pre.verts.iter().find(|w| w.uuid == *u).map(|w| w.p);
        for u in &apex {
            eprintln!("  common vertex {:?}", pt(u));
        }
        if apex.len() == 2 {
            let in_pre = pre.cells.iter().filter_map(|c| ids(pre, c)).filter(|x| x.contains(&apex[0]) && x.contains(&apex[1])).count();
            let in_pre_star = pre.cells.iter().filter_map(|c| ids(pre, c)).filter(|x| x.contains(&apex[0]) && x.contains(&apex[1]) && x.contains(&uuid)).count();
            eprintln!("  cells of pre containing both common vertices: {} (of which in the star of the victim: {})", in_pre, in_pre_star);
        }
        for c in &new_cells {
            eprintln!("  new cell {:?}", c.iter().map(|u| pt(u)).collect::<Vec<_>>());
        }
        for c in pre.cells.iter().filter(|c| c.v.contains(&v.key)) {
            eprintln!("  star cell {:?}", m_points(pre, c));
        }
    }
    // independent of which vertex the apex was: cells that tile the cavity have the volume of the removed star
    {
        use crate::exact::Dy;
        let vol = |m: &RefModel<D>, want: &dyn Fn(&Vec<uuid::Uuid>) -> bool| -> Dy {
            let mut s = Dy::zero();
            for c in &m.cells {
                let Some(x) = ids(m, c) else { continue };
                if !want(&x) {
                    continue;
                }
                if let Some(p) = m.cell_points(c) {
                    if p.len() == D + 1 {
                        s = s.add(&orient_det(&p).abs());
                    }
                }
            }
            s
        };
        let removed = vol(pre, &|x| x.contains(&uuid));
        let added = vol(post, &|x| !old.contains(x));
        if std::env::var_os("DVERIF_DEBUG").is_some() {
            eprintln!("D! x volume of the removed star {:e}, of the new cells {:e}", removed.approx(), added.approx());
        }
        if removed.cmp(&added) != std::cmp::Ordering::Equal {
            return false;
        }
    }
    let Some(apex) = apex.first().and_then(|u| pre.verts.iter().find(|w| w.uuid == *u)) else { return false };
    if apex.uuid != uuid && new_cells.iter().all(|c| c.contains(&apex.uuid)) && new_cells[0].iter().filter(|u| new_cells.iter().all(|c| c.contains(u))).count() > 1 {
        // several vertices are common to all new cells: the apex cannot be identified; the volume test above decides
        return true;
    }
    for c in &pre.cells {
        if !c.v.contains(&v.key) || c.v.contains(&apex.key) {
            continue;
        }
        let f: Vec<[f64; D]> = c.v.iter().filter(|k| **k != v.key).filter_map(|k| pre.vertex(*k).map(|w| w.p)).collect();
        if f.len() != D {
            return false;
        }
        let mut with_v = f.clone();
        with_v.push(v.p);
        let mut with_a = f.clone();
        with_a.push(apex.p);
        let (sv, sa) = (orient_det(&with_v).sign(), orient_det(&with_a).sign());
        if sv == 0 || sa != sv {
            return false;
        }
    }
    true
}

pub fn run_case(ctx: &Ctx, out: &mut Out, cs: u64, d: usize, kn: Kn) {
    match (d, kn) {
        (2, Kn::Fast) => history::<FastKernel<f64>, 2>(ctx, out, cs, kn),
        (3, Kn::Fast) => history::<FastKernel<f64>, 3>(ctx, out, cs, kn),
        (4, Kn::Fast) => history::<FastKernel<f64>, 4>(ctx, out, cs, kn),
        (5, Kn::Fast) => history::<FastKernel<f64>, 5>(ctx, out, cs, kn),
        (2, Kn::Robust) => history::<RobustKernel<f64>, 2>(ctx, out, cs, kn),
        (3, Kn::Robust) => history::<RobustKernel<f64>, 3>(ctx, out, cs, kn),
        (4, Kn::Robust) => history::<RobustKernel<f64>, 4>(ctx, out, cs, kn),
        _ => history::<RobustKernel<f64>, 5>(ctx, out, cs, kn),
    }
}

pub fn run(ctx: &Ctx, out: &mut Out) {
    if let Some(doc) = &ctx.replay {
        if let (Some(cs), Some(d)) = (ctx.replay_seed(), doc["D"].as_u64()) {
            let kn = Kn::from_name(doc["kernel"].as_str().unwrap_or("fast")).unwrap_or(Kn::Fast);
            run_case(ctx, out, cs, d as usize, kn);
        } else {
            out.inconclusive("bad replay document");
        }
        return;
    }
    let cap = (if ctx.tier == Tier::Thorough { 100_000.0 } else { 1_500.0 } * ctx.scale) as u64;
    let mut i = 0u64;
    while i < cap && !ctx.out_of_time() {
        let cs = ctx.case_seed(i);
        let d = super::c01::pick_dim_hist(ctx, cs >> 7);
        let kn = if (cs >> 3) & 1 == 0 { Kn::Fast } else { Kn::Robust };
        run_case(ctx, out, cs, d, kn);
        i += 1;
    }
}
