//! C05 — structural and topological validators accept exactly the valid complexes.
//!
//! Valid triangulations are corrupted through the guarded fault-injection accessors (H2) and the
//! library's verdict at every level is compared with RefCheck's verdict at that level.

use crate::api::Kn;
use crate::common::{Ctx, Out, Tier, guard};
use crate::r#gen::{self as g, Family};
use crate::model::RefModel;
use crate::refcheck::{self, Guarantee};
use crate::rng::Rng;
use crate::tri::{self, GUARANTEES, Opts};
use delaunay::core::delaunay_triangulation::DelaunayTriangulation;
use delaunay::core::triangulation_data_structure::{CellKey, Tds, VertexKey};
use delaunay::geometry::kernel::{FastKernel, Kernel, RobustKernel};
use delaunay::geometry::point::Point;
use delaunay::geometry::traits::coordinate::Coordinate;
use serde_json::{Value, json};

const P: &str = "C05";

type T<const D: usize> = Tds<f64, i32, i32, D>;

pub const FAULTS: [&str; 25] = [
    "neighbor-dangling",
    "neighbor-none",
    "neighbor-other-live-cell",
    "neighbor-one-way",
    "neighbor-wrong-slot",
    "duplicate-cell",
    "delete-cell-keep-backpointers",
    "delete-cell-clear-backpointers",
    "repeat-vertex-in-cell",
    "vertex-key-dead",
    "swap-vertex-slots-only",
    "swap-vertex-and-neighbor-slots",
    "invert-cell-by-moving-vertex",
    "flatten-cell-by-moving-vertex",
    "identify-two-vertices",
    "add-disconnected-simplex",
    "add-isolated-vertex",
    "coordinate-nan",
    "coordinate-inf",
    "incident-cell-dead",
    "incident-cell-wrong",
    "uuid-map-remove-vertex-entry",
    "uuid-map-cross-cell-entries",
    "vertex-uuid-nil",
    "pinch-vertex-star",
];

fn dead_cell_key<const D: usize>(tds: &mut T<D>) -> Option<CellKey> {
    let vs: Vec<VertexKey> = tds.cells().next().map(|(_, c)| c.vertices().to_vec())?;
    let k = tds.verif_insert_cell_raw(&vs)?;
    let uuid = tds.get_cell(k)?.uuid();
    tds.verif_cells_mut().remove(k);
    tds.verif_uuid_to_cell_key_mut().remove(&uuid);
    Some(k)
}

fn dead_vertex_key<const D: usize>(tds: &mut T<D>, rng: &mut Rng) -> VertexKey {
    let v = crate::api::mk_vertex::<i32, D>([0.5; D], rng.uuid(), None);
    let k = tds.verif_vertices_mut().insert(v);
    tds.verif_vertices_mut().remove(k);
    k
}

/// Applies one fault; returns a description of the target or None if not applicable here.
pub fn apply_fault<const D: usize>(tds: &mut T<D>, fault: &str, rng: &mut Rng) -> Option<String> {
    let cell_keys: Vec<CellKey> = tds.cell_keys().collect();
    let vertex_keys: Vec<VertexKey> = tds.vertex_keys().collect();
    if cell_keys.is_empty() || vertex_keys.is_empty() {
        return None;
    }
    let ck = cell_keys[rng.usize(cell_keys.len())];
    let vk = vertex_keys[rng.usize(vertex_keys.len())];
    let slot = rng.usize(D + 1);
    // a slot of ck that has a neighbour, if any
    let nb_slot = tds.get_cell(ck).and_then(|c| c.neighbors().and_then(|n| n.iter().position(|x| x.is_some())));
    match fault {
        "neighbor-dangling" => {
            let dead = dead_cell_key(tds)?;
            let c = tds.get_cell_by_key_mut(ck)?;
            let n = c.verif_neighbors_mut().get_or_insert_with(|| std::iter::repeat(None).take(D + 1).collect());
            n[slot] = Some(dead);
            Some(format!("cell {:?} slot {}", ck, slot))
        }
        "neighbor-none" => {
            let s = nb_slot?;
            let c = tds.get_cell_by_key_mut(ck)?;
            c.verif_neighbors_mut().as_mut()?[s] = None;
            Some(format!("cell {:?} slot {}", ck, s))
        }
        "neighbor-other-live-cell" => {
            if cell_keys.len() < 3 {
                return None;
            }
            let s = nb_slot?;
            let cur = tds.get_cell(ck)?.neighbors()?[s];
            let other = *cell_keys.iter().find(|k| **k != ck && Some(**k) != cur)?;
            let c = tds.get_cell_by_key_mut(ck)?;
            c.verif_neighbors_mut().as_mut()?[s] = Some(other);
            Some(format!("cell {:?} slot {} -> {:?}", ck, s, other))
        }
        "neighbor-one-way" => {
            // same as neighbor-none but described from the other side: keep b -> a, clear a -> b
            let s = nb_slot?;
            let c = tds.get_cell_by_key_mut(ck)?;
            c.verif_neighbors_mut().as_mut()?[s] = None;
            Some(format!("cell {:?} slot {} cleared, back-pointer kept", ck, s))
        }
        "neighbor-wrong-slot" => {
            let c = tds.get_cell_by_key_mut(ck)?;
            let n = c.verif_neighbors_mut().as_mut()?;
            let a = slot;
            let b = (slot + 1) % (D + 1);
            if n[a] == n[b] {
                return None;
            }
            n.swap(a, b);
            Some(format!("cell {:?} neighbor slots {} <-> {}", ck, a, b))
        }
        "duplicate-cell" => {
            let vs: Vec<VertexKey> = tds.get_cell(ck)?.vertices().to_vec();
            let k = tds.verif_insert_cell_raw(&vs)?;
            Some(format!("duplicate of {:?} as {:?}", ck, k))
        }
        "delete-cell-keep-backpointers" => {
            let uuid = tds.get_cell(ck)?.uuid();
            tds.verif_cells_mut().remove(ck);
            tds.verif_uuid_to_cell_key_mut().remove(&uuid);
            Some(format!("deleted {:?}", ck))
        }
        "delete-cell-clear-backpointers" => {
            let uuid = tds.get_cell(ck)?.uuid();
            tds.verif_cells_mut().remove(ck);
            tds.verif_uuid_to_cell_key_mut().remove(&uuid);
            let keys: Vec<CellKey> = tds.cell_keys().collect();
            for k in keys {
                if let Some(c) = tds.get_cell_by_key_mut(k) {
                    if let Some(n) = c.verif_neighbors_mut().as_mut() {
                        for x in n.iter_mut() {
                            if *x == Some(ck) {
                                *x = None;
                            }
                        }
                    }
                }
            }
            let vkeys: Vec<VertexKey> = tds.vertex_keys().collect();
            let replacement = tds.cell_keys().next();
            for v in vkeys {
                // re-point incidence of vertices that pointed at the deleted cell to any cell containing them
                let needs = tds.get_vertex_by_key(v).map(|x| x.incident_cell == Some(ck)).unwrap_or(false);
                if needs {
                    let holder = tds.cells().find(|(_, c)| c.vertices().contains(&v)).map(|(k, _)| k);
                    if let Some(vx) = tds.get_vertex_by_key_mut(v) {
                        vx.incident_cell = holder;
                    }
                }
            }
            let _ = replacement;
            Some(format!("deleted {:?} and cleared pointers", ck))
        }
        "repeat-vertex-in-cell" => {
            let c = tds.get_cell_by_key_mut(ck)?;
            let a = slot;
            let b = (slot + 1) % (D + 1);
            let vb = c.vertices()[b];
            c.verif_vertices_mut()[a] = vb;
            Some(format!("cell {:?} slot {} := slot {}", ck, a, b))
        }
        "vertex-key-dead" => {
            let dead = dead_vertex_key(tds, rng);
            let c = tds.get_cell_by_key_mut(ck)?;
            c.verif_vertices_mut()[slot] = dead;
            Some(format!("cell {:?} slot {} := dead vertex key", ck, slot))
        }
        "swap-vertex-slots-only" => {
            let c = tds.get_cell_by_key_mut(ck)?;
            let a = slot;
            let b = (slot + 1) % (D + 1);
            c.verif_vertices_mut().swap(a, b);
            Some(format!("cell {:?} vertex slots {} <-> {} (neighbors untouched)", ck, a, b))
        }
        "swap-vertex-and-neighbor-slots" => {
            let c = tds.get_cell_by_key_mut(ck)?;
            let a = slot;
            let b = (slot + 1) % (D + 1);
            c.verif_vertices_mut().swap(a, b);
            if let Some(n) = c.verif_neighbors_mut().as_mut() {
                n.swap(a, b);
            }
            Some(format!("cell {:?} vertex+neighbor slots {} <-> {}", ck, a, b))
        }
        "invert-cell-by-moving-vertex" => {
            // reflect vertex `slot` of ck through the centroid of the opposite facet, far beyond it
            let vs: Vec<VertexKey> = tds.get_cell(ck)?.vertices().to_vec();
            let pts: Vec<[f64; D]> = vs.iter().map(|k| tds.get_vertex_by_key(*k).map(|v| *v.point().coords())).collect::<Option<Vec<_>>>()?;
            let mut cen = [0.0; D];
            for (i, p) in pts.iter().enumerate() {
                if i != slot {
                    for j in 0..D {
                        cen[j] += p[j] / D as f64;
                    }
                }
            }
            let mut q = [0.0; D];
            for j in 0..D {
                q[j] = cen[j] + 2.0 * (cen[j] - pts[slot][j]);
            }
            tds.get_vertex_by_key_mut(vs[slot])?.verif_set_point(Point::new(q));
            Some(format!("vertex {:?} reflected through the opposite facet of {:?}", vs[slot], ck))
        }
        "flatten-cell-by-moving-vertex" => {
            let vs: Vec<VertexKey> = tds.get_cell(ck)?.vertices().to_vec();
            let other = (slot + 1) % (D + 1);
            let p = *tds.get_vertex_by_key(vs[other])?.point().coords();
            tds.get_vertex_by_key_mut(vs[slot])?.verif_set_point(Point::new(p));
            Some(format!("vertex {:?} moved onto {:?}", vs[slot], vs[other]))
        }
        "identify-two-vertices" => {
            // replace vertex a by b in every cell, where no cell contains both
            let a = vk;
            let b = *vertex_keys.iter().find(|k| **k != a && !tds.cells().any(|(_, c)| c.vertices().contains(&a) && c.vertices().contains(k)))?;
            let keys: Vec<CellKey> = tds.cell_keys().collect();
            for k in keys {
                if let Some(c) = tds.get_cell_by_key_mut(k) {
                    for x in c.verif_vertices_mut().iter_mut() {
                        if *x == a {
                            *x = b;
                        }
                    }
                }
            }
            Some(format!("vertex {:?} identified with {:?}", a, b))
        }
        "add-disconnected-simplex" => {
            let mut vs = Vec::new();
            for i in 0..=D {
                let mut p = [1000.0; D];
                if i < D {
                    p[i] += 1.0;
                }
                let v = crate::api::mk_vertex::<i32, D>(p, rng.uuid(), None);
                let uuid = v.uuid();
                let k = tds.verif_vertices_mut().insert(v);
                tds.verif_uuid_to_vertex_key_mut().insert(uuid, k);
                vs.push(k);
            }
            // make it positively oriented: try both orders of the first two
            let k = tds.verif_insert_cell_raw(&vs)?;
            for v in &vs {
                if let Some(vx) = tds.get_vertex_by_key_mut(*v) {
                    vx.incident_cell = Some(k);
                }
            }
            Some(format!("added far simplex {:?}", k))
        }
        "add-isolated-vertex" => {
            let v = crate::api::mk_vertex::<i32, D>([777.0; D], rng.uuid(), None);
            let uuid = v.uuid();
            let k = tds.verif_vertices_mut().insert(v);
            tds.verif_uuid_to_vertex_key_mut().insert(uuid, k);
            Some(format!("added isolated vertex {:?}", k))
        }
        "coordinate-nan" | "coordinate-inf" => {
            let mut p = *tds.get_vertex_by_key(vk)?.point().coords();
            p[rng.usize(D)] = if fault == "coordinate-nan" { f64::NAN } else { f64::INFINITY };
            tds.get_vertex_by_key_mut(vk)?.verif_set_point(Point::new(p));
            Some(format!("vertex {:?}", vk))
        }
        "incident-cell-dead" => {
            let dead = dead_cell_key(tds)?;
            tds.get_vertex_by_key_mut(vk)?.incident_cell = Some(dead);
            Some(format!("vertex {:?}", vk))
        }
        "incident-cell-wrong" => {
            let other = tds.cells().find(|(_, c)| !c.vertices().contains(&vk)).map(|(k, _)| k)?;
            tds.get_vertex_by_key_mut(vk)?.incident_cell = Some(other);
            Some(format!("vertex {:?} -> {:?}", vk, other))
        }
        "uuid-map-remove-vertex-entry" => {
            let uuid = tds.get_vertex_by_key(vk)?.uuid();
            tds.verif_uuid_to_vertex_key_mut().remove(&uuid);
            Some(format!("vertex {:?}", vk))
        }
        "uuid-map-cross-cell-entries" => {
            if cell_keys.len() < 2 {
                return None;
            }
            let other = *cell_keys.iter().find(|k| **k != ck)?;
            let ua = tds.get_cell(ck)?.uuid();
            let ub = tds.get_cell(other)?.uuid();
            let m = tds.verif_uuid_to_cell_key_mut();
            m.insert(ua, other);
            m.insert(ub, ck);
            Some(format!("cells {:?} <-> {:?}", ck, other))
        }
        "vertex-uuid-nil" => {
            let old = tds.get_vertex_by_key(vk)?.uuid();
            tds.get_vertex_by_key_mut(vk)?.verif_set_uuid(uuid::Uuid::nil());
            let m = tds.verif_uuid_to_vertex_key_mut();
            m.remove(&old);
            m.insert(uuid::Uuid::nil(), vk);
            Some(format!("vertex {:?}", vk))
        }
        "pinch-vertex-star" => {
            // Keep two cells of the star of a vertex that share nothing but that vertex and delete the
            // rest of the star (pointers cleared, incidence re-pointed): the vertex link becomes
            // disconnected while every remaining cell stays a proper cell.
            let mut order = vertex_keys.clone();
            rng.shuffle(&mut order);
            for v in order.into_iter().take(12) {
                let star: Vec<(CellKey, Vec<VertexKey>)> = tds.cells().filter(|(_, c)| c.vertices().contains(&v)).map(|(k, c)| (k, c.vertices().to_vec())).collect();
                if star.len() < 3 {
                    continue;
                }
                let mut pair = None;
                'p: for (i, a) in star.iter().enumerate() {
                    for b in star.iter().skip(i + 1) {
                        if a.1.iter().filter(|x| b.1.contains(x)).count() == 1 {
                            pair = Some((a.0, b.0));
                            break 'p;
                        }
                    }
                }
                let Some((ka, kb)) = pair else { continue };
                let doomed: Vec<CellKey> = star.iter().map(|x| x.0).filter(|k| *k != ka && *k != kb).collect();
                for ck in &doomed {
                    let uuid = tds.get_cell(*ck)?.uuid();
                    tds.verif_cells_mut().remove(*ck);
                    tds.verif_uuid_to_cell_key_mut().remove(&uuid);
                }
                let keys: Vec<CellKey> = tds.cell_keys().collect();
                for k in keys {
                    if let Some(c) = tds.get_cell_by_key_mut(k) {
                        if let Some(n) = c.verif_neighbors_mut().as_mut() {
                            for x in n.iter_mut() {
                                if x.map(|y| doomed.contains(&y)).unwrap_or(false) {
                                    *x = None;
                                }
                            }
                        }
                    }
                }
                let vkeys: Vec<VertexKey> = tds.vertex_keys().collect();
                for w in vkeys {
                    let needs = tds.get_vertex_by_key(w).map(|x| x.incident_cell.map(|c| doomed.contains(&c)).unwrap_or(false)).unwrap_or(false);
                    if needs {
                        let holder = tds.cells().find(|(_, c)| c.vertices().contains(&w)).map(|(k, _)| k);
                        if let Some(vx) = tds.get_vertex_by_key_mut(w) {
                            vx.incident_cell = holder;
                        }
                    }
                }
                return Some(format!("vertex {:?}: kept {:?} and {:?}, deleted {} star cells", v, ka, kb, doomed.len()));
            }
            None
        }
        _ => None,
    }
}

struct Verdicts {
    /// public Level-3 component validators called directly: facet degree, closed boundary, ridge
    /// links, vertex links (None = the facet map could not be built)
    components: Option<[bool; 4]>,
    tds_is_valid: bool,
    tds_validate: bool,
    lib_l1: bool,
    tri_is_valid: bool,
    tri_completion: bool,
    tri_validate: bool,
    dt_validate: bool,
    dt_report: bool,
}

fn library_verdicts<K, const D: usize>(tds: T<D>, gu: Guarantee, out: &mut Out, rp: &Value) -> Option<Verdicts>
where
    K: Kernel<D, Scalar = f64>,
{
    let r = guard(|| {
        let dt = DelaunayTriangulation::<K, i32, i32, D>::from_tds_with_topology_guarantee(tds, K::default(), gu.to_lib());
        let t = dt.tds();
        let lib_l1 = t.vertices().all(|(_, v)| (*v).is_valid().is_ok()) && t.cells().all(|(_, c)| c.is_valid().is_ok());
        let components = t.build_facet_to_cells_map().ok().map(|map| {
            [
                delaunay::topology::manifold::validate_facet_degree(&map).is_ok(),
                delaunay::topology::manifold::validate_closed_boundary(t, &map).is_ok(),
                delaunay::topology::manifold::validate_ridge_links(t).is_ok(),
                delaunay::topology::manifold::validate_vertex_links(t, &map).is_ok(),
            ]
        });
        Verdicts {
            components,
            tds_is_valid: t.is_valid().is_ok(),
            tds_validate: t.validate().is_ok(),
            lib_l1,
            tri_is_valid: dt.as_triangulation().is_valid().is_ok(),
            tri_completion: dt.as_triangulation().validate_at_completion().is_ok(),
            tri_validate: dt.as_triangulation().validate().is_ok(),
            dt_validate: dt.validate().is_ok(),
            dt_report: dt.validation_report().is_ok(),
        }
    });
    match r {
        Ok(v) => Some(v),
        Err(pi) => {
            out.panic(P, &pi, "validator on corrupted complex", rp.clone());
            None
        }
    }
}

fn compare<K, const D: usize>(tds: &T<D>, gu: Guarantee, faults: &[String], out: &mut Out, base: &Value)
where
    K: Kernel<D, Scalar = f64>,
{
    let m = RefModel::from_tds(tds);
    let label = if faults.is_empty() { "none".to_string() } else { faults.iter().map(|f| f.split('@').next().unwrap_or("").to_string()).collect::<Vec<_>>().join("+") };
    let mut rp = base.clone();
    rp["faults"] = json!(faults);
    let Some(v) = library_verdicts::<K, D>(tds.clone(), gu, out, &rp) else { return };
    let l1 = refcheck::check_l1(&m);
    let l2 = refcheck::check_l2(&m);
    let ref_l1 = l1.is_empty();
    let ref_l2 = l2.is_empty();
    out.count(&format!("fault/{}/refL1={}/refL2={}", label, ref_l1 as u8, ref_l2 as u8));
    let report = |out: &mut Out, what: &str, lib: bool, reff: bool, detail: String| {
        if lib != reff {
            let dir = if lib { "false-accept" } else { "false-reject" };
            out.violation(P, &format!("D{}/{}/{}/{}", D, what, dir, label), format!("{}: library says {} but the reference recomputation says {} ({})", what, if lib { "Ok" } else { "Err" }, if reff { "valid" } else { "invalid" }, detail), rp.clone());
        } else {
            out.count(&format!("agree/{}/{}", what, if lib { "accept" } else { "reject" }));
        }
    };
    // element level as the library computes it
    report(out, "element-validity", v.lib_l1, ref_l1, l1.first().cloned().unwrap_or_default());
    // Tds::validate = L1 and L2
    report(out, "Tds::validate", v.tds_validate, ref_l1 && ref_l2, l1.iter().chain(l2.iter()).next().cloned().unwrap_or_default());
    // Tds::is_valid alone only when the element level holds
    if ref_l1 {
        report(out, "Tds::is_valid", v.tds_is_valid, ref_l2, l2.first().cloned().unwrap_or_default());
    }
    // internal consistency of the cumulative validator
    if v.tds_validate != (v.lib_l1 && v.tds_is_valid) {
        out.violation(P, &format!("D{}/Tds::validate/not-conjunction/{}", D, label), format!("Tds::validate() = {} but (all elements valid = {}) && Tds::is_valid() = {}", v.tds_validate, v.lib_l1, v.tds_is_valid), rp.clone());
    }
    if v.dt_report != v.dt_validate {
        out.violation(P, &format!("D{}/validation_report/differs-from-validate/{}", D, label), format!("validation_report().is_ok() = {} but validate().is_ok() = {}", v.dt_report, v.dt_validate), rp.clone());
    }
    if ref_l1 && ref_l2 {
        let l3 = refcheck::check_l3(&m, None);
        // the owning component validators, each judged only when the components before it hold
        if let Some(c) = v.components {
            report(out, "manifold::validate_facet_degree", c[0], l3.facet_degree.is_empty(), l3.facet_degree.first().cloned().unwrap_or_default());
            if l3.facet_degree.is_empty() {
                report(out, "manifold::validate_closed_boundary", c[1], l3.closed_boundary.is_empty(), l3.closed_boundary.first().cloned().unwrap_or_default());
                report(out, "manifold::validate_ridge_links", c[2], l3.ridge_links.is_empty(), l3.ridge_links.first().cloned().unwrap_or_default());
                if l3.closed_boundary.is_empty() && l3.ridge_links.is_empty() && l3.isolated.is_empty() {
                    report(out, "manifold::validate_vertex_links", c[3], l3.vertex_links.is_empty(), l3.vertex_links.first().cloned().unwrap_or_default());
                }
            }
        }
        if l3.orientation_ambiguous == 0 {
            let f3 = l3.fails_is_valid(gu);
            report(out, "Triangulation::is_valid", v.tri_is_valid, f3.is_empty(), f3.first().cloned().unwrap_or_default());
            let fc = l3.fails_completion(gu, m.cells.len());
            report(out, "Triangulation::validate_at_completion", v.tri_completion, fc.is_empty(), fc.first().cloned().unwrap_or_default());
            report(out, "Triangulation::validate", v.tri_validate, f3.is_empty() && fc.is_empty(), f3.iter().chain(fc.iter()).next().cloned().unwrap_or_default());
            if v.tri_validate != (v.tds_validate && v.tri_is_valid && v.tri_completion) {
                out.violation(P, &format!("D{}/Triangulation::validate/not-conjunction/{}", D, label), format!("Triangulation::validate() = {} but Tds::validate() = {}, is_valid() = {}, validate_at_completion() = {}", v.tri_validate, v.tds_validate, v.tri_is_valid, v.tri_completion), rp.clone());
            }
        } else {
            out.count("not_judged/L3_orientation_ambiguous");
        }
    } else {
        // lower level broken: the cumulative validator must reject
        if v.tri_validate {
            out.violation(P, &format!("D{}/Triangulation::validate/false-accept/{}", D, label), "Triangulation::validate() accepts a complex whose Level 1-2 recomputation fails".into(), rp.clone());
        }
    }
}

fn case<K, const D: usize>(ctx: &Ctx, out: &mut Out, cs: u64, kn: Kn)
where
    K: Kernel<D, Scalar = f64>,
{
    let mut rng = Rng::new(cs);
    let thorough = ctx.tier == Tier::Thorough;
    out.eval();
    let fam = *rng.pick(&[Family::Dyadic, Family::Uniform, Family::Grid, Family::Hull]);
    let n = D + 1 + rng.usize(if thorough { 4 * D } else { 2 * D + 1 });
    let pts = g::points::<D>(&mut rng, fam, n);
    let inp = tri::mk_inputs(&mut rng, &pts);
    let gu = *rng.pick(&GUARANTEES);
    let base = json!({"property": P, "case_seed": cs.to_string(), "D": D, "kernel": kn.name(), "family": fam.name(), "guarantee": format!("{:?}", gu), "points": crate::common::pts_json(&pts)});
    let dt = match tri::build::<K, D>(&K::default(), &inp, gu, &Opts::default_like()) {
        Ok(Ok(dt)) => dt,
        _ => {
            out.count("start/construction_err");
            return;
        }
    };
    let m0 = RefModel::from_dt(&dt);
    // only exactly valid, unambiguous starts
    if !super::c04::geometrically_valid(&m0, gu) {
        out.count("not_judged/start_not_exactly_valid");
        return;
    }
    if m0.cells.len() >= 2 {
        out.nontrivial(&cs.to_string());
    }
    let pristine: T<D> = dt.tds().clone();
    // uncorrupted: every level must accept
    compare::<K, D>(&pristine, gu, &[], out, &base);
    // single faults: every kind, several targets
    let reps = if thorough { 6 } else { 2 };
    for f in FAULTS.iter() {
        for _ in 0..reps {
            if ctx.elapsed() > ctx.budget_s * 1.3 {
                return;
            }
            let mut t = pristine.clone();
            match guard(|| apply_fault(&mut t, f, &mut rng)) {
                Ok(Some(desc)) => {
                    out.count(&format!("applied/{}", f));
                    compare::<K, D>(&t, gu, &[format!("{}@{}", f, desc)], out, &base);
                }
                Ok(None) => out.count(&format!("not_applicable/{}", f)),
                Err(_) => out.count(&format!("harness/fault_injection_panicked/{}", f)),
            }
        }
    }
    // pairs of faults on small instances
    if m0.cells.len() <= 8 {
        let pairs = if thorough { 40 } else { 10 };
        for _ in 0..pairs {
            let f1 = FAULTS[rng.usize(FAULTS.len())];
            let f2 = FAULTS[rng.usize(FAULTS.len())];
            let mut t = pristine.clone();
            let r = guard(|| {
                let a = apply_fault(&mut t, f1, &mut rng)?;
                let b = apply_fault(&mut t, f2, &mut rng)?;
                Some((a, b))
            });
            if let Ok(Some((a, b))) = r {
                out.count("applied/pair");
                compare::<K, D>(&t, gu, &[format!("{}@{}", f1, a), format!("{}@{}", f2, b)], out, &base);
            }
        }
    }
    if out.samples.len() < 3 {
        out.sample(json!({"D": D, "kernel": kn.name(), "family": fam.name(), "guarantee": format!("{:?}", gu), "vertices": m0.verts.len(), "cells": m0.cells.len(), "fault_kinds": FAULTS.len()}));
    }
}

pub fn run_case(ctx: &Ctx, out: &mut Out, cs: u64, d: usize, kn: Kn) {
    match (d, kn) {
        (2, Kn::Fast) => case::<FastKernel<f64>, 2>(ctx, out, cs, kn),
        (3, Kn::Fast) => case::<FastKernel<f64>, 3>(ctx, out, cs, kn),
        (4, Kn::Fast) => case::<FastKernel<f64>, 4>(ctx, out, cs, kn),
        (5, Kn::Fast) => case::<FastKernel<f64>, 5>(ctx, out, cs, kn),
        (2, Kn::Robust) => case::<RobustKernel<f64>, 2>(ctx, out, cs, kn),
        (3, Kn::Robust) => case::<RobustKernel<f64>, 3>(ctx, out, cs, kn),
        (4, Kn::Robust) => case::<RobustKernel<f64>, 4>(ctx, out, cs, kn),
        _ => case::<RobustKernel<f64>, 5>(ctx, out, cs, kn),
    }
}

pub fn run(ctx: &Ctx, out: &mut Out) {
    if let Some(doc) = &ctx.replay {
        if let (Some(cs), Some(d)) = (ctx.replay_seed(), doc["D"].as_u64()) {
            let kn = Kn::from_name(doc["kernel"].as_str().unwrap_or("fast")).unwrap_or(Kn::Fast);
            run_case(ctx, out, cs, d as usize, kn);
        } else {
            out.inconclusive("bad replay document");
        }
        return;
    }
    let cap = (if ctx.tier == Tier::Thorough { 200_000.0 } else { 3_000.0 } * ctx.scale) as u64;
    let mut i = 0u64;
    while i < cap && !ctx.out_of_time() {
        let cs = ctx.case_seed(i);
        let d = super::c01::pick_dim(cs >> 7);
        let kn = if (cs >> 3) & 1 == 0 { Kn::Fast } else { Kn::Robust };
        run_case(ctx, out, cs, d, kn);
        i += 1;
    }
}
