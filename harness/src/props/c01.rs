//! C01 — every successful batch construction returns a certified Delaunay triangulation.

use crate::api::Kn;
use crate::common::{Ctx, Out, Tier, guard, pts_json};
use crate::fingerprint;
use crate::r#gen::{self as g, ALL_FAMILIES, Family};
use crate::model::RefModel;
use crate::refcheck::Guarantee;
use crate::rng::Rng;
use crate::tri::{self, GUARANTEES, Input, Opts};
use delaunay::core::builder::DelaunayTriangulationBuilder;
use delaunay::core::delaunay_triangulation::{ConstructionStatistics, DedupPolicy, DelaunayTriangulation};
use delaunay::geometry::kernel::{FastKernel, Kernel, RobustKernel};
use serde_json::{Value, json};

const P: &str = "C01";

struct BuiltInfo<const D: usize> {
    unit_data: bool,
    model: RefModel<D>,
    guarantee: Guarantee,
    stats: Option<ConstructionStatistics>,
    lib_validate_ok: bool,
}

type R<const D: usize> = Result<BuiltInfo<D>, String>;

fn dbg<K, U, V, const D: usize>(dt: &DelaunayTriangulation<K, U, V, D>) -> bool
where
    K: Kernel<D, Scalar = f64>,
    U: crate::model::DataI,
    V: crate::model::DataI,
{
    let ok = dt.validate().is_ok();
    if std::env::var_os("DVERIF_DEBUG").is_some() {
        crate::tri::debug_dump(dt);
    }
    ok
}

fn stats_err(e: delaunay::core::delaunay_triangulation::DelaunayTriangulationConstructionErrorWithStatistics) -> String {
    e.error.to_string()
}

/// Runs one constructor variant; everything library-typed is reduced to a RefModel here.
fn construct<K, const D: usize>(variant: usize, inp: &[Input<D>], gu: Guarantee, opts: &Opts) -> (R<D>, &'static str)
where
    K: Kernel<D, Scalar = f64>,
{
    let kernel = K::default();
    let tg = gu.to_lib();
    let o = opts.to_lib();
    match variant {
        0 => {
            let verts = tri::to_vertices::<i32, D>(inp);
            let r = DelaunayTriangulation::<K, i32, i32, D>::with_topology_guarantee_and_options(&kernel, &verts, tg, o)
                .map(|dt| BuiltInfo { unit_data: false, model: RefModel::from_dt(&dt), guarantee: gu, stats: None, lib_validate_ok: dbg(&dt) })
                .map_err(|e| e.to_string());
            (r, "with_topology_guarantee_and_options")
        }
        1 => {
            let verts = tri::to_vertices::<i32, D>(inp);
            let r = DelaunayTriangulation::<K, i32, i32, D>::with_topology_guarantee_and_options_with_construction_statistics(&kernel, &verts, tg, o)
                .map(|(dt, st)| BuiltInfo { unit_data: false, model: RefModel::from_dt(&dt), guarantee: gu, stats: Some(st), lib_validate_ok: dbg(&dt) })
                .map_err(stats_err);
            (r, "with_topology_guarantee_and_options_with_construction_statistics")
        }
        2 => {
            let verts = tri::to_vertices::<i32, D>(inp);
            let r = DelaunayTriangulationBuilder::from_vertices(&verts)
                .topology_guarantee(tg)
                .construction_options(o)
                .build_with_kernel::<K, i32>(&kernel)
                .map(|dt| BuiltInfo { unit_data: false, model: RefModel::from_dt(&dt), guarantee: gu, stats: None, lib_validate_ok: dbg(&dt) })
                .map_err(|e| e.to_string());
            (r, "Builder::build_with_kernel")
        }
        3 => {
            let verts = tri::to_vertices::<i32, D>(inp);
            let r = DelaunayTriangulation::<K, i32, (), D>::with_kernel(&kernel, &verts)
                .map(|dt| BuiltInfo { unit_data: false, model: RefModel::from_dt(&dt), guarantee: Guarantee::PLManifold, stats: None, lib_validate_ok: dbg(&dt) })
                .map_err(|e| e.to_string());
            (r, "with_kernel")
        }
        _ => {
            let verts = tri::to_vertices::<(), D>(inp);
            let r = DelaunayTriangulation::<K, (), (), D>::with_topology_guarantee(&kernel, &verts, tg)
                .map(|dt| BuiltInfo { unit_data: true, model: RefModel::from_dt(&dt), guarantee: gu, stats: None, lib_validate_ok: dbg(&dt) })
                .map_err(|e| e.to_string());
            (r, "with_topology_guarantee")
        }
    }
}

/// The `new*` family exists only for FastKernel<f64>, (), ().
fn construct_new<const D: usize>(variant: usize, inp: &[Input<D>], gu: Guarantee, opts: &Opts) -> (R<D>, &'static str) {
    type T<const D: usize> = DelaunayTriangulation<FastKernel<f64>, (), (), D>;
    let verts = tri::to_vertices::<(), D>(inp);
    let o = opts.to_lib();
    let pl = Guarantee::PLManifold;
    let mk = |dt: &T<D>, gu: Guarantee, st: Option<ConstructionStatistics>| BuiltInfo { unit_data: true, model: RefModel::from_dt(dt), guarantee: gu, stats: st, lib_validate_ok: dbg(dt) };
    match variant {
        0 => (T::<D>::new(&verts).map(|dt| mk(&dt, pl, None)).map_err(|e| e.to_string()), "new"),
        1 => (T::<D>::new_with_options(&verts, o).map(|dt| mk(&dt, pl, None)).map_err(|e| e.to_string()), "new_with_options"),
        2 => (T::<D>::new_with_topology_guarantee(&verts, gu.to_lib()).map(|dt| mk(&dt, gu, None)).map_err(|e| e.to_string()), "new_with_topology_guarantee"),
        3 => (T::<D>::new_with_construction_statistics(&verts).map(|(dt, st)| mk(&dt, pl, Some(st))).map_err(stats_err), "new_with_construction_statistics"),
        4 => (T::<D>::new_with_options_and_construction_statistics(&verts, o).map(|(dt, st)| mk(&dt, pl, Some(st))).map_err(stats_err), "new_with_options_and_construction_statistics"),
        _ => (DelaunayTriangulationBuilder::new(&verts).topology_guarantee(gu.to_lib()).construction_options(o).build::<()>().map(|dt| mk(&dt, gu, None)).map_err(|e| e.to_string()), "Builder::build"),
    }
}

fn distinct_exact<const D: usize>(inp: &[Input<D>]) -> usize {
    let mut s = std::collections::HashSet::new();
    for i in inp {
        s.insert(i.p.map(|x| if x == 0.0 { 0u64 } else { x.to_bits() }));
    }
    s.len()
}

fn case<const D: usize>(ctx: &Ctx, out: &mut Out, cs: u64) {
    let mut rng = Rng::new(cs);
    let thorough = ctx.tier == Tier::Thorough;
    let fam: Family = *rng.pick(&ALL_FAMILIES);
    let n = g::size_for::<D>(&mut rng, thorough);
    let pts = g::points::<D>(&mut rng, fam, n);
    let inp = tri::mk_inputs(&mut rng, &pts);
    let gu = *rng.pick(&GUARANTEES);
    let opts = if rng.chance(1, 4) { Opts::default_like() } else { Opts::random(&mut rng) };
    let kn = if rng.bool() { Kn::Fast } else { Kn::Robust };
    let family_new = kn == Kn::Fast && rng.chance(1, 3);
    let variant = rng.usize(6);
    let replay = json!({"property": P, "case_seed": cs.to_string(), "D": D, "family": fam.name(), "n": inp.len(), "kernel": kn.name(),
        "guarantee": format!("{:?}", gu), "options": opts.describe(), "points": pts_json(&pts)});
    out.eval();
    let res = guard(|| {
        if family_new {
            construct_new::<D>(variant, &inp, gu, &opts)
        } else {
            match kn {
                Kn::Fast => construct::<FastKernel<f64>, D>(variant % 5, &inp, gu, &opts),
                Kn::Robust => construct::<RobustKernel<f64>, D>(variant % 5, &inp, gu, &opts),
            }
        }
    });
    let (r, ctor) = match res {
        Ok(x) => x,
        Err(pi) => {
            out.panic(P, &pi, "batch construction", replay);
            return;
        }
    };
    out.count(&format!("ctor/{}", ctor));
    out.count(&format!("D{}/{}", D, fam.name()));
    match r {
        Err(e) => {
            out.count("result/Err");
            let kind: String = e.split(':').next().unwrap_or("").chars().take(40).collect();
            out.count(&format!("err/{}", kind));
        }
        Ok(b) => {
            out.count("result/Ok");
            let m = &b.model;
            if m.verts.len() > D + 2 {
                out.nontrivial(&format!("{}|{}|{:?}", fingerprint::geom(m), opts.describe(), b.guarantee));
            }
            let t0 = std::time::Instant::now();
            let cert = tri::certify(m, b.guarantee, true, true, true);
            out.add("oracle_ms", t0.elapsed().as_millis() as u64);
            out.add("judged/insphere_pairs", cert.pairs);
            out.add("not_judged/ambiguous", cert.ambiguous);
            if cert.unique {
                out.count("unique_certificate");
            }
            if !cert.ok() {
                let mut rp = replay.clone();
                rp["constructor"] = json!(ctor);
                rp["failures"] = json!(cert.summary());
                // magnitude class of the input: the predicates' tolerance grows linearly with the
                // coordinates, the rounding error of a determinant with their D-th power, so far from unit
                // scale exactly degenerate input is no longer recognised (recorded finding); unit-scale
                // signatures stay as they are
                let maxabs = inp.iter().flat_map(|i| i.p.iter().map(|x| x.abs())).fold(0.0f64, f64::max);
                let scale = if maxabs > 1e6 { "/scale-huge" } else if maxabs < 1e-3 { "/scale-tiny" } else { "" };
                tri::report_cert(out, P, &format!("D{}/{}/{:?}{}", D, ctor_class(ctor), b.guarantee, scale), &cert, rp);
            }
            if !b.lib_validate_ok {
                out.count("lib_validate_rejects_own_result");
            }
            let acc = tri::vertex_accounting(m, &inp, b.unit_data);
            if !acc.is_empty() {
                let mut rp = replay.clone();
                rp["constructor"] = json!(ctor);
                out.violation(P, "accounting/vertex", format!("{}: {}", ctor, acc.iter().take(3).cloned().collect::<Vec<_>>().join("; ")), rp);
            }
            if let Some(st) = &b.stats {
                if st.inserted != m.verts.len() {
                    let mut rp = replay.clone();
                    rp["constructor"] = json!(ctor);
                    out.violation(P, "accounting/inserted", format!("{}: statistics.inserted = {} but {} vertices present", ctor, st.inserted, m.verts.len()), rp);
                }
                let expected_inputs = match opts.dedup {
                    DedupPolicy::Off => Some(inp.len()),
                    DedupPolicy::Exact => Some(distinct_exact(&inp)),
                    _ => None,
                };
                let uses_opts = ctor != "new_with_construction_statistics";
                let expected_inputs = if uses_opts { expected_inputs } else { Some(inp.len()) };
                if let Some(e) = expected_inputs {
                    if st.inserted + st.total_skipped() != e {
                        let mut rp = replay.clone();
                        rp["constructor"] = json!(ctor);
                        out.violation(P, "accounting/skipped", format!("{}: inserted {} + skipped {} != inputs after dedup {}", ctor, st.inserted, st.total_skipped(), e), rp);
                    }
                }
                if let (true, DedupPolicy::Epsilon { tolerance: t }) = (uses_opts, opts.dedup) {
                    // Epsilon policy: an input that is farther than the tolerance from every other input
                    // cannot be dropped by the policy, so it is either a vertex of the result or one of the
                    // skipped insertions (sufficient test per pair: some axis differs by more than 1.001 t).
                    let present: std::collections::HashSet<uuid::Uuid> = m.verts.iter().map(|v| v.uuid).collect();
                    let isolated = |i: usize| inp.iter().enumerate().all(|(j, o)| j == i || (0..D).any(|a| (inp[i].p[a] - o.p[a]).abs() > 1.001 * t));
                    let missing_isolated: Vec<usize> = (0..inp.len()).filter(|&i| !present.contains(&inp[i].uuid) && isolated(i)).collect();
                    out.add("accounting/epsilon/isolated_inputs_missing_from_result", missing_isolated.len() as u64);
                    if missing_isolated.len() > st.total_skipped() {
                        let mut rp = replay.clone();
                        rp["constructor"] = json!(ctor);
                        let i = missing_isolated[0];
                        out.violation(P, "accounting/epsilon-lost-vertex", format!("{}: {} inputs that are farther than the tolerance {:e} from every other input are missing from the result (e.g. {:?}) but only {} insertions are reported as skipped", ctor, missing_isolated.len(), t, inp[i].p, st.total_skipped()), rp);
                    }
                }
                if st.total_skipped() > 0 {
                    out.count("with_skipped_vertices");
                }
            }
            if out.samples.len() < 3 && m.verts.len() > D + 2 {
                out.sample(json!({"D": D, "family": fam.name(), "constructor": ctor, "kernel": kn.name(), "options": opts.describe(), "guarantee": format!("{:?}", b.guarantee),
                    "input_points": inp.len(), "vertices": m.verts.len(), "cells": m.cells.len(), "unique_certificate": cert.unique, "insphere_pairs_judged": cert.pairs}));
            }
        }
    }
}

fn ctor_class(c: &str) -> &'static str {
    if c.starts_with("new") || c == "Builder::build" { "new" } else { "generic" }
}

pub fn run_case(ctx: &Ctx, out: &mut Out, cs: u64, d: usize) {
    match d {
        2 => case::<2>(ctx, out, cs),
        3 => case::<3>(ctx, out, cs),
        4 => case::<4>(ctx, out, cs),
        _ => case::<5>(ctx, out, cs),
    }
}

pub fn pick_dim(rng_seed: u64) -> usize {
    if let Ok(v) = std::env::var("DVERIF_DIMS") {
        let ds: Vec<usize> = v.split(',').filter_map(|x| x.parse().ok()).collect();
        if !ds.is_empty() {
            return ds[(rng_seed % ds.len() as u64) as usize];
        }
    }
    // 2: 35%, 3: 35%, 4: 20%, 5: 10%
    match rng_seed % 20 {
        0..=6 => 2,
        7..=13 => 3,
        14..=17 => 4,
        _ => 5,
    }
}

/// Dimension choice for history monitors: with debug assertions on, single D>=4 operations can
/// take tens of seconds (flip repair cycling up to its budget, 6 heuristic rebuild attempts),
/// so the quick tier of the relassert profile stays in D<=3 (D>=4 is covered by the release profile and by the thorough tier).
pub fn pick_dim_hist(ctx: &Ctx, rng_seed: u64) -> usize {
    if cfg!(debug_assertions) && ctx.tier == Tier::Quick && std::env::var("DVERIF_DIMS").is_err() {
        return if rng_seed % 2 == 0 { 2 } else { 3 };
    }
    pick_dim(rng_seed)
}

pub fn run(ctx: &Ctx, out: &mut Out) {
    if let Some(doc) = &ctx.replay {
        if let (Some(cs), Some(d)) = (ctx.replay_seed(), doc["D"].as_u64()) {
            run_case(ctx, out, cs, d as usize);
        } else {
            out.inconclusive("bad replay document");
        }
        return;
    }
    let cap = (if ctx.tier == Tier::Thorough { 200_000.0 } else { 3_000.0 } * ctx.scale) as u64;
    let mut i = 0u64;
    while i < cap && !ctx.out_of_time() {
        let cs = ctx.case_seed(i);
        run_case(ctx, out, cs, pick_dim(cs >> 7));
        i += 1;
    }
    let _: Option<Value> = None;
}
