//! C09 — duplicate coordinates (tolerance 1e-10) and duplicate UUIDs are refused by construction
//! and insertion no matter which operations came before; a point is never refused as a duplicate
//! of a vertex that is no longer present.
//!
//! Oracle: the current vertex set is read through the public API (RefModel); distances are exact
//! dyadic arithmetic (`exact::dist2`). A probe is judged "must be refused" iff its exact distance
//! to some current vertex is <= 0.999e-10, "must not be refused as duplicate" iff its exact
//! distance to every current vertex is >= 1.001e-10, and is not judged in between (the library
//! compares a rounded squared distance with a rounded (1e-10)^2, strict `<`).
//! Probes run on clones, so histories continue undisturbed (the clone carries the same cache).

use crate::api::{Kn, mk_vertex};
use crate::common::{Ctx, Out, PanicInfo, Tier, bits, guard};
use crate::exact::{Dy, dist2};
use crate::r#gen::{self as g, Family};
use crate::hist::{self, Memory, Mix, Op, Res, Step};
use crate::model::{DataI, MVertex, RefModel};
use crate::refcheck::Guarantee;
use crate::rng::Rng;
use crate::tri::{self, Dt, GUARANTEES, Opts};
use delaunay::core::algorithms::incremental_insertion::InsertionError;
use delaunay::core::delaunay_triangulation::{DedupPolicy, DelaunayTriangulation, InitialSimplexStrategy, InsertionOrderStrategy, RetryPolicy};
use delaunay::core::operations::InsertionOutcome;
use delaunay::core::triangulation_data_structure::Tds;
use delaunay::geometry::kernel::{FastKernel, Kernel, RobustKernel};
use serde_json::{Value, json};
use std::collections::{BTreeSet, HashMap, HashSet};
use uuid::Uuid;

const P: &str = "C09";
const TOL: f64 = 1e-10;
/// the mix requested for C09 histories
fn mix() -> Mix {
    Mix { insert: 5, insert_stats: 3, remove: 4, flips: 5, repair: 2, policy: 1, misc: 2 }
}

// ---------------------------------------------------------------------------------------------
// exact distance helpers
// ---------------------------------------------------------------------------------------------

struct Th {
    lo2: Dy,
    hi2: Dy,
    two2: Dy,
}
fn th() -> Th {
    let sq = |x: f64| {
        let d = Dy::from_f64(x);
        d.mul(&d)
    };
    Th { lo2: sq(0.999e-10), hi2: sq(1.001e-10), two2: sq(2e-10) }
}

fn fdist2<const D: usize>(a: &[f64; D], b: &[f64; D]) -> f64 {
    (0..D).map(|j| (a[j] - b[j]) * (a[j] - b[j])).sum()
}

/// Index and exact squared distance of the current vertex nearest to `p` (float prefilter with a
/// window 1e-9 relative, far wider than the rounding error of the float distance; exact min inside).
fn nearest<const D: usize>(verts: &[MVertex<D>], p: &[f64; D]) -> Option<(usize, Dy)> {
    if verts.is_empty() {
        return None;
    }
    let f: Vec<f64> = verts.iter().map(|v| fdist2(&v.p, p)).collect();
    let fmin = f.iter().cloned().fold(f64::INFINITY, f64::min);
    let lim = fmin * (1.0 + 1e-9) + f64::MIN_POSITIVE;
    let mut best: Option<(usize, Dy)> = None;
    for (i, fd) in f.iter().enumerate() {
        if *fd <= lim || !fd.is_finite() {
            let d = dist2(&verts[i].p, p);
            if best.as_ref().map(|b| d.lt(&b.1)).unwrap_or(true) {
                best = Some((i, d));
            }
        }
    }
    best
}

#[derive(Clone, Copy, Debug, PartialEq, Eq)]
enum Need {
    MustRefuse,
    MustNotRefuse,
    NotJudged,
}

fn need_of(d2: Option<&Dy>, t: &Th) -> Need {
    match d2 {
        None => Need::MustNotRefuse, // no vertex at all
        Some(d) if d.le(&t.lo2) => Need::MustRefuse,
        Some(d) if d.ge(&t.hi2) => Need::MustNotRefuse,
        _ => Need::NotJudged,
    }
}

// ---------------------------------------------------------------------------------------------
// library calls
// ---------------------------------------------------------------------------------------------

#[derive(Clone, Copy, Debug, PartialEq, Eq)]
enum Api {
    Insert,
    Stats,
}
impl Api {
    fn name(self) -> &'static str {
        match self {
            Api::Insert => "insert",
            Api::Stats => "insert_with_statistics",
        }
    }
}

#[derive(Clone, Debug)]
enum Outcome<const D: usize> {
    /// inserted; coordinates of the vertex found under the probe's UUID afterwards
    Accepted(Option<[f64; D]>),
    /// refused with the duplicate-coordinates outcome; `shape_ok`: for insert_with_statistics the
    /// documented shape Ok(Skipped) + stats.skipped_duplicate()
    DupCoord { shape_ok: bool, text: String },
    DupUuid(String),
    Other(String),
}
impl<const D: usize> Outcome<D> {
    fn label(&self) -> &'static str {
        match self {
            Outcome::Accepted(_) => "accepted",
            Outcome::DupCoord { .. } => "duplicate-coordinates",
            Outcome::DupUuid(_) => "duplicate-uuid",
            Outcome::Other(_) => "other-error",
        }
    }
    fn text(&self) -> String {
        match self {
            Outcome::Accepted(p) => format!("inserted at {:?}", p),
            Outcome::DupCoord { text, .. } | Outcome::DupUuid(text) | Outcome::Other(text) => text.clone(),
        }
    }
}

fn classify_err<const D: usize>(e: &InsertionError, shape_ok: bool) -> Outcome<D> {
    let text: String = e.to_string().chars().take(240).collect();
    if matches!(e, InsertionError::DuplicateCoordinates { .. }) || text.contains("Duplicate coordinates") {
        return Outcome::DupCoord { shape_ok, text };
    }
    if matches!(e, InsertionError::DuplicateUuid { .. }) || text.contains("uplicate UUID") || text.contains("DuplicateUuid") {
        return Outcome::DupUuid(text);
    }
    Outcome::Other(text)
}

/// Short stable names of operation kinds for signatures.
fn short(kind: &str) -> String {
    kind.replace("insert_with_statistics", "insert")
        .replace("repair_delaunay_with_flips_advanced", "repair_advanced")
        .replace("repair_delaunay_with_flips", "repair")
        .replace("flip_k2_inverse_from_edge", "flip_k2_inv")
        .replace("flip_k3_inverse_from_triangle", "flip_k3_inv")
        .replace("remove_vertex", "remove")
}

/// The coordinates named in a duplicate-coordinates error text (`[x, y, ..]`, Debug formatting of
/// f64 round-trips exactly): the coordinates the library actually tested, which differ from the
/// requested ones when the refusal happened on a perturbed retry.
fn coords_in_error<const D: usize>(text: &str) -> Option<[f64; D]> {
    let a = text.find('[')?;
    let b = text[a..].find(']')? + a;
    let v: Vec<f64> = text[a + 1..b].split(',').map(|t| t.trim().parse::<f64>()).collect::<Result<_, _>>().ok()?;
    if v.len() != D {
        return None;
    }
    let mut p = [0.0; D];
    p.copy_from_slice(&v);
    Some(p)
}

fn err_class(s: &str) -> String {
    let t: String = s.chars().take_while(|c| *c != ':' && *c != '(' && *c != '{').collect();
    t.trim().chars().take(40).collect()
}

/// One probe insertion on `c` (normally a clone).
fn call_insert<K, U, V, const D: usize>(c: &mut DelaunayTriangulation<K, U, V, D>, p: [f64; D], uuid: Uuid, api: Api) -> Result<Outcome<D>, PanicInfo>
where
    K: Kernel<D, Scalar = f64>,
    U: DataI,
    V: DataI,
{
    guard(|| {
        let v = mk_vertex::<U, D>(p, uuid, None);
        let o = match api {
            Api::Insert => match c.insert(v) {
                Ok(_) => None,
                Err(e) => Some(classify_err::<D>(&e, true)),
            },
            Api::Stats => match c.insert_with_statistics(v) {
                Ok((InsertionOutcome::Inserted { .. }, _)) => None,
                Ok((InsertionOutcome::Skipped { error }, st)) => Some(classify_err::<D>(&error, st.skipped_duplicate())),
                // documented: duplicates come back as Ok(Skipped); a hard Err(DuplicateCoordinates) has the wrong shape
                Err(e) => Some(classify_err::<D>(&e, false)),
            },
        };
        match o {
            Some(o) => o,
            None => {
                let at = c.tds().vertex_key_from_uuid(&uuid).and_then(|k| c.tds().get_vertex_by_key(k)).map(|v| *v.point().coords());
                Outcome::Accepted(at)
            }
        }
    })
}

// ---------------------------------------------------------------------------------------------
// per-case tracker
// ---------------------------------------------------------------------------------------------

#[derive(Clone, Debug)]
struct Former<const D: usize> {
    uuid: Uuid,
    p: [f64; D],
    by: &'static str,
}

struct Tracker<const D: usize> {
    base: Value,
    th: Th,
    former: Vec<Former<D>>,
    /// uuid -> operation kind that created the vertex (+rekeyed when its key changed later)
    touch: HashMap<Uuid, String>,
    /// uuid -> operation kind that last changed the vertex's key
    rekeyed_by: HashMap<Uuid, &'static str>,
    last_mut: &'static str,
    /// successful mutating op kinds since the cache was last dropped (as_triangulation_mut / load)
    since_reset: BTreeSet<&'static str>,
    close: HashSet<(Uuid, Uuid)>,
    max_verts: usize,
    log: Vec<Value>,
    reported: HashSet<String>,
    n_reported: usize,
    probe_rounds: u64,
}

fn pair_key(a: Uuid, b: Uuid) -> (Uuid, Uuid) {
    if a <= b { (a, b) } else { (b, a) }
}

impl<const D: usize> Tracker<D> {
    fn new(base: Value, m: &RefModel<D>, origin: &'static str) -> Self {
        let mut t = Self {
            base,
            th: th(),
            former: Vec::new(),
            touch: HashMap::new(),
            rekeyed_by: HashMap::new(),
            last_mut: origin,
            since_reset: BTreeSet::new(),
            close: HashSet::new(),
            max_verts: m.verts.len(),
            log: Vec::new(),
            reported: HashSet::new(),
            n_reported: 0,
            probe_rounds: 0,
        };
        for v in &m.verts {
            t.touch.insert(v.uuid, origin.to_string());
        }
        t.close = t.close_pairs(m);
        t
    }

    fn touch_of(&self, u: &Uuid) -> String {
        self.touch.get(u).cloned().unwrap_or_else(|| "none".into())
    }

    fn close_pairs(&self, m: &RefModel<D>) -> HashSet<(Uuid, Uuid)> {
        let mut s = HashSet::new();
        for i in 0..m.verts.len() {
            for j in i + 1..m.verts.len() {
                if fdist2(&m.verts[i].p, &m.verts[j].p) < 4e-20 && dist2(&m.verts[i].p, &m.verts[j].p).le(&self.th.lo2) {
                    s.insert(pair_key(m.verts[i].uuid, m.verts[j].uuid));
                }
            }
        }
        s
    }

    fn report(&mut self, out: &mut Out, sig: String, desc: String, extra: Value) {
        out.count(&format!("violations_all/{}", sig));
        if self.n_reported >= 10 || !self.reported.insert(sig.clone()) {
            out.count("violations_suppressed_repeat_in_case");
            return;
        }
        self.n_reported += 1;
        let mut rp = self.base.clone();
        rp["history"] = json!(self.log);
        rp["witness"] = extra;
        out.violation(P, &sig, desc, rp);
    }

    fn panic(&self, out: &mut Out, pi: &PanicInfo, what: &str) {
        let mut rp = self.base.clone();
        rp["history"] = json!(self.log);
        out.panic(P, pi, what, rp);
    }

    /// Bookkeeping and the history-level checks after one applied operation.
    /// `hist_insert`: for insert operations of the history itself: (point, uuid, outcome, api).
    #[allow(clippy::too_many_arguments)]
    fn on_change(&mut self, out: &mut Out, kind: &'static str, entry: Value, changed_ok: bool, drops_cache: bool, pre: &RefModel<D>, post: &RefModel<D>, hist_insert: Option<([f64; D], Uuid, Outcome<D>, Api)>) {
        let step = self.log.len();
        self.log.push(entry);
        self.max_verts = self.max_verts.max(post.verts.len());
        let last_mut_before = self.last_mut;

        // history insertions judged like probes (fresh UUID only)
        if let Some((p, uuid, o, api)) = hist_insert {
            if !pre.verts.iter().any(|v| v.uuid == uuid) {
                let near = nearest(&pre.verts, &p);
                let is_former = self.former.iter().any(|f| f.p.map(f64::to_bits) == p.map(f64::to_bits));
                let class = if is_former { "hist/former-position" } else { "hist" };
                self.judge_coordinate_probe(out, class, &pre.verts, p, uuid, api, &o, near, step);
            } else {
                out.count("hist_insert/not_judged/reused-uuid");
            }
        }

        // vertex diff by UUID
        let pre_by: HashMap<Uuid, &MVertex<D>> = pre.verts.iter().map(|v| (v.uuid, v)).collect();
        let post_by: HashMap<Uuid, &MVertex<D>> = post.verts.iter().map(|v| (v.uuid, v)).collect();
        let mut vertex_set_changed = false;
        for v in &pre.verts {
            match post_by.get(&v.uuid) {
                None => {
                    vertex_set_changed = true;
                    self.former.push(Former { uuid: v.uuid, p: v.p, by: kind });
                    self.touch.remove(&v.uuid);
                    self.rekeyed_by.remove(&v.uuid);
                }
                Some(w) => {
                    if w.key != v.key {
                        let e = self.touch.entry(v.uuid).or_insert_with(|| "none".into());
                        if !e.ends_with("+rekeyed") {
                            e.push_str("+rekeyed");
                        }
                        out.count(&format!("note/vertex_rekeyed_by/{}", kind));
                        self.rekeyed_by.insert(v.uuid, kind);
                    }
                    if w.p.map(f64::to_bits) != v.p.map(f64::to_bits) {
                        vertex_set_changed = true;
                        out.count(&format!("note/vertex_moved_by/{}", kind));
                        self.former.push(Former { uuid: Uuid::nil(), p: v.p, by: kind });
                    }
                }
            }
        }
        for v in &post.verts {
            if !pre_by.contains_key(&v.uuid) {
                vertex_set_changed = true;
                self.touch.insert(v.uuid, kind.to_string());
                self.former.retain(|f| f.uuid != v.uuid);
            }
        }
        if self.former.len() > 200 {
            let cut = self.former.len() - 200;
            self.former.drain(0..cut);
        }
        let cells_changed = pre.cells.len() != post.cells.len() || pre.generation != post.generation;
        if changed_ok && (vertex_set_changed || cells_changed) {
            self.last_mut = kind;
            self.since_reset.insert(kind);
        }
        if drops_cache {
            self.since_reset.clear();
        }

        // pair invariant
        let now = self.close_pairs(post);
        let created: Vec<(Uuid, Uuid)> = now.iter().filter(|k| !self.close.contains(*k)).cloned().collect();
        for (a, b) in created {
            let (va, vb) = (post_by.get(&a), post_by.get(&b));
            let (Some(va), Some(vb)) = (va, vb) else { continue };
            let newer_is_a = !pre_by.contains_key(&a);
            let (new_v, old_v) = if newer_is_a { (va, vb) } else { (vb, va) };
            let d = dist2(&va.p, &vb.p).approx().sqrt();
            if kind == "flip_k1_insert" {
                // Edit-API call, documented without a duplicate check
                out.count("note/close_pair_created_by_flip_k1_insert");
                continue;
            }
            let old_touch = self.touch_of(&old_v.uuid);
            for k in self.since_reset.clone() {
                out.count(&format!("accepted_duplicate_preceded_by/{}", k));
            }
            let sig = format!("pair/created-by/{}/{}/after-{}", short(kind), short(&old_touch), short(last_mut_before));
            let desc = format!(
                "after {} two current vertices are {:e} apart (<= 0.999e-10): {:?} (uuid {}, from {}) and {:?} (uuid {}, from {}); they were not both present before this step",
                kind, d, new_v.p, new_v.uuid, self.touch_of(&new_v.uuid), old_v.p, old_v.uuid, old_touch
            );
            let extra = json!({"step": step, "pair": [{"uuid": new_v.uuid.to_string(), "p": new_v.p.to_vec(), "bits": bits(&new_v.p)}, {"uuid": old_v.uuid.to_string(), "p": old_v.p.to_vec(), "bits": bits(&old_v.p)}], "distance": d});
            self.report(out, sig, desc, extra);
        }
        self.close = now;
    }

    /// Verdict for a probe with a fresh UUID at `p` given the vertex set `cur` it was run against.
    #[allow(clippy::too_many_arguments)]
    fn judge_coordinate_probe(&mut self, out: &mut Out, class: &str, cur: &[MVertex<D>], p: [f64; D], uuid: Uuid, api: Api, o: &Outcome<D>, near: Option<(usize, Dy)>, step: usize) {
        let need = need_of(near.as_ref().map(|n| &n.1), &self.th);
        let (near_v, near_d) = match &near {
            Some((i, d)) => (Some(&cur[*i]), d.approx().sqrt()),
            None => (None, f64::INFINITY),
        };
        let relevant_touch = match class {
            c if c.contains("former") => self.former.iter().rev().find(|f| f.p.map(f64::to_bits) == p.map(f64::to_bits)).map(|f| format!("removed-by-{}", f.by)).unwrap_or_else(|| "none".into()),
            _ => near_v.map(|v| self.touch_of(&v.uuid)).unwrap_or_else(|| "none".into()),
        };
        let relevant_touch = short(&relevant_touch);
        // signatures: cell-border probes are near probes
        let sclass = class.replace("dup/current/cell-border", "dup/current/near").replace("dup/false-positive/cell-border", "dup/false-positive/current-neighbour");
        let sclass = sclass.as_str();
        let witness = |verdict: &str| {
            json!({
                "step": step, "probe_class": class, "api": api.name(), "verdict": verdict,
                "probe": {"p": p.to_vec(), "bits": bits(&p), "uuid": uuid.to_string()},
                "nearest_current_vertex": near_v.map(|v| json!({"uuid": v.uuid.to_string(), "p": v.p.to_vec(), "bits": bits(&v.p), "created_by": self.touch_of(&v.uuid), "rekeyed_by": self.rekeyed_by.get(&v.uuid)})),
                "exact_distance_approx": if near_d.is_finite() { json!(near_d) } else { json!(null) },
                "result": o.text(),
                "n_current_vertices": cur.len(),
            })
        };
        match need {
            Need::NotJudged => out.count(&format!("probe/{}/not_judged/distance-in-band", class)),
            Need::MustRefuse => match o {
                Outcome::DupCoord { shape_ok, .. } => {
                    out.count(&format!("probe/{}/must-refuse/refused", class));
                    if !*shape_ok {
                        let w = witness("wrong-shape");
                        self.report(out, format!("{}/refused-wrong-shape/{}", sclass, api.name()), format!("{} of a point {:e} from a current vertex reported duplicate coordinates but not as Ok(Skipped)+stats.skipped_duplicate(): {}", api.name(), near_d, o.text()), w);
                    }
                }
                Outcome::Accepted(at) => {
                    // where did the vertex end up (a perturbation retry may have displaced it)?
                    let displaced = match (at, near_v) {
                        (Some(q), Some(v)) => !dist2(q, &v.p).le(&self.th.lo2),
                        _ => false,
                    };
                    let verdict = if displaced { "accepted-displaced" } else { "accepted" };
                    if let Some(k) = near_v.and_then(|v| self.rekeyed_by.get(&v.uuid)) {
                        out.count(&format!("missed_duplicate_of_vertex_rekeyed_by/{}", k));
                    }
                    out.count(&format!("probe/{}/must-refuse/{}", class, verdict));
                    for k in self.since_reset.clone() {
                        out.count(&format!("accepted_duplicate_preceded_by/{}", k));
                    }
                    let w = witness(verdict);
                    self.report(
                        out,
                        format!("{}/{}/{}/after-{}", sclass, verdict, relevant_touch, short(self.last_mut)),
                        format!("{} accepted a point at exact distance {:e} (<= 0.999e-10) from current vertex {:?} (created by {}); vertex stored at {:?}", api.name(), near_d, near_v.map(|v| v.p), relevant_touch, at),
                        w,
                    );
                }
                Outcome::DupUuid(_) | Outcome::Other(_) => {
                    out.count(&format!("probe/{}/must-refuse/wrong-error", class));
                    if let Some(k) = near_v.and_then(|v| self.rekeyed_by.get(&v.uuid)) {
                        out.count(&format!("missed_duplicate_of_vertex_rekeyed_by/{}", k));
                    }
                    out.count(&format!("wrong_error_class/{}", err_class(&o.text())));
                    let w = witness("wrong-error");
                    self.report(
                        out,
                        format!("{}/wrong-error/{}/after-{}", sclass, relevant_touch, short(self.last_mut)),
                        format!("{} of a point at exact distance {:e} (<= 0.999e-10) from current vertex {:?} (created by {}) was refused, but not with the duplicate-coordinates outcome: {}", api.name(), near_d, near_v.map(|v| v.p), relevant_touch, o.text()),
                        w,
                    );
                }
            },
            Need::MustNotRefuse => match o {
                Outcome::DupCoord { text, .. } => {
                    // which coordinates did the library test? (a perturbed retry tests other ones)
                    let tested: Option<[f64; D]> = coords_in_error::<D>(text);
                    let same = tested.map(|q| q.map(f64::to_bits) == p.map(f64::to_bits)).unwrap_or(false);
                    if !same {
                        let justified = tested.map(|q| need_of(nearest(cur, &q).as_ref().map(|n| &n.1), &self.th));
                        match justified {
                            Some(Need::MustRefuse) => {
                                // not a C09 violation: the retry's coordinates are a near-duplicate of a present vertex
                                out.count(&format!("probe/{}/must-not-refuse/refused-because-perturbed-retry-is-a-duplicate", class));
                                out.count("note/non_duplicate_input_refused_as_duplicate_after_perturbation");
                                return;
                            }
                            Some(Need::NotJudged) | None => {
                                out.count(&format!("probe/{}/not_judged/refused-with-unparsable-or-in-band-retry-coordinates", class));
                                return;
                            }
                            Some(Need::MustNotRefuse) => {}
                        }
                    }
                    out.count(&format!("probe/{}/must-not-refuse/refused-as-duplicate", class));
                    let w = witness("false-positive");
                    self.report(
                        out,
                        format!("{}/{}/after-{}", sclass, relevant_touch, short(self.last_mut)),
                        format!("{} refused a point as duplicate coordinates although every current vertex is >= 1.001e-10 away (nearest {:?} at {:e}): {}", api.name(), near_v.map(|v| v.p), near_d, o.text()),
                        w,
                    );
                }
                other => out.count(&format!("probe/{}/must-not-refuse/{}", class, other.label())),
            },
        }
    }
}

// ---------------------------------------------------------------------------------------------
// probe round (on clones)
// ---------------------------------------------------------------------------------------------

fn offset_point<const D: usize>(rng: &mut Rng, v: &[f64; D], len: f64, diag: bool) -> [f64; D] {
    let mut p = *v;
    if !diag || D < 2 {
        let j = rng.usize(D);
        p[j] += if rng.bool() { len } else { -len };
    } else {
        let k = 2 + rng.usize(D - 1);
        let mut idx: Vec<usize> = (0..D).collect();
        rng.shuffle(&mut idx);
        let comp = len / (k as f64).sqrt();
        for &j in idx.iter().take(k) {
            p[j] += if rng.bool() { comp } else { -comp };
        }
    }
    p
}

fn next_toward(x: f64, up: bool) -> f64 {
    if !x.is_finite() {
        return x;
    }
    if x == 0.0 {
        return if up { f64::from_bits(1) } else { -f64::from_bits(1) };
    }
    let b = x.to_bits();
    let inc = (x > 0.0) == up;
    f64::from_bits(if inc { b + 1 } else { b - 1 })
}

/// A point on / next to a hash-grid cell border (k * 1e-10) near vertex `v`.
fn straddle_point<const D: usize>(rng: &mut Rng, v: &[f64; D]) -> Option<[f64; D]> {
    let mut p = *v;
    let axes = if D >= 2 && rng.bool() { 2 } else { 1 };
    let mut idx: Vec<usize> = (0..D).collect();
    rng.shuffle(&mut idx);
    for &j in idx.iter().take(axes) {
        let q = (v[j] / TOL).floor();
        if !q.is_finite() || q.abs() > 2f64.powi(51) {
            return None;
        }
        let b = (q + if rng.bool() { 1.0 } else { 0.0 }) * TOL;
        p[j] = match rng.usize(5) {
            0 => b,
            1 => next_toward(b, true),
            2 => next_toward(b, false),
            3 => b + 3e-12,
            _ => b - 3e-12,
        };
    }
    Some(p)
}

struct ProbeCfg {
    max_current: usize,
    max_former: usize,
    max_uuid: usize,
    fresh_step: f64,
}

/// Runs the probe battery against the state of `dt` (each probe on its own clone).
/// Returns false when a probe panicked or the time budget is exhausted.
fn probe_round<K, U, V, const D: usize>(ctx: &Ctx, out: &mut Out, dt: &DelaunayTriangulation<K, U, V, D>, rng: &mut Rng, tr: &mut Tracker<D>, cfg: &ProbeCfg) -> bool
where
    K: Kernel<D, Scalar = f64>,
    U: DataI,
    V: DataI,
{
    let m = RefModel::from_dt(dt);
    let cur = &m.verts;
    let step = tr.log.len();
    tr.probe_rounds += 1;
    out.count("probe_rounds");
    // sample of current vertices: interesting ones (flip-inserted, re-keyed) first
    let mut order: Vec<usize> = (0..cur.len()).collect();
    rng.shuffle(&mut order);
    if cur.len() > cfg.max_current {
        let interesting = |i: &usize| {
            let t = tr.touch_of(&cur[*i].uuid);
            t.contains("flip") || t.contains("rekeyed")
        };
        let mut a: Vec<usize> = order.iter().cloned().filter(|i| interesting(i)).take(cfg.max_current / 2).collect();
        for i in &order {
            if a.len() >= cfg.max_current {
                break;
            }
            if !a.contains(i) {
                a.push(*i);
            }
        }
        order = a;
    }
    let run = |out: &mut Out, tr: &mut Tracker<D>, rng: &mut Rng, class: &str, p: [f64; D], uuid: Uuid, api: Api| -> Option<Outcome<D>> {
        let _ = rng;
        if p.iter().any(|x| !x.is_finite()) {
            return None;
        }
        let mut c = dt.clone();
        match call_insert(&mut c, p, uuid, api) {
            Ok(o) => {
                out.count(&format!("probe_calls/{}/{}", class, api.name()));
                Some(o)
            }
            Err(pi) => {
                let mut rp = tr.base.clone();
                rp["history"] = json!(tr.log);
                rp["witness"] = json!({"probe_class": class, "api": api.name(), "probe": {"p": p.to_vec(), "bits": bits(&p), "uuid": uuid.to_string()}});
                out.panic(P, &pi, &format!("{} (probe {})", api.name(), class), rp);
                None
            }
        }
    };
    let pick_api = |rng: &mut Rng| if rng.bool() { Api::Insert } else { Api::Stats };

    for &i in &order {
        if ctx.elapsed() > ctx.budget_s * 1.3 {
            return false;
        }
        let v = cur[i].clone();
        // exact duplicate, both entry points
        for api in [Api::Insert, Api::Stats] {
            let u = rng.uuid();
            let Some(o) = run(out, tr, rng, "dup/current/exact", v.p, u, api) else { return false };
            tr.judge_coordinate_probe(out, "dup/current/exact", cur, v.p, u, api, &o, Some((i, Dy::zero())), step);
        }
        // near duplicates
        for len in [0.5e-10, 0.998e-10] {
            for diag in [false, true] {
                let p = offset_point(rng, &v.p, len, diag);
                let near = nearest(cur, &p);
                let (u, api) = (rng.uuid(), pick_api(rng));
                let class = match need_of(near.as_ref().map(|n| &n.1), &tr.th) {
                    Need::MustRefuse => "dup/current/near",
                    _ => "dup/false-positive/current-neighbour",
                };
                let Some(o) = run(out, tr, rng, class, p, u, api) else { return false };
                tr.judge_coordinate_probe(out, class, cur, p, u, api, &o, near, step);
            }
        }
        // neighbours just outside the tolerance
        for len in [1.002e-10, 2e-10, 1e-9] {
            let diag = rng.bool();
            let p = offset_point(rng, &v.p, len, diag);
            let near = nearest(cur, &p);
            let (u, api) = (rng.uuid(), pick_api(rng));
            let class = match need_of(near.as_ref().map(|n| &n.1), &tr.th) {
                Need::MustRefuse => "dup/current/near",
                _ => "dup/false-positive/current-neighbour",
            };
            let Some(o) = run(out, tr, rng, class, p, u, api) else { return false };
            tr.judge_coordinate_probe(out, class, cur, p, u, api, &o, near, step);
        }
        // hash-grid cell borders
        if let Some(p) = straddle_point(rng, &v.p) {
            let near = nearest(cur, &p);
            let (u, api) = (rng.uuid(), pick_api(rng));
            let class = match need_of(near.as_ref().map(|n| &n.1), &tr.th) {
                Need::MustRefuse => "dup/current/cell-border",
                _ => "dup/false-positive/cell-border",
            };
            let Some(o) = run(out, tr, rng, class, p, u, api) else { return false };
            tr.judge_coordinate_probe(out, class, cur, p, u, api, &o, near, step);
        } else {
            out.count("probe/cell-border/skipped/grid-index-out-of-range");
        }
    }

    // former vertices
    let mut fo: Vec<usize> = (0..tr.former.len()).collect();
    rng.shuffle(&mut fo);
    let mut done = 0;
    for fi in fo {
        if done >= cfg.max_former {
            break;
        }
        let f = tr.former[fi].clone();
        let near = nearest(cur, &f.p);
        if near.as_ref().map(|n| n.1.lt(&tr.th.two2)).unwrap_or(false) {
            out.count("probe/former/skipped/current-vertex-within-2e-10");
            continue;
        }
        done += 1;
        let (u, api) = (rng.uuid(), pick_api(rng));
        let Some(o) = run(out, tr, rng, "dup/false-positive/former-vertex", f.p, u, api) else { return false };
        tr.judge_coordinate_probe(out, "dup/false-positive/former-vertex", cur, f.p, u, api, &o, near, step);
        // the UUID of the former vertex on a fresh point
        if !f.uuid.is_nil() && !cur.iter().any(|v| v.uuid == f.uuid) {
            if let Some(p) = fresh_point(rng, cur, &f.p, cfg.fresh_step, &tr.th) {
                let api = pick_api(rng);
                let Some(o) = run(out, tr, rng, "uuid/former", p, f.uuid, api) else { return false };
                match &o {
                    Outcome::DupUuid(t) => {
                        out.count("probe/uuid/former/refused-as-duplicate-uuid");
                        let sig = format!("uuid/false-positive-former/removed-by-{}/after-{}", short(f.by), short(tr.last_mut));
                        let desc = format!("{} of a fresh point {:?} with the UUID of a vertex that is no longer present (removed by {}) was refused as duplicate UUID: {}", api.name(), p, f.by, t);
                        let w = json!({"step": step, "api": api.name(), "probe": {"p": p.to_vec(), "bits": bits(&p), "uuid": f.uuid.to_string()}, "former_vertex": {"p": f.p.to_vec(), "removed_by": f.by}, "result": t});
                        tr.report(out, sig, desc, w);
                    }
                    other => out.count(&format!("probe/uuid/former/{}", other.label())),
                }
            }
        }
    }

    // reused UUID of a current vertex on a fresh point
    for &i in order.iter().take(cfg.max_uuid) {
        let v = &cur[i];
        let Some(p) = fresh_point(rng, cur, &v.p, cfg.fresh_step, &tr.th) else {
            out.count("probe/uuid/skipped/no-fresh-point");
            continue;
        };
        let api = pick_api(rng);
        let Some(o) = run(out, tr, rng, "uuid/reuse", p, v.uuid, api) else { return false };
        let touch = tr.touch_of(&v.uuid);
        let w = json!({"step": step, "api": api.name(), "probe": {"p": p.to_vec(), "bits": bits(&p), "uuid": v.uuid.to_string()}, "owner": {"p": v.p.to_vec(), "created_by": touch}, "result": o.text()});
        match &o {
            Outcome::DupUuid(_) => out.count("probe/uuid/reuse/refused"),
            Outcome::Accepted(_) => {
                out.count("probe/uuid/reuse/accepted");
                let sig = format!("uuid/reuse-accepted/{}/after-{}", short(&touch), short(tr.last_mut));
                tr.report(out, sig, format!("{} accepted a fresh point {:?} carrying the UUID of current vertex {:?} (created by {})", api.name(), p, v.p, touch), w);
            }
            Outcome::DupCoord { .. } | Outcome::Other(_) => {
                out.count("probe/uuid/reuse/wrong-error");
                out.count(&format!("wrong_error_class/{}", err_class(&o.text())));
                let sig = format!("uuid/reuse-wrong-error/{}/after-{}", short(&touch), short(tr.last_mut));
                tr.report(out, sig, format!("{} of a fresh point {:?} (>= 1.001e-10 from every vertex) carrying the UUID of current vertex {:?} (created by {}) was refused with another error: {}", api.name(), p, v.p, touch, o.text()), w);
            }
        }
    }
    true
}

/// A point away (>= 1.001e-10, exactly checked) from every current vertex, near `around`.
fn fresh_point<const D: usize>(rng: &mut Rng, cur: &[MVertex<D>], around: &[f64; D], stepsize: f64, t: &Th) -> Option<[f64; D]> {
    for _ in 0..6 {
        let mut p = *around;
        for x in p.iter_mut() {
            *x += stepsize * (rng.range_i64(-8, 8) as f64 + 0.37) / 8.0;
        }
        if need_of(nearest(cur, &p).as_ref().map(|n| &n.1), t) == Need::MustNotRefuse {
            return Some(p);
        }
    }
    None
}

// ---------------------------------------------------------------------------------------------
// history scenarios
// ---------------------------------------------------------------------------------------------

fn outcome_of_res<const D: usize>(res: &Res<D>, post: &RefModel<D>, uuid: Uuid) -> Outcome<D> {
    let classify_text = |text: &str, shape_ok: bool| -> Outcome<D> {
        let t: String = text.chars().take(240).collect();
        if t.contains("Duplicate coordinates") {
            Outcome::DupCoord { shape_ok, text: t }
        } else if t.contains("uplicate UUID") || t.contains("DuplicateUuid") {
            Outcome::DupUuid(t)
        } else {
            Outcome::Other(t)
        }
    };
    match res {
        Res::Inserted { .. } => Outcome::Accepted(post.verts.iter().find(|v| v.uuid == uuid).map(|v| v.p)),
        Res::Skipped { error, duplicate } => classify_text(error, *duplicate),
        Res::Err { error, .. } => classify_text(error, true),
        _ => Outcome::Other("unexpected result kind".into()),
    }
}

struct Sess<'a, K, const D: usize>
where
    K: Kernel<D, Scalar = f64>,
{
    ctx: &'a Ctx,
    dt: Dt<K, D>,
    mem: Memory<D>,
    rng: Rng,
    prng: Rng,
    tr: Tracker<D>,
    pcfg: ProbeCfg,
    alive: bool,
}

impl<'a, K, const D: usize> Sess<'a, K, D>
where
    K: Kernel<D, Scalar = f64>,
{
    fn observe(tr: &mut Tracker<D>, out: &mut Out, op: &Op<D>, res: &Result<Res<D>, PanicInfo>, pre: &RefModel<D>, post: &RefModel<D>) -> bool {
        let mut entry = op.to_json();
        match res {
            Ok(r) => {
                entry["result"] = json!(r.label());
                out.count(&format!("op/{}/{}", op.kind(), r.label()));
                let hi = match op {
                    Op::Insert { p, uuid, .. } => Some((*p, *uuid, outcome_of_res(r, post, *uuid), Api::Insert)),
                    Op::InsertStats { p, uuid, .. } => {
                        let mut o = outcome_of_res(r, post, *uuid);
                        // a hard Err(DuplicateCoordinates) from insert_with_statistics has the wrong shape
                        if let (Outcome::DupCoord { shape_ok, .. }, Res::Err { .. }) = (&mut o, r) {
                            *shape_ok = false;
                        }
                        Some((*p, *uuid, o, Api::Stats))
                    }
                    _ => None,
                };
                tr.on_change(out, op.kind(), entry, op.is_mutation() && !r.failed_or_skipped(), matches!(op, Op::TouchMut), pre, post, hi);
                true
            }
            Err(pi) => {
                entry["result"] = json!(format!("PANIC {}", pi.message));
                tr.log.push(entry);
                tr.panic(out, pi, op.kind());
                false
            }
        }
    }

    /// applies one scripted operation
    fn step(&mut self, out: &mut Out, op: Op<D>) -> Option<Res<D>> {
        if !self.alive {
            return None;
        }
        let pre = RefModel::from_dt(&self.dt);
        let res = hist::apply(&mut self.dt, &op);
        let post = RefModel::from_dt(&self.dt);
        if !Self::observe(&mut self.tr, out, &op, &res, &pre, &post) {
            self.alive = false;
        }
        res.ok()
    }

    fn probe(&mut self, out: &mut Out) {
        if !self.alive {
            return;
        }
        if !probe_round(self.ctx, out, &self.dt, &mut self.prng, &mut self.tr, &self.pcfg) {
            self.alive = false;
        }
    }

    /// generated history with probes after every k-th step and at the end
    fn random(&mut self, out: &mut Out, len: usize, k: usize) {
        if !self.alive || len == 0 {
            return;
        }
        let ctx = self.ctx;
        let (tr, prng, pcfg) = (&mut self.tr, &mut self.prng, &self.pcfg);
        let mut alive = true;
        let mx = mix();
        hist::run_history(&mut self.dt, &mut self.rng, &mut self.mem, &mx, len, |s: &Step<K, D>| {
            if !Self::observe(tr, out, s.op, s.res, s.pre, s.post) {
                alive = false;
                return false;
            }
            if ctx.elapsed() > ctx.budget_s * 1.3 {
                out.count("history_cut_by_budget");
                alive = false;
                return false;
            }
            if (s.index + 1) % k == 0 && !probe_round(ctx, out, s.dt, prng, tr, pcfg) {
                alive = false;
                return false;
            }
            true
        });
        self.alive = alive;
        self.probe(out);
    }

    fn model(&self) -> RefModel<D> {
        RefModel::from_dt(&self.dt)
    }

    /// a point on the workload grid, jittered off the lattice so that simplices are rarely degenerate
    fn new_point(&mut self) -> [f64; D] {
        let n = ((self.mem.extent / self.mem.grid) as i64).max(1);
        let mut p = [0.0; D];
        for x in p.iter_mut() {
            *x = (self.rng.range_i64(0, n) as f64 + self.rng.range_i64(0, 15) as f64 / 16.0) * self.mem.grid;
        }
        p
    }

    fn insert_new(&mut self, out: &mut Out) -> bool {
        let p = self.new_point();
        let uuid = self.rng.uuid();
        let op = if self.rng.bool() { Op::Insert { p, uuid, data: Some(5), how: "scripted" } } else { Op::InsertStats { p, uuid, data: Some(5), how: "scripted" } };
        matches!(self.step(out, op), Some(Res::Inserted { .. }))
    }

    fn remove_random(&mut self, out: &mut Out) -> bool {
        let m = self.model();
        if m.verts.is_empty() {
            return false;
        }
        let v = self.rng.pick(&m.verts).clone();
        match self.step(out, Op::Remove { uuid: v.uuid, p: v.p, how: "scripted" }) {
            Some(Res::Removed(_)) => self.model().verts.len() < m.verts.len(),
            _ => false,
        }
    }

    fn flip_insert_random(&mut self, out: &mut Out) -> Option<Uuid> {
        let m = self.model();
        if m.cells.is_empty() {
            return None;
        }
        let c = self.rng.pick(&m.cells).clone();
        let pts = m.cell_points(&c)?;
        let w: Vec<f64> = (0..pts.len()).map(|_| 1.0 + self.rng.usize(3) as f64).collect();
        let s: f64 = w.iter().sum();
        let mut p = [0.0; D];
        for j in 0..D {
            p[j] = pts.iter().zip(&w).map(|(x, wi)| x[j] * wi).sum::<f64>() / s;
        }
        let uuid = self.rng.uuid();
        match self.step(out, Op::FlipK1Insert { cell: c.key, p, uuid, how: "scripted" }) {
            Some(Res::Flip(_)) => Some(uuid),
            _ => None,
        }
    }
}

fn scenario_name(cs: u64) -> &'static str {
    match (cs >> 11) % 18 {
        0..=4 => "random",
        5 => "scaled-2^20",
        6 => "scaled-2^40",
        7 => "scaled-tiny",
        8 | 9 => "flip-insert-then-insert",
        10 | 11 => "bootstrap-rekey",
        12 | 13 => "drain-regrow",
        14 => "serde-tds",
        15 => "serde-unit",
        _ => "batch-neardup",
    }
}

/// Start for the scaled scenarios: lattice points times `scale`.
fn start_scaled<K, const D: usize>(rng: &mut Rng, scale: f64, out: &mut Out) -> Option<(Dt<K, D>, Memory<D>, Value)>
where
    K: Kernel<D, Scalar = f64>,
{
    let gu = *rng.pick(&GUARANTEES);
    let cells = [4i64, 8, 16][rng.usize(3)];
    let mem = Memory::<D> { grid: scale, extent: cells as f64 * scale, ..Default::default() };
    if rng.chance(2, 5) {
        let dt = Dt::<K, D>::with_empty_kernel_and_topology_guarantee(K::default(), gu.to_lib());
        return Some((dt, mem, json!({"start": "empty", "guarantee": format!("{:?}", gu), "scale": scale})));
    }
    let n = D + 2 + rng.usize(2 * D + 1);
    let mut pts: Vec<[f64; D]> = Vec::new();
    let mut seen = HashSet::new();
    while pts.len() < n {
        let mut q = [0i64; D];
        for x in q.iter_mut() {
            *x = rng.range_i64(0, cells * 4);
        }
        if seen.insert(q) {
            pts.push(q.map(|x| x as f64 * scale / 4.0));
        }
    }
    let inp = tri::mk_inputs(rng, &pts);
    match tri::build::<K, D>(&K::default(), &inp, gu, &Opts::default_like()) {
        Ok(Ok(dt)) => Some((dt, mem, json!({"start": "constructed", "family": "scaled-lattice", "scale": scale, "n": inp.len(), "guarantee": format!("{:?}", gu), "points": crate::common::pts_json(&pts)}))),
        Ok(Err(_)) => {
            out.count("start/construction_err");
            None
        }
        Err(pi) => {
            out.panic(P, &pi, "start construction", json!({"family": "scaled-lattice", "scale": scale}));
            None
        }
    }
}

fn history_case<K, const D: usize>(ctx: &Ctx, out: &mut Out, cs: u64, kn: Kn, scenario: &'static str)
where
    K: Kernel<D, Scalar = f64>,
{
    let mut rng = Rng::new(cs);
    let thorough = ctx.tier == Tier::Thorough;
    let scale = match scenario {
        "scaled-2^20" => Some(2f64.powi(20)),
        "scaled-2^40" => Some(2f64.powi(40)),
        "scaled-tiny" => Some(if D == 2 { 2f64.powi(-19) } else { 2f64.powi(-9) }),
        _ => None,
    };
    let started = match scale {
        Some(s) => start_scaled::<K, D>(&mut rng, s, out),
        None => {
            let mut st = crate::props::c02::start_dt::<K, D>(&mut rng, thorough, out);
            if scenario == "bootstrap-rekey" {
                // this scenario starts from the empty triangulation
                if let Some((dt, mem, start)) = st.as_mut() {
                    if dt.number_of_vertices() > 0 {
                        let gu = *rng.pick(&GUARANTEES);
                        *dt = Dt::<K, D>::with_empty_kernel_and_topology_guarantee(K::default(), gu.to_lib());
                        *start = json!({"start": "empty", "guarantee": format!("{:?}", gu)});
                        mem.grid = 1.0;
                        mem.extent = 8.0;
                    }
                }
            }
            st
        }
    };
    let Some((mut dt, mem, start)) = started else { return };
    let init: Vec<Op<D>> = vec![Op::SetValidationPolicy(rng.usize(4) as u8), Op::SetRepairPolicy(if rng.chance(1, 3) { 0 } else { rng.usize(4) as u8 })];
    for op in &init {
        let _ = hist::apply(&mut dt, op);
    }
    let base = json!({"property": P, "tier": if thorough { "thorough" } else { "quick" }, "case_seed": cs.to_string(), "D": D, "kernel": kn.name(), "scenario": scenario, "start": start, "initial_policies": init.iter().map(|o| o.to_json()).collect::<Vec<_>>()});
    let m0 = RefModel::from_dt(&dt);
    let tr = Tracker::new(base, &m0, "construction");
    let pcfg = ProbeCfg { max_current: if D >= 4 { 5 } else { 12 }, max_former: if D >= 4 { 3 } else { 6 }, max_uuid: 3, fresh_step: mem.grid };
    let len = if thorough { 30 + rng.usize(120) } else { 15 + rng.usize(45) };
    let len = if D >= 4 { len / 3 + 6 } else { len };
    let k = 3 + rng.usize(4);
    let prng = Rng::derive(cs, 9, 0);
    let mut s = Sess { ctx, dt, mem, rng, prng, tr, pcfg, alive: true };
    out.count(&format!("scenario/{}", scenario));
    out.count(&format!("D{}/{}", D, kn.name()));

    match scenario {
        "flip-insert-then-insert" => {
            // probe (A): Edit-API vertex insertion behind the cache, then insertions next to it
            while s.alive && s.model().cells.is_empty() && s.model().verts.len() < D + 3 {
                if !s.insert_new(out) && s.tr.log.len() > 6 * (D + 2) {
                    break;
                }
            }
            // make sure the cache exists before the flip (an insertion seeds it)
            s.insert_new(out);
            let fl = s.flip_insert_random(out);
            out.count(if fl.is_some() { "script/flip_k1_insert/ok" } else { "script/flip_k1_insert/failed" });
            s.probe(out);
            if let Some(u) = fl {
                if s.rng.bool() {
                    // and remove it again through the Edit API: its position becomes a former one
                    let m = s.model();
                    if let Some(v) = m.verts.iter().find(|v| v.uuid == u) {
                        let key = v.key;
                        s.step(out, Op::FlipK1Remove { vertex: key, how: "scripted" });
                        s.probe(out);
                    }
                }
            }
            s.random(out, len / 2, k);
        }
        "bootstrap-rekey" => {
            // probe (B): vertices inserted and removed below D+1, then the initial simplex is built
            let a = 1 + s.rng.usize(D);
            let mut tries = 0;
            while s.alive && s.model().verts.len() < a && tries < 4 * D {
                s.insert_new(out);
                tries += 1;
            }
            let r = 1 + s.rng.usize(2.min(a));
            for _ in 0..r {
                s.remove_random(out);
            }
            if s.rng.chance(1, 4) {
                s.probe(out);
            }
            tries = 0;
            while s.alive && s.model().cells.is_empty() && tries < 6 * (D + 1) {
                s.insert_new(out);
                tries += 1;
            }
            out.count(if s.model().cells.is_empty() { "script/bootstrap/simplex-not-reached" } else { "script/bootstrap/simplex-built" });
            s.probe(out);
            for _ in 0..2 {
                s.insert_new(out);
            }
            s.probe(out);
            s.random(out, len / 2, k);
        }
        "drain-regrow" => {
            let mut fails = 0;
            let mut guard_n = 0;
            while s.alive && s.model().verts.len() > D.saturating_sub(s.rng.usize(2)) && fails < 6 && guard_n < 80 {
                guard_n += 1;
                if !s.remove_random(out) {
                    fails += 1;
                }
            }
            out.count(if s.model().verts.len() <= D { "script/drain/reached-bootstrap" } else { "script/drain/stuck" });
            s.probe(out);
            let mut tries = 0;
            while s.alive && s.model().verts.len() < D + 3 && tries < 8 * (D + 1) {
                s.insert_new(out);
                tries += 1;
                if s.model().verts.len() == D + 1 && !s.model().cells.is_empty() {
                    s.probe(out);
                }
            }
            s.probe(out);
            s.random(out, len / 2, k);
        }
        "serde-tds" => {
            s.random(out, len / 2, k);
            if s.alive {
                let pre = s.model();
                let gu = s.dt.topology_guarantee();
                let loaded = guard(|| {
                    let text = serde_json::to_string(s.dt.tds()).map_err(|e| e.to_string())?;
                    let tds: Tds<f64, i32, i32, D> = serde_json::from_str(&text).map_err(|e| e.to_string())?;
                    Ok::<_, String>(Dt::<K, D>::from_tds_with_topology_guarantee(tds, K::default(), gu))
                });
                match loaded {
                    Ok(Ok(copy)) => {
                        s.dt = copy;
                        let post = s.model();
                        out.count("script/serde/loaded");
                        s.tr.on_change(out, "serde_roundtrip", json!({"op": "serde_json round trip of tds() + from_tds_with_topology_guarantee", "result": "Ok"}), true, true, &pre, &post, None);
                        s.probe(out);
                        s.random(out, len / 2, k);
                    }
                    Ok(Err(e)) => {
                        out.count(&format!("script/serde/load_err/{}", err_class(&e)));
                    }
                    Err(pi) => s.tr.panic(out, &pi, "serde round trip"),
                }
            }
        }
        _ => {
            s.random(out, len, k);
        }
    }
    if s.tr.max_verts > D + 2 {
        out.nontrivial(&cs.to_string());
    }
    out.add("steps", s.tr.log.len() as u64);
    out.max("max/vertices", s.tr.max_verts as u64);
    if out.samples.len() < 3 && s.tr.log.len() > 8 {
        out.sample(json!({"D": D, "kernel": kn.name(), "scenario": scenario, "ops": s.tr.log.iter().take(10).cloned().collect::<Vec<_>>(), "total_ops": s.tr.log.len(), "probe_rounds": s.tr.probe_rounds}));
    }
}

// ---------------------------------------------------------------------------------------------
// unit-typed triangulation through its own Deserialize implementation
// ---------------------------------------------------------------------------------------------

type TU<const D: usize> = DelaunayTriangulation<FastKernel<f64>, (), (), D>;

fn unit_case<const D: usize>(ctx: &Ctx, out: &mut Out, cs: u64) {
    let mut rng = Rng::new(cs);
    let thorough = ctx.tier == Tier::Thorough;
    let fam = *rng.pick(&[Family::Grid, Family::Dyadic, Family::Uniform, Family::Hull]);
    let n = g::size_for::<D>(&mut rng, thorough).min(D + 1 + 3 * D);
    let pts = g::points::<D>(&mut rng, fam, n);
    let verts: Vec<_> = pts.iter().map(|p| mk_vertex::<(), D>(*p, rng.uuid(), None)).collect();
    let base = json!({"property": P, "tier": if thorough { "thorough" } else { "quick" }, "case_seed": cs.to_string(), "D": D, "kernel": "fast", "scenario": "serde-unit", "start": {"family": fam.name(), "points": crate::common::pts_json(&pts)}});
    out.count("scenario/serde-unit");
    let mut dt: TU<D> = match guard(|| TU::<D>::new(&verts).map_err(|e| e.to_string())) {
        Ok(Ok(dt)) => dt,
        Ok(Err(_)) => {
            out.count("start/construction_err");
            return;
        }
        Err(pi) => {
            out.panic(P, &pi, "unit construction", base);
            return;
        }
    };
    let m0 = RefModel::from_dt(&dt);
    let mut tr = Tracker::new(base, &m0, "construction");
    let ext = pts.iter().flat_map(|p| p.iter().map(|x| x.abs())).fold(1.0f64, f64::max);
    let pcfg = ProbeCfg { max_current: if D >= 4 { 5 } else { 12 }, max_former: 4, max_uuid: 3, fresh_step: ext / 16.0 };
    let mut prng = Rng::derive(cs, 9, 1);
    // a few removals before serialisation: former vertices, vacated slots
    for _ in 0..rng.usize(3) {
        let pre = RefModel::from_dt(&dt);
        if pre.verts.len() <= D + 2 {
            break;
        }
        let v = rng.pick(&pre.verts).clone();
        let r = guard(|| dt.remove_vertex(&mk_vertex::<(), D>(v.p, v.uuid, None)).map_err(|e| e.to_string()));
        let post = RefModel::from_dt(&dt);
        match r {
            Ok(r) => tr.on_change(out, "remove_vertex", json!({"op": "remove_vertex", "uuid": v.uuid.to_string(), "p": v.p.to_vec(), "result": format!("{:?}", r.is_ok())}), r.is_ok(), false, &pre, &post, None),
            Err(pi) => {
                tr.panic(out, &pi, "remove_vertex (unit)");
                return;
            }
        }
    }
    if !probe_round(ctx, out, &dt, &mut prng, &mut tr, &pcfg) {
        return;
    }
    let pre = RefModel::from_dt(&dt);
    let loaded = guard(|| {
        let text = serde_json::to_string(&dt).map_err(|e| e.to_string())?;
        serde_json::from_str::<TU<D>>(&text).map_err(|e| e.to_string())
    });
    match loaded {
        Ok(Ok(copy)) => {
            dt = copy;
            out.count("script/serde-unit/loaded");
            let post = RefModel::from_dt(&dt);
            tr.on_change(out, "serde_roundtrip", json!({"op": "serde_json round trip of the DelaunayTriangulation", "result": "Ok"}), true, true, &pre, &post, None);
        }
        Ok(Err(e)) => {
            out.count(&format!("script/serde-unit/load_err/{}", err_class(&e)));
            return;
        }
        Err(pi) => {
            tr.panic(out, &pi, "serde round trip (unit)");
            return;
        }
    }
    if !probe_round(ctx, out, &dt, &mut prng, &mut tr, &pcfg) {
        return;
    }
    // grow the loaded triangulation and probe again (the cache was rebuilt lazily by the first insertion)
    for _ in 0..2 + rng.usize(3) {
        let pre = RefModel::from_dt(&dt);
        let mut p = rng.pick(&pre.verts).p;
        for x in p.iter_mut() {
            *x += ext * (rng.range_i64(-8, 8) as f64 + 0.31) / 64.0;
        }
        let uuid = rng.uuid();
        let api = if rng.bool() { Api::Insert } else { Api::Stats };
        match call_insert(&mut dt, p, uuid, api) {
            Ok(o) => {
                let post = RefModel::from_dt(&dt);
                out.count(&format!("op/{}/{}", api.name(), o.label()));
                let kind = if api == Api::Insert { "insert" } else { "insert_with_statistics" };
                let ok = matches!(o, Outcome::Accepted(_));
                tr.on_change(out, kind, json!({"op": kind, "p": p.to_vec(), "bits": bits(&p), "uuid": uuid.to_string(), "result": o.label()}), ok, false, &pre, &post, Some((p, uuid, o, api)));
            }
            Err(pi) => {
                tr.panic(out, &pi, "insert (unit)");
                return;
            }
        }
    }
    let _ = probe_round(ctx, out, &dt, &mut prng, &mut tr, &pcfg);
    if tr.max_verts > D + 2 {
        out.nontrivial(&cs.to_string());
    }
    out.add("steps", tr.log.len() as u64);
}

// ---------------------------------------------------------------------------------------------
// batch construction on near-duplicate inputs with DedupPolicy::Off
// ---------------------------------------------------------------------------------------------

fn batch_case<K, const D: usize>(ctx: &Ctx, out: &mut Out, cs: u64, kn: Kn)
where
    K: Kernel<D, Scalar = f64>,
{
    let mut rng = Rng::new(cs);
    let thorough = ctx.tier == Tier::Thorough;
    out.count("scenario/batch-neardup");
    out.count(&format!("D{}/{}", D, kn.name()));
    let n = (D + 3 + rng.usize(if thorough { 30 } else { 14 })).min(if D >= 4 { 14 } else { 48 });
    let mut pts = g::points::<D>(&mut rng, Family::NearDup, n);
    // exact duplicates too
    for _ in 0..rng.usize(3) {
        let p = *rng.pick(&pts);
        pts.push(p);
    }
    // optionally translate far from the origin so that the hash grid is unusable (|x|/1e-10 > 2^53)
    let shift = [0.0, 0.0, 1024.0, 2f64.powi(20)][rng.usize(4)];
    if shift != 0.0 {
        for p in pts.iter_mut() {
            for x in p.iter_mut() {
                *x += shift;
            }
        }
    }
    let inp = tri::mk_inputs(&mut rng, &pts);
    let gu: Guarantee = *rng.pick(&GUARANTEES);
    let opts = Opts {
        order: [InsertionOrderStrategy::Input, InsertionOrderStrategy::Lexicographic, InsertionOrderStrategy::Morton, InsertionOrderStrategy::Hilbert][rng.usize(4)],
        dedup: DedupPolicy::Off,
        simplex: if rng.bool() { InitialSimplexStrategy::First } else { InitialSimplexStrategy::Balanced },
        retry: RetryPolicy::Disabled,
    };
    let base = json!({"property": P, "tier": if thorough { "thorough" } else { "quick" }, "case_seed": cs.to_string(), "D": D, "kernel": kn.name(), "scenario": "batch-neardup", "options": opts.describe(), "guarantee": format!("{:?}", gu), "shift": shift, "points": crate::common::pts_json(&pts)});
    let verts = tri::to_vertices::<i32, D>(&inp);
    let r = guard(|| Dt::<K, D>::with_topology_guarantee_and_options_with_construction_statistics(&K::default(), &verts, gu.to_lib(), opts.to_lib()).map_err(|e| e.error.to_string()));
    let (dt, st) = match r {
        Ok(Ok(x)) => x,
        Ok(Err(e)) => {
            out.count(&format!("batch/construction_err/{}", err_class(&e)));
            return;
        }
        Err(pi) => {
            out.panic(P, &pi, "batch construction", base);
            return;
        }
    };
    let m = RefModel::from_dt(&dt);
    let mut tr = Tracker::new(base, &m, "construction");
    out.count("batch/constructed");
    if m.verts.len() > D + 2 {
        out.nontrivial(&cs.to_string());
    }
    // 1. no two vertices of the result within tolerance
    let pairs: Vec<(Uuid, Uuid)> = tr.close.iter().cloned().collect();
    // Root cause class: the initial simplex is built from the first D+1 ordered vertices without the
    // tolerance check (recorded finding); its vertices own the D+1 smallest slot indices of a freshly
    // built Tds. A close pair with a member inserted later went through the per-insertion duplicate
    // check and is a different defect, so such a pair is reported in preference to an initial one.
    let mut idx: Vec<(u32, Uuid)> = m.verts.iter().map(|v| ((slotmap::Key::data(&v.key).as_ffi() & 0xffff_ffff) as u32, v.uuid)).collect();
    idx.sort();
    let initial: HashSet<Uuid> = idx.iter().take(D + 1).map(|x| x.1).collect();
    let later = pairs.iter().find(|(a, b)| !(initial.contains(a) && initial.contains(b)));
    if let Some((a, b)) = later.or(pairs.first()) {
        let class = if later.is_some() { "later-insertion" } else { "initial-simplex" };
        let (va, vb) = (m.verts.iter().find(|v| v.uuid == *a).unwrap(), m.verts.iter().find(|v| v.uuid == *b).unwrap());
        let d = dist2(&va.p, &vb.p).approx().sqrt();
        let w = json!({"pair": [{"uuid": a.to_string(), "p": va.p.to_vec(), "bits": bits(&va.p)}, {"uuid": b.to_string(), "p": vb.p.to_vec(), "bits": bits(&vb.p)}], "distance": d, "n_close_pairs": pairs.len(), "class": class});
        tr.report(out, format!("batch/close-pair-in-result/{}/shift-{}", class, if shift == 0.0 { "none" } else if shift < 1e5 { "1024" } else { "2^20" }), format!("batch construction (DedupPolicy::Off) returned Ok with two vertices {:e} apart (<= 0.999e-10): {:?} and {:?}", d, va.p, vb.p), w);
    } else {
        out.count("batch/no_close_pair_in_result");
    }
    // 2. skipped near-duplicates are counted
    let present: HashSet<Uuid> = m.verts.iter().map(|v| v.uuid).collect();
    let skipped: Vec<&tri::Input<D>> = inp.iter().filter(|i| !present.contains(&i.uuid)).collect();
    let n_close = skipped.iter().filter(|i| nearest(&m.verts, &i.p).map(|n| n.1.le(&tr.th.lo2)).unwrap_or(false)).count();
    out.add("batch/skipped_inputs", skipped.len() as u64);
    out.add("batch/skipped_inputs_within_tolerance_of_a_result_vertex", n_close as u64);
    out.add("batch/stats_skipped_duplicate", st.skipped_duplicate as u64);
    out.add("batch/stats_skipped_degeneracy", st.skipped_degeneracy as u64);
    if st.skipped_degeneracy == 0 {
        if st.skipped_duplicate < n_close {
            let w = json!({"skipped_inputs": skipped.len(), "within_tolerance_of_result_vertex": n_close, "stats_skipped_duplicate": st.skipped_duplicate, "stats_inserted": st.inserted});
            tr.report(out, "batch/duplicate-skip-not-counted".into(), format!("{} inputs within 0.999e-10 of a result vertex were left out, no degeneracy skip was recorded, but skipped_duplicate = {}", n_close, st.skipped_duplicate), w);
        } else {
            out.count("batch/skip_count_consistent");
        }
    } else {
        out.count("batch/not_judged/skip-count/degeneracy-skips-present");
    }
    if st.skipped_duplicate > skipped.len() {
        let w = json!({"skipped_inputs": skipped.len(), "stats_skipped_duplicate": st.skipped_duplicate});
        tr.report(out, "batch/skipped_duplicate-exceeds-missing-inputs".into(), format!("skipped_duplicate = {} but only {} inputs are missing from the result", st.skipped_duplicate, skipped.len()), w);
    }
    // 3. the cache left behind by construction serves later insertions
    let pcfg = ProbeCfg { max_current: if D >= 4 { 4 } else { 10 }, max_former: 0, max_uuid: 2, fresh_step: 0.25 };
    let mut prng = Rng::derive(cs, 9, 2);
    let _ = probe_round(ctx, out, &dt, &mut prng, &mut tr, &pcfg);
}


// ---------------------------------------------------------------------------------------------
// fixed minimal witnesses (env DVERIF_C09_WITNESS=1): scripted API sequences, results in `notes`
// ---------------------------------------------------------------------------------------------

fn witnesses(out: &mut Out) {
    type T = Dt<FastKernel<f64>, 2>;
    let note = |out: &mut Out, s: String| out.notes.push(s);
    let probe = |dt: &T, p: [f64; 2], api: Api| -> String {
        let mut c = dt.clone();
        match call_insert(&mut c, p, Rng::new(p[0].to_bits() ^ p[1].to_bits().rotate_left(17)).uuid(), api) {
            Ok(o) => format!("{}({:?}) -> {} [{}] (vertices afterwards: {})", api.name(), p, o.label(), o.text(), c.number_of_vertices()),
            Err(pi) => format!("{}({:?}) -> PANIC {}", api.name(), p, pi.message),
        }
    };
    // (A) Edit-API insertion behind the cache
    {
        let mut rng = Rng::new(1);
        let pts = [[0.0, 0.0], [8.0, 0.0], [0.0, 8.0]];
        let inp = tri::mk_inputs(&mut rng, &pts);
        if let Ok(Ok(mut dt)) = tri::build_default::<FastKernel<f64>, 2>(&FastKernel::default(), &inp) {
            let cell = RefModel::from_dt(&dt).cells[0].key;
            let r = hist::apply(&mut dt, &Op::FlipK1Insert { cell, p: [2.0, 3.0], uuid: rng.uuid(), how: "witness" });
            note(out, format!("A: new([(0,0),(8,0),(0,8)]); flip_k1_insert(cell, (2,3)) -> {:?}", r.map(|x| x.label()).map_err(|e| e.message)));
            for p in [[2.0, 3.0], [2.0 + 0.4e-10, 3.0], [2.0, 3.0 - 0.9e-10]] {
                note(out, format!("A: then {}", probe(&dt, p, Api::Insert)));
                note(out, format!("A: then {}", probe(&dt, p, Api::Stats)));
            }
            let mut healed = dt.clone();
            let _ = healed.as_triangulation_mut();
            note(out, format!("A: after as_triangulation_mut() (cache dropped): {}", probe(&healed, [2.0 + 0.4e-10, 3.0], Api::Insert)));
            // the close pair really exists afterwards
            let mut c = dt.clone();
            let _ = call_insert(&mut c, [2.0 + 0.4e-10, 3.0], rng.uuid(), Api::Insert);
            let m = RefModel::from_dt(&c);
            note(out, format!("A: vertices after the accepted insertion: {:?}", m.verts.iter().map(|v| v.p).collect::<Vec<_>>()));
        }
    }
    // (B) bootstrap rebuild re-keys the vertices but the cache keeps the old keys
    {
        let mut rng = Rng::new(2);
        let mut dt = T::with_empty_kernel_and_topology_guarantee(FastKernel::default(), Guarantee::PLManifold.to_lib());
        let (a, b, c, e) = ([0.0, 0.0], [8.0, 0.0], [0.0, 8.0], [8.0, 8.0]);
        let ua = rng.uuid();
        let mut log = Vec::new();
        for (p, u) in [(a, ua), (b, rng.uuid())] {
            log.push(format!("insert({:?}) -> {:?}", p, hist::apply(&mut dt, &Op::Insert { p, uuid: u, data: None, how: "witness" }).map(|x| x.label()).map_err(|e| e.message)));
        }
        log.push(format!("remove_vertex({:?}) -> {:?}", a, hist::apply(&mut dt, &Op::Remove { uuid: ua, p: a, how: "witness" }).map(|x| x.label()).map_err(|e| e.message)));
        for p in [c, e] {
            log.push(format!("insert({:?}) -> {:?}", p, hist::apply(&mut dt, &Op::Insert { p, uuid: rng.uuid(), data: None, how: "witness" }).map(|x| x.label()).map_err(|e| e.message)));
        }
        note(out, format!("B: empty 2D; {}; now {} vertices {} cells", log.join("; "), dt.number_of_vertices(), dt.number_of_cells()));
        for p in [b, c, e, [8.0 + 0.4e-10, 0.0], [0.4e-10, 8.0], [8.0, 8.0 + 0.4e-10], a] {
            note(out, format!("B: then {}", probe(&dt, p, Api::Insert)));
        }
        let mut healed = dt.clone();
        let _ = healed.as_triangulation_mut();
        note(out, format!("B: after as_triangulation_mut() (cache dropped): {}", probe(&healed, b, Api::Insert)));
        note(out, format!("B: after as_triangulation_mut() (cache dropped): {}", probe(&healed, [0.4e-10, 8.0], Api::Insert)));
    }
    // (C) constructed, drained below D+1 with remove_vertex, grown again
    {
        let mut rng = Rng::new(3);
        let pts = [[0.0, 0.0], [8.0, 0.0], [0.0, 8.0], [8.0, 8.0]];
        let inp = tri::mk_inputs(&mut rng, &pts);
        if let Ok(Ok(mut dt)) = tri::build_default::<FastKernel<f64>, 2>(&FastKernel::default(), &inp) {
            let mut log = Vec::new();
            for i in [0usize, 1] {
                log.push(format!("remove_vertex({:?}) -> {:?}", pts[i], hist::apply(&mut dt, &Op::Remove { uuid: inp[i].uuid, p: pts[i], how: "witness" }).map(|x| x.label()).map_err(|e| e.message)));
            }
            for p in [[3.0, 1.0]] {
                log.push(format!("insert({:?}) -> {:?}", p, hist::apply(&mut dt, &Op::Insert { p, uuid: rng.uuid(), data: None, how: "witness" }).map(|x| x.label()).map_err(|e| e.message)));
            }
            note(out, format!("C: new([(0,0),(8,0),(0,8),(8,8)]); {}; now {} vertices {} cells", log.join("; "), dt.number_of_vertices(), dt.number_of_cells()));
            for p in [[0.0, 8.0], [8.0, 8.0], [3.0, 1.0], [0.4e-10, 8.0], [8.0, 8.0 - 0.4e-10], [0.0, 0.0]] {
                note(out, format!("C: then {}", probe(&dt, p, Api::Insert)));
            }
        }
    }
    // (D) batch construction: near-duplicates among the first D+1 inputs become the initial simplex
    {
        let mut rng = Rng::new(4);
        let pts = [[0.0, 0.0], [0.0, 5e-11], [8.0, 0.0], [8.0, 8.0], [3.0, 2.0]];
        let inp = tri::mk_inputs(&mut rng, &pts);
        for simplex in [InitialSimplexStrategy::First, InitialSimplexStrategy::Balanced] {
            let opts = Opts { order: InsertionOrderStrategy::Input, dedup: DedupPolicy::Off, simplex, retry: RetryPolicy::Disabled };
            let verts = tri::to_vertices::<i32, 2>(&inp);
            let r = guard(|| T::with_topology_guarantee_and_options_with_construction_statistics(&FastKernel::default(), &verts, Guarantee::PLManifold.to_lib(), opts.to_lib()).map_err(|e| e.error.to_string()));
            match r {
                Ok(Ok((dt, st))) => {
                    let m = RefModel::from_dt(&dt);
                    note(out, format!("D: with_topology_guarantee_and_options_with_construction_statistics({:?}, Input order, DedupPolicy::Off, {:?}) -> Ok, vertices {:?}, stats inserted={} skipped_duplicate={} skipped_degeneracy={}", pts, simplex, m.verts.iter().map(|v| v.p).collect::<Vec<_>>(), st.inserted, st.skipped_duplicate, st.skipped_degeneracy));
                }
                Ok(Err(e)) => note(out, format!("D: construction ({:?}) -> Err {}", simplex, e)),
                Err(pi) => note(out, format!("D: construction ({:?}) -> PANIC {}", simplex, pi.message)),
            }
        }
    }
}

// ---------------------------------------------------------------------------------------------
// dispatch
// ---------------------------------------------------------------------------------------------

fn case<K, const D: usize>(ctx: &Ctx, out: &mut Out, cs: u64, kn: Kn)
where
    K: Kernel<D, Scalar = f64>,
{
    out.eval();
    match scenario_name(cs) {
        "serde-unit" => unit_case::<D>(ctx, out, cs),
        "batch-neardup" => batch_case::<K, D>(ctx, out, cs, kn),
        sc => history_case::<K, D>(ctx, out, cs, kn, sc),
    }
}

pub fn run_case(ctx: &Ctx, out: &mut Out, cs: u64, d: usize, kn: Kn) {
    match (d, kn) {
        (2, Kn::Fast) => case::<FastKernel<f64>, 2>(ctx, out, cs, kn),
        (3, Kn::Fast) => case::<FastKernel<f64>, 3>(ctx, out, cs, kn),
        (4, Kn::Fast) => case::<FastKernel<f64>, 4>(ctx, out, cs, kn),
        (5, Kn::Fast) => case::<FastKernel<f64>, 5>(ctx, out, cs, kn),
        (2, Kn::Robust) => case::<RobustKernel<f64>, 2>(ctx, out, cs, kn),
        (3, Kn::Robust) => case::<RobustKernel<f64>, 3>(ctx, out, cs, kn),
        (4, Kn::Robust) => case::<RobustKernel<f64>, 4>(ctx, out, cs, kn),
        _ => case::<RobustKernel<f64>, 5>(ctx, out, cs, kn),
    }
}

pub fn run(ctx: &Ctx, out: &mut Out) {
    if std::env::var_os("DVERIF_C09_WITNESS").is_some() {
        witnesses(out);
        return;
    }
    if let Some(doc) = &ctx.replay {
        if let (Some(cs), Some(d)) = (ctx.replay_seed(), doc["D"].as_u64()) {
            let kn = Kn::from_name(doc["kernel"].as_str().unwrap_or("fast")).unwrap_or(Kn::Fast);
            run_case(ctx, out, cs, d as usize, kn);
        } else {
            out.inconclusive("bad replay document");
        }
        return;
    }
    let cap = (if ctx.tier == Tier::Thorough { 100_000.0 } else { 2_000.0 } * ctx.scale) as u64;
    let mut i = 0u64;
    while i < cap && !ctx.out_of_time() {
        let cs = ctx.case_seed(i);
        let d = super::c01::pick_dim_hist(ctx, cs >> 7);
        let kn = if (cs >> 3) & 1 == 0 { Kn::Fast } else { Kn::Robust };
        run_case(ctx, out, cs, d, kn);
        i += 1;
    }
}
