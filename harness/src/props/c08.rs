//! C08 — flip-based repair returns a Delaunay triangulation of the same vertices.

use super::c04::{geometrically_valid, perturb};
use crate::api::{Kn, config_of};
use crate::common::{Ctx, Out, Tier};
use crate::fingerprint;
use crate::r#gen::{self as g, Family};
use crate::hist::{self, Memory, Mix, Op, Res};
use crate::model::RefModel;
use crate::refcheck::{self, Guarantee};
use crate::rng::Rng;
use crate::tri::{self, GUARANTEES, Input, Opts};
use delaunay::core::operations::TopologicalOperation;
use delaunay::geometry::kernel::{FastKernel, Kernel, RobustKernel};
use delaunay::verif;
use serde_json::{Value, json};

const P: &str = "C08";

fn ticks(site: &str) -> u64 {
    verif::ticks_snapshot().into_iter().find(|(s, _)| *s == site).map(|(_, n)| n).unwrap_or(0)
}

/// Documented flip budget per attempt (flips.rs `default_max_flips`), mirrored from the docs /
/// source comments: release: cells*(D+1)*{2D: 4, 3D: 4, D>=4: 4}, debug: larger. The monitor only
/// needs a generous ceiling: 3 attempts (+ robust pass + rebuild attempts x insertions) x budget.
fn flip_ceiling<const D: usize>(cells: usize, verts: usize, advanced: bool) -> u64 {
    let per_attempt = (cells.max(1) * (D + 1) * 16).max(4096) as u64;
    let attempts = if advanced { 3 + 3 + 6 * (verts as u64 + 1) * 3 } else { 3 };
    per_attempt * attempts * 4
}

fn case<K, const D: usize>(ctx: &Ctx, out: &mut Out, cs: u64, kn: Kn)
where
    K: Kernel<D, Scalar = f64>,
{
    let mut rng = Rng::new(cs);
    let thorough = ctx.tier == Tier::Thorough;
    out.eval();
    let fam = *rng.pick(&[Family::Dyadic, Family::Dyadic, Family::Uniform, Family::Hull, Family::Grid, Family::Sphere, Family::TinyGrid]);
    let n = D + 2 + rng.usize(if thorough { 6 * D } else { 3 * D });
    let pts = g::points::<D>(&mut rng, fam, n);
    let inp = tri::mk_inputs(&mut rng, &pts);
    let gu = *rng.pick(&GUARANTEES);
    let base = json!({"property": P, "case_seed": cs.to_string(), "D": D, "kernel": kn.name(), "family": fam.name(), "guarantee": format!("{:?}", gu), "points": crate::common::pts_json(&pts)});
    let mut dt = match tri::build::<K, D>(&K::default(), &inp, gu, &Opts::default_like()) {
        Ok(Ok(dt)) => dt,
        Ok(Err(_)) => {
            out.count("start/construction_err");
            return;
        }
        Err(pi) => {
            out.panic(P, &pi, "construction", base);
            return;
        }
    };
    out.count(&format!("D{}/{}", D, fam.name()));
    // ---- move away from Delaunay ----
    let mut log: Vec<Value> = Vec::new();
    let source = rng.usize(3);
    let _ = hist::apply(&mut dt, &Op::SetRepairPolicy(0));
    match source {
        0 => {
            let want = 1 + rng.usize(if thorough { 60 } else { 15 });
            let (done, l) = perturb(&mut dt, &mut rng, want, gu, true);
            out.add("perturb/flips_kept", done as u64);
            out.max("max/flip_distance", done as u64);
            log = l;
        }
        1 => {
            // insertion burst with repair disabled
            let mut mem = Memory::<D> { grid: 1.0 / 64.0, extent: 1.0, ..Default::default() };
            let k = 1 + rng.usize(5);
            hist::run_history(&mut dt, &mut rng, &mut mem, &Mix::insert_only(), k, |s| {
                log.push(s.op.to_json());
                true
            });
        }
        _ => {
            // interior removals without repair after a few flips
            let (done, l) = perturb(&mut dt, &mut rng, 3, gu, true);
            out.add("perturb/flips_kept", done as u64);
            log = l;
            let m = RefModel::from_dt(&dt);
            if m.verts.len() > D + 3 {
                let v = rng.pick(&m.verts);
                let op = Op::Remove { uuid: v.uuid, p: v.p, how: "live" };
                let _ = hist::apply(&mut dt, &op);
                log.push(op.to_json());
            }
        }
    }
    let pre = RefModel::from_dt(&dt);
    let pre_cfg = config_of(&dt);
    if !geometrically_valid(&pre, gu) {
        out.count("not_judged/start_not_geometrically_valid");
        return;
    }
    if pre.verts.len() > D + 2 {
        out.nontrivial(&cs.to_string());
    }
    let pre_violations = refcheck::check_delaunay(&pre).violations.len();
    out.count(if pre_violations > 0 { "start/non-delaunay" } else { "start/already-delaunay" });
    // ---- repair ----
    let advanced = rng.bool();
    let op: Op<D> = if advanced { Op::RepairAdvanced { shuffle: if rng.bool() { Some(rng.next_u64()) } else { None }, perturb: if rng.bool() { Some(rng.next_u64()) } else { None } } } else { Op::Repair };
    let source_name = ["flipped", "insert-repair-off", "removed"][source];
    let rp = |extra: Value| {
        let mut r = base.clone();
        r["source"] = json!(source_name);
        r["perturbation"] = json!(log);
        r["repair"] = op.to_json();
        r["detail"] = extra;
        r
    };
    let admissible = TopologicalOperation::FacetFlip.is_admissible_under(gu.to_lib());
    let t0 = ticks("flip/applied");
    let res = match hist::apply(&mut dt, &op) {
        Ok(r) => r,
        Err(pi) => {
            out.panic(P, &pi, op.kind(), rp(json!(null)));
            return;
        }
    };
    let flips = ticks("flip/applied") - t0;
    out.max(&format!("max/flips_per_repair/D{}", D), flips);
    out.count(&format!("repair/{}/{}", op.kind(), res.label()));
    let post = RefModel::from_dt(&dt);
    let post_cfg = config_of(&dt);
    let ceiling = flip_ceiling::<D>(pre.cells.len(), pre.verts.len(), advanced);
    if flips > ceiling {
        out.violation(P, &format!("D{}/{}/flip-budget", D, op.kind()), format!("{} applied {} flips; ceiling derived from the documented budgets is {}", op.kind(), flips, ceiling), rp(json!({"flips": flips})));
    }
    match &res {
        Res::RepairOk { heuristic, .. } => {
            if !admissible {
                out.violation(P, &format!("D{}/{}/ran-under-inadmissible-guarantee", D, op.kind()), format!("repair ran although {:?} does not admit facet flips", gu), rp(json!(null)));
            }
            // same vertices
            let moved_allowed = *heuristic; // a heuristic rebuild re-inserts and may perturb coordinates
            let a = pre.vertex_table();
            let b = post.vertex_table();
            if a != b {
                let same_ids = a.iter().map(|x| (x.0, x.2)).collect::<Vec<_>>() == b.iter().map(|x| (x.0, x.2)).collect::<Vec<_>>();
                if !(moved_allowed && same_ids) {
                    out.violation(P, &format!("D{}/{}/vertex-set-changed", D, op.kind()), format!("repair reported Ok but the vertex table changed (heuristic rebuild: {})", heuristic), rp(json!(null)));
                    return;
                } else {
                    // after a rebuild only the documented perturbation is tolerated
                    let diam: f64 = 1.0f64.max(pre.verts.iter().flat_map(|v| v.p.iter().map(|x| x.abs())).fold(0.0, f64::max) * 2.0);
                    for (x, y) in a.iter().zip(b.iter()) {
                        for j in 0..D {
                            let (u, v) = (f64::from_bits(x.1[j]), f64::from_bits(y.1[j]));
                            if (u - v).abs() > (j as f64 + 1.0) * 1e-8 * diam * 1.01 * 6.0 {
                                out.violation(P, &format!("D{}/{}/vertex-moved-beyond-perturbation", D, op.kind()), format!("after a heuristic rebuild vertex {:?} moved from {:e} to {:e} on axis {}", x.0, u, v, j), rp(json!(null)));
                                return;
                            }
                        }
                    }
                    out.count("rebuild/perturbed_vertices_within_bound");
                }
            }
            if *heuristic && (pre_cfg != post_cfg) {
                out.violation(P, &format!("D{}/{}/policies-lost-in-rebuild", D, op.kind()), format!("heuristic rebuild changed the configuration: {:?} -> {:?}", pre_cfg, post_cfg), rp(json!(null)));
            }
            let cert = tri::certify(&post, gu, false, false, true);
            out.add("judged/insphere_pairs", cert.pairs);
            if !cert.ok() {
                tri::report_cert(out, P, &format!("D{}/{}", D, op.kind()), &cert, rp(json!({"failures": cert.summary()})));
                return;
            }
            // uniqueness: compare with a fresh construction of the same vertices
            if cert.unique {
                let inputs: Vec<Input<D>> = post.verts.iter().map(|v| Input { uuid: v.uuid, p: v.p, data: v.data }).collect();
                if let Ok(Ok(fresh)) = tri::build::<K, D>(&K::default(), &inputs, gu, &Opts::default_like()) {
                    let fm = RefModel::from_dt(&fresh);
                    if fm.vertex_table() == post.vertex_table() && refcheck::check_delaunay(&fm).unique_certificate {
                        out.count("unique/compared_with_fresh_construction");
                        if fm.cells_as_coords() != post.cells_as_coords() {
                            out.violation(P, &format!("D{}/{}/differs-from-unique-dt", D, op.kind()), "repair reported Ok, both results carry the uniqueness certificate, but the cell set differs from a fresh construction".into(), rp(json!(null)));
                        }
                    }
                }
            }
            let _ = fingerprint::geom(&post);
        }
        Res::Err { error, class } => {
            out.count(&format!("err/{}", class));
            if !admissible && !error.contains("topology") {
                out.count("note/inadmissible_other_error");
            }
            // Err must leave the state unchanged (also C03)
            let a = fingerprint::full(&pre, &pre_cfg, false);
            let b = fingerprint::full(&post, &post_cfg, false);
            if a != b {
                out.violation(P, &format!("D{}/{}/err-changed-state", D, op.kind()), format!("repair returned Err({}) but the state changed: {}", error.chars().take(120).collect::<String>(), fingerprint::first_diff(&a, &b)), rp(json!(null)));
            }
        }
        _ => {}
    }
    if out.samples.len() < 3 {
        out.sample(json!({"D": D, "kernel": kn.name(), "family": fam.name(), "source": source_name, "pre_violations": pre_violations, "repair": op.kind(), "result": res.label(), "flips_applied": flips}));
    }
    let _ = Guarantee::PLManifold;
}

pub fn run_case(ctx: &Ctx, out: &mut Out, cs: u64, d: usize, kn: Kn) {
    match (d, kn) {
        (2, Kn::Fast) => case::<FastKernel<f64>, 2>(ctx, out, cs, kn),
        (3, Kn::Fast) => case::<FastKernel<f64>, 3>(ctx, out, cs, kn),
        (4, Kn::Fast) => case::<FastKernel<f64>, 4>(ctx, out, cs, kn),
        (5, Kn::Fast) => case::<FastKernel<f64>, 5>(ctx, out, cs, kn),
        (2, Kn::Robust) => case::<RobustKernel<f64>, 2>(ctx, out, cs, kn),
        (3, Kn::Robust) => case::<RobustKernel<f64>, 3>(ctx, out, cs, kn),
        (4, Kn::Robust) => case::<RobustKernel<f64>, 4>(ctx, out, cs, kn),
        _ => case::<RobustKernel<f64>, 5>(ctx, out, cs, kn),
    }
}

pub fn run(ctx: &Ctx, out: &mut Out) {
    if let Some(doc) = &ctx.replay {
        if let (Some(cs), Some(d)) = (ctx.replay_seed(), doc["D"].as_u64()) {
            let kn = Kn::from_name(doc["kernel"].as_str().unwrap_or("fast")).unwrap_or(Kn::Fast);
            run_case(ctx, out, cs, d as usize, kn);
        } else {
            out.inconclusive("bad replay document");
        }
        return;
    }
    let cap = (if ctx.tier == Tier::Thorough { 200_000.0 } else { 3_000.0 } * ctx.scale) as u64;
    let mut i = 0u64;
    while i < cap && !ctx.out_of_time() {
        let cs = ctx.case_seed(i);
        let d = super::c01::pick_dim_hist(ctx, cs >> 7);
        let kn = if (cs >> 3) & 1 == 0 { Kn::Fast } else { Kn::Robust };
        run_case(ctx, out, cs, d, kn);
        i += 1;
    }
}
