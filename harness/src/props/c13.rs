//! C13 — serialisation round trip: what was serialised comes back as the same triangulation
//! (vertices, cells, neighbour relation, equality, validation verdicts, behaviour), and documents
//! that do not describe a structurally consistent complex are rejected rather than loaded.
//!
//! Part 1 (round trips) compares the original and the reloaded copy through key-free shapes built
//! from `RefModel`s, through the library's own `PartialEq`, through every validation level and
//! through a behavioural twin run (same seeded insertions / interior removals on both).
//! Part 2 (corrupted documents) applies ONE edit to the JSON and asserts one direction only:
//! IF the edited document loads, the loaded `Tds` passes the independent Level 1 + Level 2 checks.

use crate::api::{Kn, mk_vertex};
use crate::common::{Ctx, Out, PanicInfo, Tier, guard};
use crate::exact::{self, Band};
use crate::r#gen::{self as g, Family};
use crate::hist::{self, Memory, Mix, Op};
use crate::model::{DataI, RefModel, vk_u64};
use crate::refcheck::{self, Guarantee, Stack};
use crate::rng::Rng;
use crate::tri::{self, Dt, GUARANTEES, Opts};
use delaunay::core::delaunay_triangulation::{DelaunayCheckPolicy, DelaunayRepairPolicy, DelaunayTriangulation};
use delaunay::core::triangulation_data_structure::Tds;
use delaunay::geometry::kernel::{FastKernel, Kernel, RobustKernel};
use serde_json::{Value, json};
use std::collections::{BTreeSet, HashSet};
use uuid::Uuid;

const P: &str = "C13";

// ---------------------------------------------------------------------------------------------
// key-free shape of a triangulation
// ---------------------------------------------------------------------------------------------

#[derive(Clone, Debug, PartialEq)]
struct Shape<const D: usize> {
    /// (uuid, coordinate bits, data), sorted
    verts: Vec<(Uuid, [u64; D], Option<i64>)>,
    /// (cell uuid, sorted vertex uuids, data), sorted (a list, so duplicated UUIDs stay visible)
    cells: Vec<(Uuid, Vec<Uuid>, Option<i64>)>,
    /// (cell uuid, vertex uuids in slot order), sorted
    slots: Vec<(Uuid, Vec<Uuid>)>,
    /// directed neighbour relation: (cell uuid, neighbour uuid, shared facet as sorted vertex uuids)
    nbrs: BTreeSet<(Uuid, Uuid, Vec<Uuid>)>,
    counts: (usize, usize, i32),
}

fn shape<const D: usize>(m: &RefModel<D>) -> Shape<D> {
    let vu = |k| m.vertex(k).map(|v| v.uuid).unwrap_or(Uuid::nil());
    let mut cells = Vec::new();
    let mut slots = Vec::new();
    let mut nbrs = BTreeSet::new();
    for c in &m.cells {
        let order: Vec<Uuid> = c.v.iter().map(|&k| vu(k)).collect();
        let mut sorted = order.clone();
        sorted.sort();
        cells.push((c.uuid, sorted, c.data));
        if let Some(nb) = &c.nb {
            for (i, n) in nb.iter().enumerate() {
                if let Some(k) = n {
                    let other = m.cell(*k).map(|o| o.uuid).unwrap_or(Uuid::nil());
                    let mut facet: Vec<Uuid> = order.iter().enumerate().filter(|(j, _)| *j != i).map(|(_, u)| *u).collect();
                    facet.sort();
                    nbrs.insert((c.uuid, other, facet));
                }
            }
        }
        slots.push((c.uuid, order));
    }
    cells.sort();
    slots.sort();
    Shape { verts: m.vertex_table(), cells, slots, nbrs, counts: (m.n_vertices_reported, m.n_cells_reported, m.dim_reported) }
}

fn first_vec_diff<T: PartialEq + std::fmt::Debug>(a: &[T], b: &[T]) -> String {
    for i in 0..a.len().max(b.len()) {
        if a.get(i) != b.get(i) {
            return format!("entry {}: original {:?} / copy {:?}", i, a.get(i), b.get(i));
        }
    }
    "identical".into()
}

/// Differences between two shapes as (signature suffix, description).
fn shape_diff<const D: usize>(a: &Shape<D>, b: &Shape<D>) -> Vec<(&'static str, String)> {
    let mut out = Vec::new();
    if a.verts != b.verts {
        out.push(("vertices-differ", format!("vertex tables differ ({} vs {} vertices): {}", a.verts.len(), b.verts.len(), first_vec_diff(&a.verts, &b.verts))));
    }
    if a.cells != b.cells {
        out.push(("cells-differ", format!("cell tables differ ({} vs {} cells): {}", a.cells.len(), b.cells.len(), first_vec_diff(&a.cells, &b.cells))));
    }
    if a.nbrs != b.nbrs {
        let only_a = a.nbrs.difference(&b.nbrs).next();
        let only_b = b.nbrs.difference(&a.nbrs).next();
        out.push(("neighbors-differ", format!("neighbour relations differ ({} vs {} directed pairs): only in original {:?}, only in copy {:?}", a.nbrs.len(), b.nbrs.len(), only_a, only_b)));
    }
    if a.cells == b.cells && a.slots != b.slots {
        out.push(("slot-order-differs", format!("vertex slot order of a cell differs: {}", first_vec_diff(&a.slots, &b.slots))));
    }
    if a.counts != b.counts {
        out.push(("counts-differ", format!("(number_of_vertices, number_of_cells, dim) {:?} vs {:?}", a.counts, b.counts)));
    }
    out
}

/// If the vertex tables differ ONLY in coordinate bits (same UUIDs, same data): the number of
/// changed coordinates and whether each change is reproduced by a bare f64 going through
/// `serde_json::to_string` + `serde_json::from_str::<f64>`.
fn coordinate_only_difference<const D: usize>(a: &Shape<D>, b: &Shape<D>) -> Option<(usize, bool)> {
    if a.verts == b.verts || a.verts.len() != b.verts.len() {
        return None;
    }
    let mut n = 0;
    let mut explained = true;
    for (x, y) in a.verts.iter().zip(&b.verts) {
        if x.0 != y.0 || x.2 != y.2 {
            return None;
        }
        for j in 0..D {
            if x.1[j] != y.1[j] {
                n += 1;
                let v = f64::from_bits(x.1[j]);
                let back: Option<f64> = serde_json::to_string(&v).ok().and_then(|t| serde_json::from_str::<f64>(&t).ok());
                if back.map(f64::to_bits) != Some(y.1[j]) {
                    explained = false;
                }
            }
        }
    }
    Some((n, explained))
}

// ---------------------------------------------------------------------------------------------
// validation verdicts
// ---------------------------------------------------------------------------------------------

const LEVELS: [&str; 6] = ["tds.is_valid", "tds.validate", "tri.is_valid", "tri.validate", "dt.is_valid", "dt.validate"];

fn verdicts<K, U, V, const D: usize>(dt: &DelaunayTriangulation<K, U, V, D>) -> Vec<Result<Result<(), String>, PanicInfo>>
where
    K: Kernel<D, Scalar = f64>,
    U: DataI,
    V: DataI,
{
    vec![
        guard(|| dt.tds().is_valid().map_err(|e| e.to_string())),
        guard(|| dt.tds().validate().map_err(|e| e.to_string())),
        guard(|| dt.as_triangulation().is_valid().map_err(|e| e.to_string())),
        guard(|| dt.as_triangulation().validate().map_err(|e| e.to_string())),
        guard(|| dt.is_valid().map_err(|e| e.to_string())),
        guard(|| dt.validate().map_err(|e| e.to_string())),
    ]
}

// ---------------------------------------------------------------------------------------------
// behavioural twin
// ---------------------------------------------------------------------------------------------

fn interior_vertices<const D: usize>(m: &RefModel<D>) -> Vec<usize> {
    if m.cells.is_empty() {
        return Vec::new();
    }
    let fm = refcheck::facet_map(m);
    let hull: HashSet<u64> = fm.iter().filter(|(_, inc)| inc.len() == 1).flat_map(|(f, _)| f.iter().copied()).collect();
    let used: HashSet<u64> = m.cells.iter().flat_map(|c| c.v.iter().map(|&k| vk_u64(k))).collect();
    m.verts.iter().enumerate().filter(|(_, v)| used.contains(&vk_u64(v.key)) && !hull.contains(&vk_u64(v.key))).map(|(i, _)| i).collect()
}

/// A point on a dyadic grid adapted to the bounding box of the current vertices (slightly larger
/// than the box, so that some points fall outside the hull).
fn twin_point<const D: usize>(rng: &mut Rng, m: &RefModel<D>) -> [f64; D] {
    let mut lo = [0.0f64; D];
    let mut hi = [1.0f64; D];
    if !m.verts.is_empty() {
        lo = [f64::INFINITY; D];
        hi = [f64::NEG_INFINITY; D];
        for v in &m.verts {
            for j in 0..D {
                lo[j] = lo[j].min(v.p[j]);
                hi[j] = hi[j].max(v.p[j]);
            }
        }
    }
    let mut ext: f64 = 0.0;
    for j in 0..D {
        ext = ext.max(hi[j] - lo[j]);
    }
    if !(ext > 0.0) || !ext.is_finite() {
        ext = 1.0;
    }
    let step = 2f64.powi(ext.log2().floor() as i32 - 10);
    let mut p = [0.0; D];
    for j in 0..D {
        let base = (lo[j] / step).floor() * step;
        let n = ((hi[j] - lo[j]) / step).ceil() as i64;
        p[j] = base + step * rng.range_i64(-96, n.max(1) + 96) as f64;
    }
    p
}

fn binom(n: usize, k: usize) -> u64 {
    if k > n {
        return 0;
    }
    let mut r: u64 = 1;
    for i in 0..k {
        r = r.saturating_mul((n - i) as u64) / (i as u64 + 1);
    }
    r
}

/// Calls `f` for every k-subset of 0..n (as ascending indices); stops early when `f` returns false.
fn for_subsets(n: usize, k: usize, f: &mut dyn FnMut(&[usize]) -> bool) -> bool {
    if k > n {
        return true;
    }
    let mut idx: Vec<usize> = (0..k).collect();
    loop {
        if !f(&idx) {
            return false;
        }
        let mut i = k;
        while i > 0 && idx[i - 1] == i - 1 + n - k {
            i -= 1;
        }
        if i == 0 {
            return true;
        }
        idx[i - 1] += 1;
        for j in i..k {
            idx[j] = idx[j - 1] + 1;
        }
    }
}

/// Exact general-position certificate: every (D+1)-subset has an orientation determinant decided
/// beyond the library's tolerance band and every (D+2)-subset an in-sphere determinant decided
/// beyond the band (the lifted determinant is symmetric in its D+2 points up to sign, so one
/// ordering per subset suffices). With `last_only` only the subsets containing the last point
/// are examined. None = too many subsets (not judged).
fn general_position<const D: usize>(pts: &[[f64; D]], last_only: bool, cap: u64) -> Option<bool> {
    let n = pts.len();
    if pts.iter().any(|p| p.iter().any(|x| !x.is_finite())) {
        return None;
    }
    let (pool, k_off) = if last_only { (n.saturating_sub(1), 1) } else { (n, 0) };
    if n == 0 {
        return Some(true);
    }
    let total = binom(pool, (D + 1).saturating_sub(k_off)).saturating_add(binom(pool, (D + 2).saturating_sub(k_off)));
    if total > cap {
        return None;
    }
    let mut ok = true;
    for size in [D + 1, D + 2] {
        if size > n {
            continue;
        }
        let k = size - k_off;
        for_subsets(pool, k, &mut |idx: &[usize]| {
            let mut sel: Vec<[f64; D]> = idx.iter().map(|&i| pts[i]).collect();
            if last_only {
                sel.push(pts[n - 1]);
            }
            let decided = if size == D + 1 {
                matches!(exact::classify(&exact::orient_det(&sel), exact::tol_orient(&sel), exact::err_orient(&sel)), Band::Decided(_))
            } else {
                let t = sel[D + 1];
                let sx = &sel[..D + 1];
                matches!(exact::classify(&exact::insphere_det(sx, &t), exact::tol_insphere(sx, &t), exact::err_insphere(sx, &t)), Band::Decided(_))
            };
            if !decided {
                ok = false;
            }
            decided
        });
        if !ok {
            break;
        }
    }
    Some(ok)
}

fn state_ok<const D: usize>(m: &RefModel<D>, gu: Guarantee) -> bool {
    refcheck::is_bootstrap(m) || Stack::compute(m).fails(gu, false, m.cells.len()).is_empty()
}

/// Applies the same seeded operations to `orig` and `copy`. Returns the number of steps done.
///
/// What is judged: a difference between the two runs (Ok/Err class, vertex table, structural
/// validity) is a violation only while the vertex set carries the exact general-position
/// certificate (`general_position`); cell sets are compared whenever both states carry the
/// uniqueness certificate of the exact Delaunay check.
fn twin<K, U, V, const D: usize>(ctx: &Ctx, out: &mut Out, rng: &mut Rng, orig: &mut DelaunayTriangulation<K, U, V, D>, copy: &mut DelaunayTriangulation<K, U, V, D>, tag: &str, base: &Value) -> usize
where
    K: Kernel<D, Scalar = f64>,
    U: DataI,
    V: DataI,
{
    // Policies are not part of the document: copy them with the setters. The schedule of the
    // EveryN(n >= 2) policies depends on the count of insertions the object has seen, which is
    // runtime state that is deliberately not serialised; to compare like with like both objects
    // get the counter-free neighbour of such a policy (EveryInsertion / EveryN(1)).
    let vp = orig.validation_policy();
    let mut rp = orig.delaunay_repair_policy();
    let mut cp = orig.delaunay_check_policy();
    if let DelaunayRepairPolicy::EveryN(n) = rp {
        if n.get() >= 2 {
            rp = DelaunayRepairPolicy::EveryInsertion;
            out.count("twin/policy_normalised/repair-EveryN");
        }
    }
    if let DelaunayCheckPolicy::EveryN(n) = cp {
        if n.get() >= 2 {
            cp = DelaunayCheckPolicy::EveryN(std::num::NonZeroUsize::new(1).unwrap());
            out.count("twin/policy_normalised/check-EveryN");
        }
    }
    if let Err(pi) = guard(|| {
        orig.set_delaunay_repair_policy(rp);
        orig.set_delaunay_check_policy(cp);
        copy.set_validation_policy(vp);
        copy.set_delaunay_repair_policy(rp);
        copy.set_delaunay_check_policy(cp);
    }) {
        out.panic(P, &pi, "policy setters on the reloaded copy", base.clone());
        return 0;
    }
    let gu = Guarantee::from_lib(orig.topology_guarantee());
    let m0 = RefModel::from_dt(orig);
    let certified_source = !m0.cells.is_empty() && refcheck::check_delaunay(&m0).violations.is_empty();
    let src_tag = if m0.cells.is_empty() { "bootstrap-source" } else if certified_source { "delaunay-source" } else { "non-delaunay-source" };
    // exact general-position certificate of the vertex set, maintained incrementally
    let mut pts: Vec<[f64; D]> = m0.verts.iter().map(|v| v.p).collect();
    let mut gp: Option<bool> = general_position(&pts, false, 80_000);
    out.count(&format!("twin/source_general_position/{}", match gp { Some(true) => "certified", Some(false) => "degenerate", None => "too-large" }));
    let policies = json!({"validation": format!("{:?}", vp), "repair": format!("{:?}", rp), "check": format!("{:?}", cp)});
    let steps = 3 + rng.usize(8);
    let mut log: Vec<Value> = Vec::new();
    for step in 0..steps {
        if ctx.elapsed() > ctx.budget_s * 1.3 {
            break;
        }
        let mo = RefModel::from_dt(orig);
        let (pre_shape_o, pre_shape_c) = (shape(&mo), shape(&RefModel::from_dt(copy)));
        let interior = interior_vertices(&mo);
        let remove = !interior.is_empty() && rng.chance(1, 3);
        let (desc, ro, rc): (Value, Result<Result<String, String>, PanicInfo>, Result<Result<String, String>, PanicInfo>);
        // general position of the vertex set this step works on (for an insertion: including the new point)
        let gp_step: Option<bool>;
        if remove {
            let v = &mo.verts[*rng.pick(&interior)];
            let (uuid, p) = (v.uuid, v.p);
            gp_step = gp;
            desc = json!({"op": "remove_vertex", "uuid": uuid.to_string(), "p": p.to_vec()});
            ro = guard(|| orig.remove_vertex(&mk_vertex::<U, D>(p, uuid, None)).map(|n| format!("Ok({})", n)).map_err(|e| e.to_string()));
            rc = guard(|| copy.remove_vertex(&mk_vertex::<U, D>(p, uuid, None)).map(|n| format!("Ok({})", n)).map_err(|e| e.to_string()));
        } else {
            let p = twin_point(rng, &mo);
            let uuid = rng.uuid();
            let data = if rng.chance(1, 5) { None } else { Some(rng.range_i64(1, 1_000_000)) };
            pts = mo.verts.iter().map(|v| v.p).collect();
            pts.push(p);
            gp_step = match (gp, general_position(&pts, true, 40_000)) {
                (Some(true), Some(true)) => Some(true),
                (Some(false), _) | (_, Some(false)) => Some(false),
                _ => None,
            };
            desc = json!({"op": "insert", "p": p.to_vec(), "bits": crate::common::bits(&p), "uuid": uuid.to_string(), "data": data});
            ro = guard(|| orig.insert(mk_vertex::<U, D>(p, uuid, data)).map(|_| "Ok".to_string()).map_err(|e| e.to_string()));
            rc = guard(|| copy.insert(mk_vertex::<U, D>(p, uuid, data)).map(|_| "Ok".to_string()).map_err(|e| e.to_string()));
        }
        let kind = desc["op"].as_str().unwrap_or("").to_string();
        let mut entry = desc;
        entry["general_position"] = json!(match gp_step { Some(true) => "certified", Some(false) => "degenerate", None => "not decided" });
        entry["original"] = json!(match &ro { Ok(Ok(s)) => s.clone(), Ok(Err(e)) => format!("Err({})", e), Err(p) => format!("PANIC {}", p.message) });
        entry["copy"] = json!(match &rc { Ok(Ok(s)) => s.clone(), Ok(Err(e)) => format!("Err({})", e), Err(p) => format!("PANIC {}", p.message) });
        log.push(entry);
        let mk_rp = |log: &[Value]| {
            let mut rp = base.clone();
            rp["twin_policies"] = policies.clone();
            rp["twin_log"] = json!(log);
            rp["twin_step"] = json!(step);
            rp
        };
        let judged = gp_step == Some(true);
        let (ro, rc) = match (ro, rc) {
            (Ok(a), Ok(b)) => (a, b),
            (Err(pa), Err(_)) => {
                // both panic: same behaviour; the panic itself is reported
                out.panic(P, &pa, &format!("twin {} (original and copy both panicked)", kind), mk_rp(&log));
                return step;
            }
            (Err(pa), Ok(_)) => {
                out.panic(P, &pa, &format!("twin {} on the original only", kind), mk_rp(&log));
                return step;
            }
            (Ok(_), Err(pb)) => {
                out.panic(P, &pb, &format!("twin {} on the reloaded copy only", kind), mk_rp(&log));
                return step;
            }
        };
        out.count(&format!("twin/{}/{}", kind, if ro.is_ok() { "Ok" } else { "Err" }));
        let diverged = |out: &mut Out, what: &str, desc: String| {
            if judged {
                out.violation(P, &format!("{}twin/diverged/{}/{}/{}", tag, src_tag, kind, what), desc, mk_rp(&log));
            } else {
                out.count(&format!("twin/not_judged/{}-differs-outside-certified-general-position", what));
            }
        };
        if ro.is_ok() != rc.is_ok() {
            diverged(out, "result-class", format!("{} at twin step {} (vertex set in certified general position): original -> {:?}, reloaded copy -> {:?}", kind, step, ro, rc));
            return step;
        }
        let mo = RefModel::from_dt(orig);
        let mc = RefModel::from_dt(copy);
        if ro.is_err() {
            // both calls failed: a failed call must leave the object as it was (that is another
            // property's business); when it did not, later differences are not attributable to
            // the round trip, so the twin stops here
            if shape(&mo) != pre_shape_o || shape(&mc) != pre_shape_c {
                out.count("twin/stopped/failed-call-changed-the-state");
                return step;
            }
            continue;
        }
        if mo.vertex_table() != mc.vertex_table() {
            diverged(out, "vertex-table", format!("after {} at twin step {} the vertex tables differ: {}", kind, step, first_vec_diff(&mo.vertex_table(), &mc.vertex_table())));
            return step;
        }
        let (oko, okc) = (state_ok(&mo, gu), state_ok(&mc, gu));
        if oko != okc {
            diverged(out, "validity", format!("after {} at twin step {}: original structurally {} but copy structurally {}", kind, step, if oko { "valid" } else { "invalid" }, if okc { "valid" } else { "invalid" }));
            return step;
        }
        if !oko {
            out.count("twin/stopped/both-invalid");
            return step;
        }
        // the vertex set that exists now
        if !remove && ro.is_ok() {
            gp = gp_step;
        }
        let (uo, uc) = (refcheck::check_delaunay(&mo).unique_certificate, refcheck::check_delaunay(&mc).unique_certificate);
        if uo && uc {
            out.count("twin/steps_compared_exactly");
            if mo.cells_as_uuids() != mc.cells_as_uuids() {
                out.violation(P, &format!("{}twin/diverged/{}/{}/cells", tag, src_tag, kind), format!("after {} at twin step {} both states carry the uniqueness certificate but the cell sets differ ({} vs {} cells)", kind, step, mo.cells.len(), mc.cells.len()), mk_rp(&log));
                return step;
            }
        } else if uo != uc {
            // one side is the unique Delaunay triangulation of the vertex set and the other is not:
            // same vertex set, so the other side is simply not Delaunay (repair deferred or failed)
            if judged && ro.is_ok() {
                let (a, b) = (mo.cells_as_uuids(), mc.cells_as_uuids());
                if a != b {
                    out.count("twin/cells_differ_with_certificate_on_one_side");
                    out.violation(P, &format!("{}twin/diverged/{}/{}/delaunay-on-one-side-only", tag, src_tag, kind), format!("after {} at twin step {} (general position, both calls Ok): the {} is the unique Delaunay triangulation of the vertex set, the {} is a different complex ({} vs {} cells)", kind, step, if uo { "original" } else { "copy" }, if uo { "copy" } else { "original" }, mo.cells.len(), mc.cells.len()), mk_rp(&log));
                    return step;
                }
            }
            out.count("twin/not_judged/certificate-on-one-side-only");
        } else {
            out.count("twin/not_judged/no-uniqueness-certificate");
        }
    }
    out.add("twin/steps", log.len() as u64);
    log.len()
}

// ---------------------------------------------------------------------------------------------
// Part 1: round trip of one triangulation
// ---------------------------------------------------------------------------------------------

type Loader<'a, K, U, V, const D: usize> = &'a dyn Fn(&str) -> Result<DelaunayTriangulation<K, U, V, D>, String>;

/// Returns the JSON text of the original (for Part 2) when serialisation worked.
fn roundtrip<K, U, V, const D: usize>(ctx: &Ctx, out: &mut Out, rng: &mut Rng, dt: &mut DelaunayTriangulation<K, U, V, D>, load: Loader<K, U, V, D>, tag: &str, base: &Value) -> Option<String>
where
    K: Kernel<D, Scalar = f64>,
    U: DataI,
    V: DataI,
{
    // 1. serialise through both entry points
    let s = match guard(|| serde_json::to_string(&*dt).map_err(|e| e.to_string())) {
        Ok(Ok(s)) => s,
        Ok(Err(e)) => {
            out.violation(P, &format!("{}roundtrip/serialize-failed", tag), format!("serde_json::to_string(&dt) failed on a valid triangulation: {}", e), base.clone());
            return None;
        }
        Err(pi) => {
            out.panic(P, &pi, "serde_json::to_string(&dt)", base.clone());
            return None;
        }
    };
    out.max("max/json_bytes", s.len() as u64);
    match guard(|| serde_json::to_string(dt.tds()).map_err(|e| e.to_string())) {
        Ok(Ok(s2)) => {
            if s2 != s {
                // the cell_vertices map is a hash map: the text may legitimately differ in entry order
                let (a, b): (Result<Value, _>, Result<Value, _>) = (serde_json::from_str(&s), serde_json::from_str(&s2));
                match (a, b) {
                    (Ok(a), Ok(b)) if a == b => out.count("roundtrip/dt_vs_tds_text_differs_value_equal"),
                    _ => out.violation(P, &format!("{}roundtrip/dt-vs-tds-json-differs", tag), "to_string(&dt) and to_string(dt.tds()) describe different documents".into(), base.clone()),
                }
            } else {
                out.count("roundtrip/dt_vs_tds_text_identical");
            }
        }
        Ok(Err(e)) => out.violation(P, &format!("{}roundtrip/serialize-failed", tag), format!("serde_json::to_string(dt.tds()) failed: {}", e), base.clone()),
        Err(pi) => out.panic(P, &pi, "serde_json::to_string(dt.tds())", base.clone()),
    }
    // 2. load
    let mut copy = match guard(|| load(&s)) {
        Ok(Ok(c)) => c,
        Ok(Err(e)) => {
            let mut rp = base.clone();
            if s.len() <= 6000 {
                rp["document"] = json!(s);
            }
            out.violation(P, &format!("{}roundtrip/deserialize-failed", tag), format!("the document written by the library was rejected: {}", e.chars().take(300).collect::<String>()), rp);
            return Some(s);
        }
        Err(pi) => {
            out.panic(P, &pi, "deserialising the library's own document", base.clone());
            return Some(s);
        }
    };
    out.count("roundtrip/loaded");
    // 3. key-free structural equality
    let mo = RefModel::from_dt(dt);
    let mc = RefModel::from_dt(&copy);
    let (so, sc) = (shape(&mo), shape(&mc));
    let diffs = shape_diff(&so, &sc);
    // a vertex-table difference that consists only of coordinates which a bare f64 does not survive
    // through serde_json either (to_string + from_str::<f64>) is attributed to the JSON number
    // parser the caller links (serde_json without `float_roundtrip`), and gets its own signature
    let coord_only = coordinate_only_difference(&so, &sc);
    for (sig, desc) in &diffs {
        match (&coord_only, *sig) {
            (Some((n, explained)), "vertices-differ") => {
                out.add("roundtrip/coordinates_changed", *n as u64);
                let sig2 = if *explained { "coordinate-bits-changed/same-as-bare-f64-through-serde_json" } else { "coordinate-bits-changed/unexplained" };
                out.violation(P, &format!("{}roundtrip/{}", tag, sig2), format!("{} coordinate(s) changed bits in the round trip (UUIDs and data equal); {}; {}", n, if *explained { "a bare f64 written and read back with the same serde_json functions changes in exactly the same way" } else { "a bare f64 survives the same serde_json functions, so the change happens in the library" }, desc), base.clone());
            }
            _ => out.violation(P, &format!("{}roundtrip/{}", tag, sig), desc.clone(), base.clone()),
        }
    }
    if diffs.is_empty() {
        out.count("roundtrip/structurally_equal");
    }
    // keys: the slot maps are written slot by slot, so keys are expected to survive (evidence only)
    let keys_same = mo.verts.iter().all(|v| mc.vertex(v.key).map(|w| w.uuid == v.uuid).unwrap_or(false)) && mo.cells.iter().all(|c| mc.cell(c.key).map(|w| w.uuid == c.uuid).unwrap_or(false));
    out.count(if keys_same { "roundtrip/keys_preserved" } else { "roundtrip/keys_changed" });
    // 4. the library's own equality, both ways
    match guard(|| (copy.tds() == dt.tds(), dt.tds() == copy.tds())) {
        Ok((a, b)) => {
            if !(a && b) {
                let sig = if coord_only.is_some() { "roundtrip/not-equal/after-coordinate-bits-changed" } else { "roundtrip/not-equal" };
                out.violation(P, &format!("{}{}", tag, sig), format!("library PartialEq: copy == original is {}, original == copy is {} (structural comparison found {} differences)", a, b, diffs.len()), base.clone());
            } else {
                out.count("roundtrip/partial_eq_true");
            }
        }
        Err(pi) => out.panic(P, &pi, "Tds == Tds", base.clone()),
    }
    // 5. validation verdicts level by level
    let (vo, vc) = (verdicts(dt), verdicts(&copy));
    for (i, lvl) in LEVELS.iter().enumerate() {
        match (&vo[i], &vc[i]) {
            (Ok(a), Ok(b)) => {
                out.count(&format!("verdict/{}/{}", lvl, if a.is_ok() { "Ok" } else { "Err" }));
                if a.is_ok() != b.is_ok() {
                    out.violation(P, &format!("{}roundtrip/validation-differs/{}", tag, lvl), format!("{}: original -> {:?}, reloaded copy -> {:?}", lvl, a, b), base.clone());
                }
            }
            (Err(pi), _) | (_, Err(pi)) => out.panic(P, pi, &format!("{} during round-trip comparison", lvl), base.clone()),
        }
    }
    // 6. second round trip: structurally equal to the first
    match guard(|| serde_json::to_string(&copy).map_err(|e| e.to_string()).and_then(|t| load(&t).map(|c2| (t, c2)))) {
        Ok(Ok((t, c2))) => {
            out.count(if t == s { "roundtrip/second_text_identical" } else { "roundtrip/second_text_differs" });
            let s2 = shape(&RefModel::from_dt(&c2));
            let s1 = shape(&RefModel::from_dt(&copy));
            let d2 = shape_diff(&s1, &s2);
            let co2 = coordinate_only_difference(&s1, &s2);
            for (sig, desc) in d2 {
                let sig2 = match (&co2, sig) {
                    (Some((_, true)), "vertices-differ") => "coordinate-bits-changed/same-as-bare-f64-through-serde_json",
                    (Some((_, false)), "vertices-differ") => "coordinate-bits-changed/unexplained",
                    _ => sig,
                };
                out.violation(P, &format!("{}roundtrip/second/{}", tag, sig2), format!("second round trip: {}", desc), base.clone());
            }
        }
        Ok(Err(e)) => out.violation(P, &format!("{}roundtrip/second/failed", tag), format!("serialising / reloading the reloaded copy failed: {}", e.chars().take(300).collect::<String>()), base.clone()),
        Err(pi) => out.panic(P, &pi, "second round trip", base.clone()),
    }
    // 7. behavioural twin (only meaningful when the copy is the same complex)
    if diffs.is_empty() {
        twin(ctx, out, rng, dt, &mut copy, tag, base);
    }
    Some(s)
}

// ---------------------------------------------------------------------------------------------
// Sources
// ---------------------------------------------------------------------------------------------

fn gate<const D: usize>(m: &RefModel<D>) -> bool {
    refcheck::is_bootstrap(m) || Stack::compute(m).fails(Guarantee::Pseudomanifold, false, m.cells.len()).is_empty()
}

const SOURCE_FAMILIES: [Family; 12] = [Family::Dyadic, Family::Dyadic, Family::Dyadic, Family::Dyadic, Family::Uniform, Family::Grid, Family::Grid, Family::Hull, Family::Scaled, Family::Sphere, Family::Stacked, Family::TinyGrid];

fn make_source<K, const D: usize>(ctx: &Ctx, out: &mut Out, rng: &mut Rng, base: &Value) -> Option<(Dt<K, D>, Value)>
where
    K: Kernel<D, Scalar = f64>,
{
    let thorough = ctx.tier == Tier::Thorough;
    let kind = ["constructed", "constructed", "simplex", "incremental", "bootstrap", "removed-interior", "removed-interior", "removed-reinserted", "history", "history"][rng.usize(10)];
    let gu = *rng.pick(&GUARANTEES);
    let mut log: Vec<Value> = Vec::new();
    let mut desc = json!({"kind": kind, "guarantee": format!("{:?}", gu)});
    let panic_rp = |what: &str| {
        let mut rp = base.clone();
        rp["source"] = json!({"kind": kind, "stage": what});
        rp
    };
    let build = |out: &mut Out, rng: &mut Rng, fam: Family, n: usize, desc: &mut Value| -> Option<Dt<K, D>> {
        let mut pts = g::points::<D>(rng, fam, n);
        // special finite float classes among the coordinates (all are legal vertex coordinates):
        // subnormals, the smallest normal, negative zero
        if rng.chance(1, 4) && !pts.is_empty() {
            let specials = [5e-324, -5e-324, 1e-310, -2.5e-309, f64::MIN_POSITIVE, f64::MIN_POSITIVE / 4.0, -0.0, 2.2250738585072011e-308];
            for _ in 0..1 + rng.usize(2) {
                let i = rng.usize(pts.len());
                let j = rng.usize(D);
                pts[i][j] = *rng.pick(&specials);
            }
            desc["special_float_coordinates"] = json!(true);
            out.count("source/with_special_float_coordinates");
        }
        let inp = tri::mk_inputs(rng, &pts);
        let opts = if rng.bool() { Opts::default_like() } else { Opts::random(rng) };
        desc["family"] = json!(fam.name());
        desc["n_input"] = json!(inp.len());
        desc["options"] = json!(opts.describe());
        if pts.len() <= 12 {
            desc["points"] = crate::common::pts_json(&pts);
        }
        match tri::build::<K, D>(&K::default(), &inp, gu, &opts) {
            Ok(Ok(dt)) => Some(dt),
            Ok(Err(_)) => {
                out.count("source/construction_err");
                None
            }
            Err(pi) => {
                out.panic(P, &pi, "source construction (before any serialisation)", panic_rp("construction"));
                None
            }
        }
    };
    let mut dt: Dt<K, D> = match kind {
        "constructed" => {
            let fam = *rng.pick(&SOURCE_FAMILIES);
            let n = g::size_for::<D>(rng, thorough);
            build(out, rng, fam, n, &mut desc)?
        }
        "simplex" => build(out, rng, Family::Dyadic, D + 1, &mut desc)?,
        "removed-interior" | "removed-reinserted" | "history" => {
            let fam = *rng.pick(&[Family::Dyadic, Family::Dyadic, Family::Dyadic, Family::Grid, Family::Uniform]);
            let n = (g::size_for::<D>(rng, thorough) + D + 2).min(if thorough { 48 } else { 28 });
            build(out, rng, fam, n, &mut desc)?
        }
        _ => Dt::<K, D>::with_empty_kernel_and_topology_guarantee(K::default(), gu.to_lib()),
    };
    // follow-up operations
    let run = |out: &mut Out, dt: &mut Dt<K, D>, op: Op<D>, log: &mut Vec<Value>| -> Option<hist::Res<D>> {
        let r = hist::apply(dt, &op);
        let mut e = op.to_json();
        match r {
            Ok(res) => {
                e["result"] = json!(res.label());
                log.push(e);
                Some(res)
            }
            Err(pi) => {
                log.push(e);
                out.panic(P, &pi, &format!("source {} (before any serialisation)", op.kind()), panic_rp(op.kind()));
                None
            }
        }
    };
    match kind {
        "incremental" | "bootstrap" => {
            let n = if kind == "bootstrap" { rng.usize(D + 1) } else { D + 1 + rng.usize(if D <= 3 { 14 } else { 5 }) };
            let fam = if rng.bool() { Family::Dyadic } else { Family::Grid };
            let pts = g::points::<D>(rng, fam, n);
            desc["family"] = json!(fam.name());
            for p in pts {
                let data = if rng.chance(1, 5) { None } else { Some(rng.range_i64(1, 1_000_000)) };
                run(out, &mut dt, Op::Insert { p, uuid: rng.uuid(), data, how: "grid" }, &mut log)?;
            }
        }
        "removed-interior" | "removed-reinserted" => {
            let want = 1 + rng.usize(4);
            let mut done = 0;
            for _ in 0..want {
                let m = RefModel::from_dt(&dt);
                let interior = interior_vertices(&m);
                if interior.is_empty() {
                    break;
                }
                let v = &m.verts[*rng.pick(&interior)];
                let res = run(out, &mut dt, Op::Remove { uuid: v.uuid, p: v.p, how: "live" }, &mut log)?;
                if !res.is_err() {
                    done += 1;
                }
                if !gate(&RefModel::from_dt(&dt)) {
                    out.count("source/discarded/invalid-after-interior-removal");
                    return None;
                }
            }
            out.add("source/interior_removals_done", done);
            if done == 0 {
                out.count("source/no-interior-vertex-removed");
            }
            if kind == "removed-reinserted" {
                for _ in 0..1 + rng.usize(3) {
                    let m = RefModel::from_dt(&dt);
                    let p = twin_point(rng, &m);
                    run(out, &mut dt, Op::Insert { p, uuid: rng.uuid(), data: Some(rng.range_i64(1, 99)), how: "grid" }, &mut log)?;
                }
            }
        }
        "history" => {
            let m = RefModel::from_dt(&dt);
            let ext = m.verts.iter().flat_map(|v| v.p.iter().map(|x| x.abs())).fold(1.0f64, f64::max);
            let mut mem = Memory::<D> { extent: ext, grid: (ext / 16.0).max(2f64.powi(-10)), ..Default::default() };
            let len = 5 + rng.usize(if thorough { 60 } else { 36 });
            let len = if D >= 4 { len / 3 + 4 } else { len };
            let mut panicked: Option<(PanicInfo, String)> = None;
            let hlog = hist::run_history(&mut dt, rng, &mut mem, &Mix::everything(), len, |s| {
                if let Err(pi) = s.res {
                    panicked = Some((pi.clone(), s.op.kind().to_string()));
                    return false;
                }
                ctx.elapsed() <= ctx.budget_s * 1.3
            });
            log.extend(hlog);
            if let Some((pi, k)) = panicked {
                out.panic(P, &pi, &format!("source history {} (before any serialisation)", k), panic_rp("history"));
                return None;
            }
        }
        _ => {}
    }
    // policies (never serialised; the twin copies them)
    if kind != "history" {
        for op in [Op::SetValidationPolicy(rng.usize(4) as u8), Op::SetRepairPolicy(rng.usize(4) as u8), Op::SetCheckPolicy(rng.usize(3) as u8)] {
            run(out, &mut dt, op, &mut log)?;
        }
    }
    // cell data: the library never sets it itself; the public route is Tds::get_cell_by_key_mut on
    // a cloned Tds followed by from_tds_with_topology_guarantee
    if dt.number_of_cells() > 0 && rng.bool() {
        let (vp, rp, cp, tg) = (dt.validation_policy(), dt.delaunay_repair_policy(), dt.delaunay_check_policy(), dt.topology_guarantee());
        let seed = rng.next_u64();
        let r = guard(|| {
            let mut r2 = Rng::new(seed);
            let mut tds = dt.tds().clone();
            let keys: Vec<_> = tds.cells().map(|(k, _)| k).collect();
            for k in keys {
                if r2.chance(2, 3) {
                    if let Some(c) = tds.get_cell_by_key_mut(k) {
                        c.data = Some(r2.range_i64(-1000, 1000) as i32);
                    }
                }
            }
            let mut n = Dt::<K, D>::from_tds_with_topology_guarantee(tds, K::default(), tg);
            n.set_validation_policy(vp);
            n.set_delaunay_repair_policy(rp);
            n.set_delaunay_check_policy(cp);
            n
        });
        match r {
            Ok(n) => {
                dt = n;
                desc["cell_data"] = json!("set through Tds::get_cell_by_key_mut + from_tds_with_topology_guarantee");
                out.count("source/with_cell_data");
            }
            Err(pi) => {
                out.panic(P, &pi, "attaching cell data (before any serialisation)", panic_rp("cell data"));
                return None;
            }
        }
    }
    let m = RefModel::from_dt(&dt);
    if !gate(&m) {
        out.count(&format!("source/discarded/not-structurally-valid/{}", kind));
        return None;
    }
    out.count(&format!("source/{}", kind));
    let gaps = {
        // vacated slots: keys are (index, version); a removed slot shows as a missing index
        let idx: BTreeSet<u32> = m.verts.iter().map(|v| (vk_u64(v.key) & 0xffff_ffff) as u32).collect();
        idx.iter().next_back().map(|&mx| mx as usize + 1 - idx.len()).unwrap_or(0).saturating_sub(if idx.contains(&0) { 0 } else { 1 })
    };
    if gaps > 0 {
        out.count("source/with_vertex_key_gaps");
    }
    desc["vertices"] = json!(m.verts.len());
    desc["cells"] = json!(m.cells.len());
    desc["vertex_key_gaps"] = json!(gaps);
    let keep = log.len().min(60);
    desc["log"] = json!(log[..keep].to_vec());
    desc["log_total"] = json!(log.len());
    Some((dt, desc))
}

// ---------------------------------------------------------------------------------------------
// Part 2: corrupted documents
// ---------------------------------------------------------------------------------------------

const KINDS: [&str; 66] = [
    "vertex/delete-slot",
    "vertex/vacate-slot",
    "vertex/duplicate-entry",
    "vertex/uuid-to-existing",
    "vertex/uuid-nil",
    "vertex/uuid-fresh",
    "vertex/uuid-malformed",
    "vertex/missing-uuid",
    "vertex/missing-point",
    "vertex/data-wrong-type",
    "vertex/data-out-of-range",
    "coord/other-finite",
    "coord/null",
    "coord/string",
    "coord/infinity-string",
    "coord/nan-string",
    "coord/huge-exponent",
    "coord/too-few",
    "coord/too-many",
    "coord/nested-array",
    "cell/delete-slot",
    "cell/vacate-slot",
    "cell/duplicate-entry-same-uuid",
    "cell/duplicate-fresh-uuid",
    "cell/uuid-to-existing",
    "cell/uuid-nil",
    "cell/uuid-fresh",
    "cell/uuid-malformed",
    "cell/missing-uuid",
    "cell/data-wrong-type",
    "cell/delete-all",
    "cellverts/drop-one",
    "cellverts/repeat-one",
    "cellverts/append-one",
    "cellverts/append-repeat",
    "cellverts/unknown-uuid",
    "cellverts/other-existing-vertex",
    "cellverts/swap-two",
    "cellverts/rotate-three",
    "cellverts/remove-entry",
    "cellverts/add-unknown-cell",
    "cellverts/empty-list",
    "cellverts/list-wrong-type",
    "cellverts/nil-uuid-in-list",
    "cellverts/copy-list-from-other-cell",
    "slot/vertex-flip-occupied",
    "slot/vertex-null-value-odd-version",
    "slot/vertex-vacant-gets-value",
    "slot/vertex-first-occupied",
    "slot/vertex-version-bump",
    "slot/vertex-version-overflow",
    "slot/vertex-version-negative",
    "slot/vertex-missing-version",
    "slot/cell-flip-occupied",
    "slot/cell-first-occupied",
    "slot/cell-version-bump",
    "slot/sentinel-removed",
    "text/truncate",
    "text/duplicate-top-level-field",
    "top/vertices-wrong-type",
    "top/cells-wrong-type",
    "top/cell-vertices-wrong-type",
    "top/missing-field",
    "top/unknown-field",
    "top/empty-object",
    "top/not-an-object",
];

fn occ(v: &Value) -> Vec<usize> {
    v.as_array().map(|a| a.iter().enumerate().filter(|(_, s)| !s["value"].is_null()).map(|(i, _)| i).collect()).unwrap_or_default()
}

fn uuids_of(v: &Value) -> Vec<String> {
    v.as_array().map(|a| a.iter().filter_map(|s| s["value"]["uuid"].as_str().map(|x| x.to_string())).collect()).unwrap_or_default()
}

const SENTINEL: f64 = 123456789.015625;

/// Applies one edit of the catalogue. None = not applicable to this document.
fn corrupt(kind: &str, doc: &Value, text: &str, rng: &mut Rng) -> Option<(String, String)> {
    let mut v = doc.clone();
    let vocc = occ(&v["vertices"]);
    let cocc = occ(&v["cells"]);
    let vuu = uuids_of(&v["vertices"]);
    let cuu = uuids_of(&v["cells"]);
    let cv_keys: Vec<String> = v["cell_vertices"].as_object().map(|o| o.keys().cloned().collect()).unwrap_or_default();
    let pick = |rng: &mut Rng, xs: &[usize]| -> Option<usize> { if xs.is_empty() { None } else { Some(xs[rng.usize(xs.len())]) } };
    let picks = |rng: &mut Rng, xs: &[String]| -> Option<String> { if xs.is_empty() { None } else { Some(xs[rng.usize(xs.len())].clone()) } };
    let mut note = String::new();
    let mut text_out: Option<String> = None;
    let (family, what) = kind.split_once('/').unwrap_or((kind, ""));
    match family {
        "vertex" => {
            let i = pick(rng, &vocc)?;
            note = format!("vertex slot {}", i);
            let arr = v["vertices"].as_array_mut()?;
            match what {
                "delete-slot" => {
                    arr.remove(i);
                }
                "vacate-slot" => {
                    let ver = arr[i]["version"].as_u64()?;
                    arr[i] = json!({"value": null, "version": ver + 1});
                }
                "duplicate-entry" => {
                    let c = arr[i].clone();
                    arr.push(c);
                }
                "uuid-to-existing" => {
                    let own = arr[i]["value"]["uuid"].as_str()?.to_string();
                    let others: Vec<String> = vuu.iter().filter(|u| **u != own).cloned().collect();
                    let o = picks(rng, &others)?;
                    arr[i]["value"]["uuid"] = json!(o);
                }
                "uuid-nil" => arr[i]["value"]["uuid"] = json!(Uuid::nil().to_string()),
                "uuid-fresh" => arr[i]["value"]["uuid"] = json!(rng.uuid().to_string()),
                "uuid-malformed" => arr[i]["value"]["uuid"] = json!("not-a-uuid"),
                "missing-uuid" => {
                    arr[i]["value"].as_object_mut()?.remove("uuid");
                }
                "missing-point" => {
                    arr[i]["value"].as_object_mut()?.remove("point");
                }
                "data-wrong-type" => arr[i]["value"]["data"] = json!("seven"),
                "data-out-of-range" => arr[i]["value"]["data"] = json!(1_000_000_000_000i64),
                _ => return None,
            }
        }
        "coord" => {
            let i = pick(rng, &vocc)?;
            let arr = v["vertices"].as_array_mut()?;
            let pt = arr[i]["value"]["point"].as_array_mut()?;
            if pt.is_empty() {
                return None;
            }
            let j = rng.usize(pt.len());
            note = format!("vertex slot {} axis {}", i, j);
            match what {
                "other-finite" => {
                    let old = pt[j].as_f64();
                    let mut x = rng.range_i64(-64, 64) as f64 / 8.0;
                    if Some(x) == old {
                        x += 0.0625;
                    }
                    pt[j] = json!(x);
                }
                "null" => pt[j] = Value::Null,
                "string" => pt[j] = json!("abc"),
                "infinity-string" => pt[j] = json!(if rng.bool() { "Infinity" } else { "-inf" }),
                "nan-string" => pt[j] = json!("NaN"),
                "huge-exponent" => {
                    pt[j] = json!(SENTINEL);
                    let t = serde_json::to_string(&v).ok()?;
                    let needle = serde_json::to_string(&json!(SENTINEL)).ok()?;
                    if !t.contains(&needle) {
                        return None;
                    }
                    text_out = Some(t.replacen(&needle, if rng.bool() { "1e999" } else { "-1e999" }, 1));
                }
                "too-few" => {
                    pt.remove(j);
                }
                "too-many" => pt.push(json!(0.5)),
                "nested-array" => pt[j] = json!([0.25]),
                _ => return None,
            }
        }
        "cell" => {
            if what == "delete-all" {
                if cocc.is_empty() {
                    return None;
                }
                v["cells"] = json!([{"value": null, "version": 0}]);
                if rng.bool() {
                    v["cell_vertices"] = json!({});
                    note = "cells and cell_vertices emptied".into();
                } else {
                    note = "cells emptied, cell_vertices kept".into();
                }
            } else {
                let i = pick(rng, &cocc)?;
                note = format!("cell slot {}", i);
                let own = v["cells"][i]["value"]["uuid"].as_str()?.to_string();
                match what {
                    "delete-slot" => {
                        v["cells"].as_array_mut()?.remove(i);
                    }
                    "vacate-slot" => {
                        let ver = v["cells"][i]["version"].as_u64()?;
                        v["cells"][i] = json!({"value": null, "version": ver + 1});
                    }
                    "duplicate-entry-same-uuid" => {
                        let c = v["cells"][i].clone();
                        v["cells"].as_array_mut()?.push(c);
                    }
                    "duplicate-fresh-uuid" => {
                        let fresh = rng.uuid().to_string();
                        let mut c = v["cells"][i].clone();
                        c["value"]["uuid"] = json!(fresh);
                        v["cells"].as_array_mut()?.push(c);
                        let list = v["cell_vertices"][&own].clone();
                        v["cell_vertices"].as_object_mut()?.insert(fresh, list);
                    }
                    "uuid-to-existing" => {
                        let others: Vec<String> = cuu.iter().filter(|u| **u != own).cloned().collect();
                        let o = picks(rng, &others)?;
                        v["cells"][i]["value"]["uuid"] = json!(o);
                    }
                    "uuid-nil" => v["cells"][i]["value"]["uuid"] = json!(Uuid::nil().to_string()),
                    "uuid-fresh" => v["cells"][i]["value"]["uuid"] = json!(rng.uuid().to_string()),
                    "uuid-malformed" => v["cells"][i]["value"]["uuid"] = json!(12345),
                    "missing-uuid" => {
                        v["cells"][i]["value"].as_object_mut()?.remove("uuid");
                    }
                    "data-wrong-type" => v["cells"][i]["value"]["data"] = json!([1, 2]),
                    _ => return None,
                }
            }
        }
        "cellverts" => {
            let ck = picks(rng, &cv_keys)?;
            note = format!("cell_vertices[{}]", ck);
            let map = v["cell_vertices"].as_object_mut()?;
            match what {
                "remove-entry" => {
                    map.remove(&ck);
                }
                "add-unknown-cell" => {
                    let list = map[&ck].clone();
                    map.insert(rng.uuid().to_string(), list);
                }
                "empty-list" => {
                    map.insert(ck, json!([]));
                }
                "list-wrong-type" => {
                    map.insert(ck, json!("abc"));
                }
                "copy-list-from-other-cell" => {
                    let others: Vec<String> = cv_keys.iter().filter(|k| **k != ck).cloned().collect();
                    let o = picks(rng, &others)?;
                    let list = map[&o].clone();
                    map.insert(ck, list);
                }
                _ => {
                    let list = map.get_mut(&ck)?.as_array_mut()?;
                    if list.len() < 2 {
                        return None;
                    }
                    let a = rng.usize(list.len());
                    let mut b = rng.usize(list.len());
                    if b == a {
                        b = (a + 1) % list.len();
                    }
                    match what {
                        "drop-one" => {
                            list.remove(a);
                        }
                        "repeat-one" => list[a] = list[b].clone(),
                        "append-one" => {
                            let inlist: Vec<String> = list.iter().filter_map(|x| x.as_str().map(|s| s.to_string())).collect();
                            let others: Vec<String> = vuu.iter().filter(|u| !inlist.contains(u)).cloned().collect();
                            let o = picks(rng, &others)?;
                            list.push(json!(o));
                        }
                        "append-repeat" => {
                            let x = list[a].clone();
                            list.push(x);
                        }
                        "unknown-uuid" => list[a] = json!(rng.uuid().to_string()),
                        "nil-uuid-in-list" => list[a] = json!(Uuid::nil().to_string()),
                        "other-existing-vertex" => {
                            let inlist: Vec<String> = list.iter().filter_map(|x| x.as_str().map(|s| s.to_string())).collect();
                            let others: Vec<String> = vuu.iter().filter(|u| !inlist.contains(u)).cloned().collect();
                            let o = picks(rng, &others)?;
                            list[a] = json!(o);
                        }
                        "swap-two" => list.swap(a, b),
                        "rotate-three" => {
                            if list.len() < 3 {
                                return None;
                            }
                            let x = list.remove(0);
                            list.insert(2, x);
                        }
                        _ => return None,
                    }
                }
            }
        }
        "slot" => {
            let (field, sub) = if let Some(s) = what.strip_prefix("vertex-") { ("vertices", s) } else if let Some(s) = what.strip_prefix("cell-") { ("cells", s) } else { ("vertices", what) };
            let occs = if field == "vertices" { &vocc } else { &cocc };
            let arr = v[field].as_array_mut()?;
            match sub {
                "flip-occupied" => {
                    let i = pick(rng, occs)?;
                    let ver = arr[i]["version"].as_u64()?;
                    arr[i]["version"] = json!(ver ^ 1);
                    note = format!("{} slot {} version {} -> {}", field, i, ver, ver ^ 1);
                }
                "null-value-odd-version" => {
                    let i = pick(rng, occs)?;
                    arr[i]["value"] = Value::Null;
                    note = format!("{} slot {}", field, i);
                }
                "vacant-gets-value" => {
                    let vac: Vec<usize> = (1..arr.len()).filter(|i| arr[*i]["value"].is_null()).collect();
                    let i = pick(rng, &vac)?;
                    let src = pick(rng, occs)?;
                    let mut val = arr[src]["value"].clone();
                    val["uuid"] = json!(rng.uuid().to_string());
                    arr[i]["value"] = val;
                    note = format!("{} vacant slot {} given a value (version stays even)", field, i);
                }
                "first-occupied" => {
                    let src = pick(rng, occs)?;
                    let mut val = arr[src]["value"].clone();
                    val["uuid"] = json!(rng.uuid().to_string());
                    arr[0] = json!({"value": val, "version": 1});
                }
                "version-bump" => {
                    let i = pick(rng, occs)?;
                    let ver = arr[i]["version"].as_u64()?;
                    arr[i]["version"] = json!(ver + 2);
                    note = format!("{} slot {} version {} -> {}", field, i, ver, ver + 2);
                }
                "version-overflow" => {
                    let i = pick(rng, occs)?;
                    arr[i]["version"] = json!(4_294_967_297u64);
                }
                "version-negative" => {
                    let i = pick(rng, occs)?;
                    arr[i]["version"] = json!(-1);
                }
                "missing-version" => {
                    let i = pick(rng, occs)?;
                    arr[i].as_object_mut()?.remove("version");
                }
                "sentinel-removed" => {
                    let f2 = if rng.bool() { "vertices" } else { "cells" };
                    let a2 = v[f2].as_array_mut()?;
                    if a2.is_empty() {
                        return None;
                    }
                    a2.remove(0);
                    note = format!("first (sentinel) slot of {} removed", f2);
                }
                _ => return None,
            }
        }
        "text" => match what {
            "truncate" => {
                if text.len() < 2 {
                    return None;
                }
                let cut = 1 + rng.usize(text.len() - 1);
                if !text.is_char_boundary(cut) {
                    return None;
                }
                note = format!("cut at byte {} of {}", cut, text.len());
                text_out = Some(text[..cut].to_string());
            }
            "duplicate-top-level-field" => {
                let f = *rng.pick(&["vertices", "cells", "cell_vertices"]);
                let body = serde_json::to_string(&v[f]).ok()?;
                let t = text.strip_suffix('}')?;
                note = format!("field {} given twice", f);
                text_out = Some(format!("{},\"{}\":{}}}", t, f, body));
            }
            _ => return None,
        },
        "top" => match what {
            "vertices-wrong-type" => v["vertices"] = rng.pick(&[json!({}), json!("x"), json!(5), Value::Null, json!([1, 2, 3])]).clone(),
            "cells-wrong-type" => v["cells"] = rng.pick(&[json!({}), json!("x"), json!(5), Value::Null, json!([[]])]).clone(),
            "cell-vertices-wrong-type" => v["cell_vertices"] = rng.pick(&[json!([]), json!("x"), json!(5), Value::Null, json!({"a": 1})]).clone(),
            "missing-field" => {
                let f = *rng.pick(&["vertices", "cells", "cell_vertices"]);
                v.as_object_mut()?.remove(f);
                note = format!("field {} removed", f);
            }
            "unknown-field" => {
                v.as_object_mut()?.insert("generation".into(), json!(3));
            }
            "empty-object" => v = json!({}),
            "not-an-object" => v = rng.pick(&[json!([]), Value::Null, json!("tds"), json!(1)]).clone(),
            _ => return None,
        },
        _ => return None,
    }
    let t = match text_out {
        Some(t) => t,
        None => serde_json::to_string(&v).ok()?,
    };
    if t == text {
        return None;
    }
    Some((t, note))
}

fn corrupted_documents<const D: usize>(ctx: &Ctx, out: &mut Out, cs: u64, text: &str, base: &Value, n_docs: usize) {
    let Ok(doc) = serde_json::from_str::<Value>(text) else {
        out.violation(P, "roundtrip/not-json", "the library's document is not valid JSON".into(), base.clone());
        return;
    };
    for i in 0..n_docs {
        if ctx.elapsed() > ctx.budget_s * 1.3 {
            break;
        }
        let kind = KINDS[(cs as usize).wrapping_add(i) % KINDS.len()];
        let mut rng = Rng::derive(cs, 3, i as u64);
        let Some((bad, note)) = corrupt(kind, &doc, text, &mut rng) else {
            out.count(&format!("corrupt/{}/not-applicable", kind));
            continue;
        };
        out.count("corrupt/documents");
        let mk_rp = |bad: &str| {
            let mut rp = base.clone();
            rp["corruption"] = json!({"kind": kind, "index": i, "target": note, "document_bytes": bad.len()});
            if bad.len() <= 4000 {
                rp["corrupted_document"] = json!(bad);
                if text.len() <= 4000 {
                    rp["original_document"] = json!(text);
                }
            }
            rp
        };
        let loaded = guard(|| serde_json::from_str::<Tds<f64, i32, i32, D>>(&bad).map_err(|e| e.to_string()));
        match loaded {
            Err(pi) => {
                out.count(&format!("corrupt/{}/panicked", kind));
                out.panic(P, &pi, &format!("loading a corrupted document ({})", kind), mk_rp(&bad));
            }
            Ok(Err(e)) => {
                out.count(&format!("corrupt/{}/rejected", kind));
                if out.counters.get(&format!("corrupt/{}/rejected", kind)).copied() == Some(1) && out.notes.len() < 80 {
                    out.notes.push(format!("{}: rejected with `{}`", kind, e.chars().take(110).collect::<String>()));
                }
            }
            Ok(Ok(tds)) => {
                let judged = guard(|| {
                    let m = RefModel::from_tds(&tds);
                    let mut f = refcheck::check_l1(&m);
                    f.extend(refcheck::check_l2(&m));
                    let lib = (tds.is_valid().is_ok(), tds.validate().is_ok());
                    (f, lib, m.verts.len(), m.cells.len())
                });
                match judged {
                    Err(pi) => {
                        out.count(&format!("corrupt/{}/loaded-then-panicked-on-read", kind));
                        out.panic(P, &pi, &format!("reading / validating a Tds loaded from a corrupted document ({})", kind), mk_rp(&bad));
                    }
                    Ok((fails, lib, nv, nc)) => {
                        if fails.is_empty() {
                            out.count(&format!("corrupt/{}/loaded-consistent", kind));
                        } else {
                            out.count(&format!("corrupt/{}/loaded-inconsistent", kind));
                            out.count(&format!("corrupt/{}/loaded-inconsistent/lib_is_valid={}/lib_validate={}", kind, lib.0, lib.1));
                            out.violation(
                                P,
                                &format!("corrupt/{}/loaded-inconsistent", kind),
                                format!("a document with one edit ({}; {}) was loaded as a Tds with {} vertices and {} cells that is not structurally consistent: {} (library verdicts on it: Tds::is_valid ok={}, Tds::validate ok={})", kind, note, nv, nc, fails.iter().take(3).cloned().collect::<Vec<_>>().join("; "), lib.0, lib.1),
                                mk_rp(&bad),
                            );
                        }
                    }
                }
            }
        }
    }
}

// ---------------------------------------------------------------------------------------------
// Cases
// ---------------------------------------------------------------------------------------------

fn case<K, const D: usize>(ctx: &Ctx, out: &mut Out, cs: u64, kn: Kn)
where
    K: Kernel<D, Scalar = f64>,
{
    out.eval();
    let thorough = ctx.tier == Tier::Thorough;
    let base = json!({"property": P, "case_seed": cs.to_string(), "D": D, "kernel": kn.name(), "path": "generic"});
    let mut rng = Rng::derive(cs, 1, 0);
    let Some((mut dt, desc)) = make_source::<K, D>(ctx, out, &mut rng, &base) else { return };
    let mut base = base;
    base["source"] = desc.clone();
    let nverts = dt.number_of_vertices();
    if nverts > D + 2 {
        out.nontrivial(&cs.to_string());
    }
    out.count(&format!("D{}/{}", D, kn.name()));
    let gu = dt.topology_guarantee();
    let load = move |s: &str| -> Result<Dt<K, D>, String> {
        let tds: Tds<f64, i32, i32, D> = serde_json::from_str(s).map_err(|e| e.to_string())?;
        Ok(Dt::<K, D>::from_tds_with_topology_guarantee(tds, K::default(), gu))
    };
    if std::env::var_os("DVERIF_C13_PRINT").is_some() {
        eprintln!("{}", serde_json::to_string(&dt).unwrap_or_default());
    }
    let mut trng = Rng::derive(cs, 2, 0);
    let text = roundtrip::<K, i32, i32, D>(ctx, out, &mut trng, &mut dt, &load, "", &base);
    if let Some(text) = text {
        // Part 2 on small documents (the original text, taken before the twin mutated anything)
        let n_docs = if thorough { 330 } else { 132 };
        if text.len() <= 60_000 {
            corrupted_documents::<D>(ctx, out, cs, &text, &base, n_docs);
        } else {
            out.count("corrupt/skipped_large_document");
        }
        if out.samples.len() < 3 && nverts > D + 2 {
            out.sample(json!({"D": D, "kernel": kn.name(), "source": desc["kind"], "vertices": desc["vertices"], "cells": desc["cells"], "vertex_key_gaps": desc["vertex_key_gaps"], "json_bytes": text.len(), "json_head": text.chars().take(400).collect::<String>()}));
        }
    }
}

/// The unit-typed path: `DelaunayTriangulation<FastKernel<f64>, (), (), D>` has its own Deserialize.
fn case_unit<const D: usize>(ctx: &Ctx, out: &mut Out, cs: u64) {
    type T<const D: usize> = DelaunayTriangulation<FastKernel<f64>, (), (), D>;
    out.eval();
    let thorough = ctx.tier == Tier::Thorough;
    let mut rng = Rng::derive(cs, 1, 1);
    let fam = *rng.pick(&[Family::Dyadic, Family::Dyadic, Family::Uniform, Family::Grid, Family::Hull]);
    let n = g::size_for::<D>(&mut rng, thorough);
    let pts = g::points::<D>(&mut rng, fam, n);
    // `()` data: Some(()) is written as `"data":null`; exercised in one case out of four
    let some_unit = rng.chance(1, 4);
    let verts: Vec<_> = pts.iter().map(|p| mk_vertex::<(), D>(*p, rng.uuid(), if some_unit { Some(0) } else { None })).collect();
    let mut base = json!({"property": P, "case_seed": cs.to_string(), "D": D, "kernel": "fast", "path": "unit", "source": {"kind": "new", "family": fam.name(), "n_input": pts.len(), "vertex_data": if some_unit { "Some(())" } else { "None" }}});
    if pts.len() <= 12 {
        base["source"]["points"] = crate::common::pts_json(&pts);
    }
    let mut dt: T<D> = match guard(|| T::<D>::new(&verts).map_err(|e| e.to_string())) {
        Ok(Ok(dt)) => dt,
        Ok(Err(_)) => {
            out.count("source/construction_err");
            return;
        }
        Err(pi) => {
            out.panic(P, &pi, "source construction (before any serialisation)", base.clone());
            return;
        }
    };
    // a few interior removals to vacate slots
    if rng.bool() {
        for _ in 0..1 + rng.usize(3) {
            let m = RefModel::from_dt(&dt);
            let interior = interior_vertices(&m);
            if interior.is_empty() {
                break;
            }
            let v = &m.verts[*rng.pick(&interior)];
            let (p, u) = (v.p, v.uuid);
            match guard(|| dt.remove_vertex(&mk_vertex::<(), D>(p, u, None)).is_ok()) {
                Ok(_) => {}
                Err(pi) => {
                    out.panic(P, &pi, "source remove_vertex (before any serialisation)", base.clone());
                    return;
                }
            }
        }
    }
    let m = RefModel::from_dt(&dt);
    if !gate(&m) {
        out.count("source/discarded/not-structurally-valid/unit");
        return;
    }
    out.count(if some_unit { "source/unit-some-data" } else { "source/unit" });
    if m.verts.len() > D + 2 {
        out.nontrivial(&cs.to_string());
    }
    out.count(&format!("D{}/unit", D));
    let gu = dt.topology_guarantee();
    let load = move |s: &str| -> Result<T<D>, String> {
        let mut c: T<D> = serde_json::from_str(s).map_err(|e| e.to_string())?;
        if c.topology_guarantee() != gu {
            c.set_topology_guarantee(gu);
        }
        Ok(c)
    };
    let mut trng = Rng::derive(cs, 2, 1);
    let tag = if some_unit { "unit-some-data/" } else { "unit/" };
    let _ = roundtrip::<FastKernel<f64>, (), (), D>(ctx, out, &mut trng, &mut dt, &load, tag, &base);
}

pub fn run_case(ctx: &Ctx, out: &mut Out, cs: u64, d: usize, kn: Kn, unit: bool) {
    if unit {
        match d {
            2 => case_unit::<2>(ctx, out, cs),
            3 => case_unit::<3>(ctx, out, cs),
            4 => case_unit::<4>(ctx, out, cs),
            _ => case_unit::<5>(ctx, out, cs),
        }
        return;
    }
    match (d, kn) {
        (2, Kn::Fast) => case::<FastKernel<f64>, 2>(ctx, out, cs, kn),
        (3, Kn::Fast) => case::<FastKernel<f64>, 3>(ctx, out, cs, kn),
        (4, Kn::Fast) => case::<FastKernel<f64>, 4>(ctx, out, cs, kn),
        (5, Kn::Fast) => case::<FastKernel<f64>, 5>(ctx, out, cs, kn),
        (2, Kn::Robust) => case::<RobustKernel<f64>, 2>(ctx, out, cs, kn),
        (3, Kn::Robust) => case::<RobustKernel<f64>, 3>(ctx, out, cs, kn),
        (4, Kn::Robust) => case::<RobustKernel<f64>, 4>(ctx, out, cs, kn),
        _ => case::<RobustKernel<f64>, 5>(ctx, out, cs, kn),
    }
}

pub fn run(ctx: &Ctx, out: &mut Out) {
    if let Some(doc) = &ctx.replay {
        if let (Some(cs), Some(d)) = (ctx.replay_seed(), doc["D"].as_u64()) {
            let kn = Kn::from_name(doc["kernel"].as_str().unwrap_or("fast")).unwrap_or(Kn::Fast);
            let unit = doc["path"].as_str() == Some("unit");
            run_case(ctx, out, cs, d as usize, kn, unit);
        } else {
            out.inconclusive("bad replay document");
        }
        return;
    }
    let cap = (if ctx.tier == Tier::Thorough { 100_000.0 } else { 1_200.0 } * ctx.scale) as u64;
    let mut i = 0u64;
    while i < cap && !ctx.out_of_time() {
        let cs = ctx.case_seed(i);
        let d = super::c01::pick_dim_hist(ctx, cs >> 7);
        let kn = if (cs >> 3) & 1 == 0 { Kn::Fast } else { Kn::Robust };
        let unit = (cs >> 11) % 7 == 0;
        run_case(ctx, out, cs, d, kn, unit);
        i += 1;
    }
}
