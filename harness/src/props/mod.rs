pub mod c01;
pub mod c02;
pub mod c03;
pub mod c04;
pub mod c05;
pub mod c06;
pub mod c07;
pub mod c08;
pub mod c09;
pub mod c10;
pub mod c11;
pub mod c12;
pub mod c13;
pub mod c14;
pub mod c15;
pub mod c16;
pub mod c17;
pub mod c18;
pub mod c19;
pub mod c19_sweep;
pub mod selftest;

use crate::common::{Ctx, Out};

pub fn run(ctx: &Ctx, out: &mut Out) -> bool {
    match ctx.prop.as_str() {
        "C01" => c01::run(ctx, out),
        "C02" => c02::run(ctx, out),
        "C03" => c03::run(ctx, out),
        "C04" => c04::run(ctx, out),
        "C05" => c05::run(ctx, out),
        "C06" => c06::run(ctx, out),
        "C07" => c07::run(ctx, out),
        "C08" => c08::run(ctx, out),
        "C09" => c09::run(ctx, out),
        "C10" => c10::run(ctx, out),
        "C11" => c11::run(ctx, out),
        "C12" => c12::run(ctx, out),
        "C13" => c13::run(ctx, out),
        "C14" => c14::run(ctx, out),
        "C15" => c15::run(ctx, out),
        "C16" => c16::run(ctx, out),
        "C17" => c17::run(ctx, out),
        "C18" => c18::run(ctx, out),
        "C19" => c19::run(ctx, out),
        "SELFTEST" => selftest::run(ctx, out),
        _ => return false,
    }
    true
}
