pub mod c12;
pub mod selftest;

use crate::common::{Ctx, Out};

pub fn run(ctx: &Ctx, out: &mut Out) -> bool {
    match ctx.prop.as_str() {
        "C12" => c12::run(ctx, out),
        "SELFTEST" => selftest::run(ctx, out),
        _ => return false,
    }
    true
}
