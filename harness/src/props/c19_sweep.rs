//! C19 hostile-argument sweep: calls every public function of `delaunay` that takes a key, an
//! index, a handle, a slice of keys, a `k`/count or a UUID with a hostile-argument matrix on a
//! live triangulation. The only thing judged is "no panic" (typed Err / None / empty / false are
//! all fine). Every call runs under `guard`; the first panic is returned together with a one-line
//! description (function path + hostile arguments).
//!
//! Hostile matrix
//!   keys    : live (first / random), stale (from `Memory`), null, fabricated from raw bits (wrong
//!             version, huge index, all-ones), live in ANOTHER triangulation (tiny one built here)
//!   indices : 0, D-1, D, D+1, D+2, 254, 255 (u8); plus 256, usize::MAX (usize)
//!   handles : FacetHandle / RidgeHandle / EdgeKey / TriangleHandle built by their public
//!             (unchecked) constructors from the keys and indices above; FacetViews of another Tds
//!   UUIDs   : nil, random unknown, UUID of a removed vertex, UUID of a live vertex
//! Mutating consumers (flips, Tds mutators, cavity helpers, remove_vertex, insert) work on clones.
//!
//! Two entry points: `sweep` (everything that involves the live triangulation; called every few
//! steps of a C19 history) and `sweep_pure` (index / count / `d` parameters of functions that involve
//! no triangulation; state-independent, so C19 runs it once per process as its own case kind
//! "pure" instead of at every history step). Evidence: `sweep/<function>/<ok|err|none|panic>`.
//! A reported panic carries the location `<file>#sweep.<function>:<line>:<col>`, i.e. the report
//! signature names the public function that was called, not only the source file of the panic.
//!
//! Known result on the unchanged library (debug-assertion/overflow-check builds only, `sweep_pure`):
//! `BistellarFlipKind::k3(0).inverse()` -> "attempt to subtract with overflow" (flips.rs:859),
//! `BistellarFlipKind::k{1,2,3}(usize::MAX [-1]).inverse()` -> "attempt to add with overflow".
//! Deliberately NOT passed: an `AdjacencyIndex` of another / an earlier triangulation to the
//! `*_with_index` methods (intentional `debug_assert_eq!` on the index size in debug builds).
//!
//! Inventory (`grep -rn "pub fn" /repo/src`: 387 public fns outside test modules; 102 of them take a
//! key / index / handle / key slice / count / UUID parameter, plus the 6 methods of the public trait
//! `BistellarFlips` (2 impls), the 2 FacetView-taking methods of the public trait `BoundaryAnalysis`
//! and the `&self` consumers of handle types). No target function documents a panic (`# Panics`)
//! for the conditions triggered here; the crate's only `# Panics` sections are on
//! `Triangulation::boundary_facets` (corrupted structure; not called), `AllFacetsIter::new`
//! (D > 255; unreachable), `dedup_vertices_epsilon` (negative epsilon; not a key/index fn),
//! `generate_random_triangulation*`, `Vertex::from_points`, `measure_with_result`, `matrix_get`.
//!
//! | function                                                             | covered | note |
//! |----------------------------------------------------------------------|---------|------|
//! | core::util::facet_keys::checked_facet_key_from_vertex_keys            | yes | slices of len 0, D-1, D, D+1 of hostile keys |
//! | core::util::facet_keys::verify_facet_index_consistency                | yes | cell x cell x usize index |
//! | core::util::facet_keys::usize_to_u8                                   | yes | sweep_pure |
//! | core::util::facet_utils::facet_views_are_adjacent                     | yes | live x live, live x foreign-Tds views |
//! | core::util::facet_utils::facet_view_to_vertices                       | yes | |
//! | core::util::facet_utils::generate_combinations                        | yes | k = 0, 1, D, len-1, len, len+1, usize::MAX |
//! | core::facet::FacetHandle::{new, cell_key, facet_index}                | yes | |
//! | core::facet::FacetView::new                                           | yes | cell x u8 index |
//! | core::facet::FacetView::{vertices, opposite_vertex, cell, key, cell_key, facet_index, tds, fmt, eq} | yes | on every view that could be built |
//! | core::facet::all_facets_for_cell                                      | yes | |
//! | core::facet::facet_key_from_vertices                                  | yes | incl. empty slice |
//! | core::facet::BoundaryFacetsIter::new                                  | yes | with the facet map of ANOTHER Tds |
//! | core::cell::Cell::contains_vertex                                     | yes | |
//! | core::cell::Cell::facet_views_from_tds / facet_view_iter              | yes | |
//! | core::cell::Cell::{vertex_uuids, vertex_uuid_iter, eq_by_vertices}    | yes | a cell of another Tds resolved against this Tds |
//! | core::edge::EdgeKey::{new, v0, v1, endpoints, from}                   | yes | |
//! | core::algorithms::flips::TriangleHandle::{new, vertices}              | yes | |
//! | core::algorithms::flips::RidgeHandle::{new, cell_key, omit_a, omit_b} | yes | |
//! | core::algorithms::flips::BistellarFlipKind::{k1,k2,k3}(d) + inverse/k | yes | sweep_pure; d = hostile usize |
//! | Tds::get_cell / contains_cell / contains_cell_key / get_cell_vertices | yes | |
//! | Tds::cell_uuid_from_key / vertex_uuid_from_key / get_vertex_by_key / contains_vertex_key | yes | |
//! | Tds::cell_key_from_uuid / vertex_key_from_uuid                        | yes | |
//! | Tds::find_neighbors_by_key / find_cells_containing_vertex_by_key      | yes | |
//! | Tds::get_cell_by_key_mut / get_vertex_by_key_mut                      | yes | clone |
//! | Tds::remove_cell_by_key / remove_cells_by_keys                        | yes | clone |
//! | Tds::set_neighbors_by_key                                             | yes | clone; neighbour slices of len 0, D, D+1, D+2 with hostile keys |
//! | Tds::facet_key_for_cell_facet                                         | (indirect) | pub(crate); reached through FacetView::key and verify_facet_index_consistency |
//! | Tds::verif_insert_cell_raw, Vertex::verif_set_uuid                    | no  | `verif-hooks` fault-injection accessors, not public API |
//! | Triangulation::{adjacent_cells, cell_neighbors, incident_edges, number_of_incident_edges, cell_vertices, vertex_coords} | yes | |
//! | Triangulation::*_with_index (8 methods incl. edges_with_index / number_of_edges_with_index) | yes | hostile keys with the MATCHING index (a foreign/stale index trips the intentional debug_assert on index/triangulation size mismatch; not passed) |
//! | Triangulation::detect_local_facet_issues                              | yes | |
//! | Triangulation::repair_local_facet_issues                              | yes | clone; hostile FacetIssuesMap |
//! | DelaunayTriangulation::{incident_edges, incident_edges_with_index, cell_neighbors, cell_neighbors_with_index, cell_vertices, vertex_coords} | yes | |
//! | DelaunayTriangulation::remove_vertex                                  | yes | clone; vertex with nil / max / unknown / removed-vertex / live-CELL UUID (a live vertex UUID is an ordinary removal: left to the history's Remove ops) |
//! | DelaunayTriangulation::insert (UUID provenance)                       | yes | clone; vertex re-using a live UUID, nil UUID |
//! | AdjacencyIndex::{adjacent_cells, number_of_adjacent_cells, incident_edges, number_of_incident_edges, cell_neighbors, number_of_cell_neighbors} | yes | matching index and index of another triangulation |
//! | geometry::quality::{radius_ratio, normalized_volume}                  | yes | |
//! | ConvexHull::get_facet                                                 | yes | usize index |
//! | ConvexHull::is_facet_visible_from_point                               | yes | hostile FacetHandles; own hull and hull of another triangulation |
//! | ConvexHull::{find_visible_facets, find_nearest_visible_facet, is_point_outside, validate, is_valid_for_triangulation} | yes | hull of ANOTHER triangulation against this one |
//! | core::util::jaccard::extract_hull_facet_set                           | yes | foreign hull |
//! | geometry::util::measures::surface_measure                             | yes | live + foreign FacetViews |
//! | BoundaryAnalysis::{is_boundary_facet, is_boundary_facet_with_map}     | yes | FacetViews of another Tds; map of another Tds |
//! | topology::manifold::validate_ridge_links_for_cells                    | yes | |
//! | core::util::delaunay_validation::find_delaunay_violations             | yes | Some(&[hostile]) |
//! | core::util::delaunay_validation::debug_print_first_delaunay_violation | yes | only exists with debug assertions |
//! | core::algorithms::locate::{locate, locate_with_stats}                 | yes | hostile hint |
//! | core::algorithms::locate::find_conflict_region                        | yes | hostile start cell |
//! | core::algorithms::locate::extract_cavity_boundary                     | yes | hostile CellKeyBuffer |
//! | core::algorithms::incremental_insertion::{fill_cavity, wire_cavity_neighbors, extend_hull} | yes | clone (documented partial mutation on error: fresh clone per call) |
//! | BistellarFlips::{flip_k1_insert, flip_k1_remove, flip_k2, flip_k3, flip_k2_inverse_from_edge, flip_k3_inverse_from_triangle} | yes | clone; both impls (DelaunayTriangulation, Triangulation) |
//! | topology::characteristics::euler::FVector::count                      | yes | sweep_pure |
//! | topology::spaces::toroidal::ToroidalSpace::wrap_coord                 | yes | sweep_pure; axis index |
//! | geometry::traits::coordinate::Coordinate::get (Point)                 | yes | sweep_pure; index |
//! | geometry::util::conversions::safe_usize_to_scalar                     | yes | sweep_pure |
//! | DelaunayRepairPolicy::{should_repair, decide}, DelaunayCheckPolicy::should_check | yes | sweep_pure; count |
//! | core::util::uuid::validate_uuid, Vertex::new_with_uuid + is_valid     | yes | |
//! | geometry::util::point_generation::* (8 fns, n_points), triangulation_generation::* (3), collections::helpers::*_with_capacity (5) | no | allocation-size parameters without a triangulation argument: a huge count is a memory request (alloc failure aborts the process, which no guard can catch); unseeded variants are not replayable |
//!
//! Summary: 102 key/index/handle/count/UUID-taking public fns + 8 public-trait methods. Covered:
//! 84 of the 102 and all 8 trait methods, plus 24 `&self` consumers of handles/views/foreign
//! objects that have no such parameter themselves (FacetView methods, ConvexHull queries with a
//! foreign hull, Cell::vertex_uuids with a foreign cell, BoundaryFacetsIter::new with a foreign
//! map, ...). Not covered: 16 allocation-size fns, 2 verif hooks (18).

use crate::api::mk_vertex;
use crate::common::{Out, PanicInfo, guard};
use crate::hist::Memory;
use crate::refcheck::Guarantee;
use crate::rng::Rng;
use crate::tri::{self, Dt, Input, Opts};
use delaunay::core::adjacency::AdjacencyIndex;
use delaunay::core::algorithms::flips::{BistellarFlipKind, RidgeHandle, TriangleHandle};
use delaunay::core::algorithms::incremental_insertion::{extend_hull, fill_cavity, wire_cavity_neighbors};
use delaunay::core::algorithms::locate::{extract_cavity_boundary, find_conflict_region, locate, locate_with_stats};
use delaunay::core::cell::Cell;
use delaunay::core::collections::{CellKeyBuffer, FacetIssuesMap, SmallBuffer};
use delaunay::core::delaunay_triangulation::{DelaunayCheckPolicy, DelaunayRepairPolicy};
use delaunay::core::edge::EdgeKey;
use delaunay::core::facet::{BoundaryFacetsIter, FacetHandle, FacetView, all_facets_for_cell, facet_key_from_vertices};
use delaunay::core::operations::TopologicalOperation;
use delaunay::core::traits::boundary_analysis::BoundaryAnalysis;
use delaunay::core::triangulation::TopologyGuarantee;
use delaunay::core::triangulation_data_structure::{CellKey, Tds, VertexKey};
use delaunay::core::util::{
    checked_facet_key_from_vertex_keys, facet_view_to_vertices, facet_views_are_adjacent, find_delaunay_violations, generate_combinations, usize_to_u8,
    verify_facet_index_consistency,
};
use delaunay::geometry::algorithms::convex_hull::ConvexHull;
use delaunay::geometry::kernel::Kernel;
use delaunay::geometry::point::Point;
use delaunay::geometry::quality::{normalized_volume, radius_ratio};
use delaunay::geometry::traits::coordinate::Coordinate;
use delaunay::topology::characteristics::euler::FVector;
use delaunay::topology::manifold::validate_ridge_links_for_cells;
use delaunay::topology::spaces::ToroidalSpace;
use delaunay::triangulation::flips::BistellarFlips;
use slotmap::{Key, KeyData};
use std::collections::BTreeMap;
use std::num::NonZeroUsize;
use uuid::Uuid;

type T3<const D: usize> = Tds<f64, i32, i32, D>;

// ---------------------------------------------------------------------------------------------
// outcome classification + bookkeeping
// ---------------------------------------------------------------------------------------------

const OK: u8 = 0;
const ERR: u8 = 1;
const NONE: u8 = 2;
const PANIC: u8 = 3;
const OUTCOMES: [&str; 4] = ["ok", "err", "none", "panic"];

/// Outcome class of a returned value (ok / err / none). Not a judgement: only for the evidence counters.
trait Oc {
    fn oc(&self) -> u8;
}
impl<A, E> Oc for Result<A, E> {
    fn oc(&self) -> u8 {
        if self.is_ok() { OK } else { ERR }
    }
}
impl<A> Oc for Option<A> {
    fn oc(&self) -> u8 {
        if self.is_some() { OK } else { NONE }
    }
}
impl Oc for bool {
    fn oc(&self) -> u8 {
        if *self { OK } else { NONE }
    }
}
impl Oc for usize {
    fn oc(&self) -> u8 {
        if *self > 0 { OK } else { NONE }
    }
}
impl Oc for u64 {
    fn oc(&self) -> u8 {
        OK
    }
}
impl Oc for () {
    fn oc(&self) -> u8 {
        OK
    }
}

struct Sw {
    tally: BTreeMap<(&'static str, u8), u64>,
    first: Option<(PanicInfo, String)>,
    calls: u64,
}

impl Sw {
    /// Remembers the first panic. The panic location gets the called function appended
    /// (`<file>#sweep.<function>:<line>:<col>`) so that the report signature (`Out::panic` keeps the
    /// file part only) is specific to the public function that was called: a known finding in one
    /// function then cannot hide a new panic in another function of the same source file.
    fn record(&mut self, name: &'static str, pi: PanicInfo, what: String) {
        if self.first.is_some() {
            return;
        }
        let fname: String = name.chars().map(|c| if c == ':' { '.' } else if c == ' ' { '_' } else { c }).collect::<String>().replace("..", ".");
        let (file, rest) = match pi.location.find(':') {
            Some(i) => (&pi.location[..i], &pi.location[i..]),
            None => (pi.location.as_str(), ""),
        };
        let location = format!("{}#sweep.{}{}", file, fname, rest);
        self.first = Some((PanicInfo { message: pi.message.clone(), location }, what));
    }

    /// Runs one library call under `guard`; records the outcome; remembers the first panic.
    fn call<R: Oc>(&mut self, name: &'static str, args: impl FnOnce() -> String, f: impl FnOnce() -> R) -> Option<R> {
        self.calls += 1;
        match guard(f) {
            Ok(v) => {
                *self.tally.entry((name, v.oc())).or_insert(0) += 1;
                Some(v)
            }
            Err(pi) => {
                *self.tally.entry((name, PANIC)).or_insert(0) += 1;
                self.record(name, pi, format!("{}({})", name, args()));
                None
            }
        }
    }

    /// Mutating call on a scratch clone of `base`. The clone is thrown away after a panic, after a
    /// successful (possibly mutating) call, and after a failure when the callee is not atomic.
    fn call_mut<S: Clone, R: Oc>(&mut self, base: &S, scratch: &mut Option<S>, atomic_on_failure: bool, name: &'static str, args: impl FnOnce() -> String, f: impl FnOnce(&mut S) -> R) -> Option<u8> {
        if scratch.is_none() {
            match guard(|| base.clone()) {
                Ok(c) => *scratch = Some(c),
                Err(pi) => {
                    *self.tally.entry(("Clone::clone", PANIC)).or_insert(0) += 1;
                    self.record("Clone::clone", pi, format!("clone before {}", name));
                    return None;
                }
            }
        }
        self.calls += 1;
        let r = {
            let s = scratch.as_mut().unwrap();
            guard(|| f(s).oc())
        };
        match r {
            Ok(o) => {
                *self.tally.entry((name, o)).or_insert(0) += 1;
                if o == OK || !atomic_on_failure {
                    *scratch = None;
                }
                Some(o)
            }
            Err(pi) => {
                *self.tally.entry((name, PANIC)).or_insert(0) += 1;
                self.record(name, pi, format!("{}({})", name, args()));
                *scratch = None;
                None
            }
        }
    }
}

fn ck(k: CellKey) -> String {
    format!("CellKey({:#x})", k.data().as_ffi())
}
fn vk(k: VertexKey) -> String {
    format!("VertexKey({:#x})", k.data().as_ffi())
}
fn cks(v: &[(CellKey, &'static str)]) -> String {
    v.iter().map(|(k, t)| format!("{}:{}", ck(*k), t)).collect::<Vec<_>>().join(",")
}
fn vks(v: &[(VertexKey, &'static str)]) -> String {
    v.iter().map(|(k, t)| format!("{}:{}", vk(*k), t)).collect::<Vec<_>>().join(",")
}

/// Keys fabricated from raw bits relative to a live key (idx | version << 32).
fn fabricated(live_ffi: Option<u64>) -> Vec<(u64, &'static str)> {
    let mut v = Vec::new();
    if let Some(f) = live_ffi {
        let idx = f & 0xFFFF_FFFF;
        let ver = f >> 32;
        v.push((((ver + 2) << 32) | idx, "live-index-newer-version"));
        if ver >= 3 {
            v.push((((ver - 2) << 32) | idx, "live-index-older-version"));
        }
    }
    v.push(((1u64 << 32) | 0xFFFF_FFF0, "huge-index"));
    v.push((u64::MAX, "all-ones"));
    v.push((0, "zero-bits"));
    v
}

fn idx_u8<const D: usize>() -> Vec<u8> {
    let mut v: Vec<u8> = vec![0, (D - 1) as u8, D as u8, (D + 1) as u8, (D + 2) as u8, 254, 255];
    v.dedup();
    v
}
fn idx_usize<const D: usize>() -> Vec<usize> {
    vec![0, D - 1, D, D + 1, D + 2, 254, 255, 256, usize::MAX]
}

/// The tiny second triangulation: the corner simplex plus one interior point (D+2 vertices).
fn build_other<K, const D: usize>(rng: &mut Rng) -> Option<Dt<K, D>>
where
    K: Kernel<D, Scalar = f64>,
{
    let mut pts: Vec<[f64; D]> = vec![[0.0; D]];
    for i in 0..D {
        let mut p = [0.0; D];
        p[i] = 1.0;
        pts.push(p);
    }
    pts.push([0.125; D]);
    let inp: Vec<Input<D>> = pts.iter().map(|p| Input { uuid: rng.uuid(), p: *p, data: Some(5) }).collect();
    match tri::build::<K, D>(&K::default(), &inp, Guarantee::PLManifold, &Opts::default_like()) {
        Ok(Ok(dt)) => Some(dt),
        _ => None,
    }
}

// ---------------------------------------------------------------------------------------------
// state-independent part (no triangulation involved): run once per process, not per history step
// ---------------------------------------------------------------------------------------------

/// Index / count / `d` parameters of public functions that do not involve a triangulation.
/// Deterministic, no rng. Returns the first panic with a description of the call.
pub fn sweep_pure(out: &mut Out) -> Option<(PanicInfo, String)> {
    const D: usize = 3;
    let mut sw = Sw { tally: BTreeMap::new(), first: None, calls: 0 };
    let mut ius = idx_usize::<D>();
    ius.extend([1usize, 2, 3, (1usize << 53) - 1, 1usize << 53, usize::MAX - 1, usize::MAX / 2 + 1]);
    let fv = FVector { by_dim: vec![4, 6, 4, 1] };
    let fv0 = FVector { by_dim: Vec::new() };
    let torus = ToroidalSpace::<D>::new([1.0; D]);
    let p = Point::new([0.25, 0.5, 0.75]);
    let every3 = NonZeroUsize::new(3).unwrap();
    let every_max = NonZeroUsize::new(usize::MAX).unwrap();
    for &i in &ius {
        for fc in [0usize, D + 1, usize::MAX] {
            sw.call("core::util::usize_to_u8", || format!("idx={}, facet_count={}", i, fc), || usize_to_u8(i, fc));
        }
        sw.call("core::algorithms::flips::BistellarFlipKind::k1(d).inverse", || format!("d={}", i), || BistellarFlipKind::k1(i).inverse().k() as u64);
        sw.call("core::algorithms::flips::BistellarFlipKind::k2(d).inverse", || format!("d={}", i), || BistellarFlipKind::k2(i).inverse().k() as u64);
        sw.call("core::algorithms::flips::BistellarFlipKind::k3(d).inverse", || format!("d={}", i), || BistellarFlipKind::k3(i).inverse().k() as u64);
        sw.call("topology::characteristics::euler::FVector::count", || format!("k={}", i), || fv.count(i) + fv0.count(i));
        sw.call("topology::spaces::ToroidalSpace::wrap_coord", || format!("axis={}", i), || torus.wrap_coord::<f64>(i, 1.5));
        sw.call("geometry::traits::coordinate::Coordinate::get", || format!("Point<f64,3>, index={}", i), || p.get(i));
        sw.call("geometry::util::safe_usize_to_scalar", || format!("{}", i), || delaunay::geometry::util::safe_usize_to_scalar::<f64>(i));
        sw.call("DelaunayRepairPolicy::should_repair/decide", || format!("insertion_count={}", i), || {
            let a = DelaunayRepairPolicy::EveryN(every3).should_repair(i);
            let _ = DelaunayRepairPolicy::EveryN(every_max).should_repair(i);
            let _ = DelaunayRepairPolicy::EveryN(every3).decide(i, TopologyGuarantee::PLManifold, TopologicalOperation::FacetFlip);
            let _ = DelaunayRepairPolicy::EveryInsertion.decide(i, TopologyGuarantee::Pseudomanifold, TopologicalOperation::FacetFlip);
            a
        });
        sw.call("DelaunayCheckPolicy::should_check", || format!("insertion_count={}", i), || DelaunayCheckPolicy::EveryN(every3).should_check(i) | DelaunayCheckPolicy::EveryN(every_max).should_check(i));
    }
    for u in [Uuid::nil(), Uuid::max(), Uuid::from_u128(0x1234_5678_9abc_4def_8123_4567_89ab_cdef), Uuid::from_u128(1)] {
        sw.call("core::util::uuid::validate_uuid", || format!("{}", u), || delaunay::core::util::validate_uuid(&u));
    }
    for ((name, o), n) in &sw.tally {
        if *n > 0 {
            out.add(&format!("sweep/{}/{}", name, OUTCOMES[*o as usize]), *n);
        }
    }
    out.count("sweep/pure_rounds");
    out.add("sweep/calls", sw.calls);
    sw.first
}

// ---------------------------------------------------------------------------------------------
// the sweep
// ---------------------------------------------------------------------------------------------

/// Calls the key/index/handle/UUID-taking public surface with hostile arguments on `dt`
/// (never mutating it). Returns the first panic with a one-line description of the call.
/// `foreign` caches the tiny second triangulation (built here when empty; building it costs as
/// much as the rest of the sweep for D >= 4, so a history builds it once).
pub fn sweep<K, const D: usize>(dt: &Dt<K, D>, mem: &Memory<D>, rng: &mut Rng, out: &mut Out, foreign: &mut Option<Dt<K, D>>) -> Option<(PanicInfo, String)>
where
    K: Kernel<D, Scalar = f64>,
{
    let t0 = std::time::Instant::now();
    let mut sw = Sw { tally: BTreeMap::new(), first: None, calls: 0 };
    if foreign.is_none() {
        *foreign = build_other::<K, D>(rng);
        out.count("sweep/foreign_triangulation_built");
    }
    if foreign.is_none() {
        out.count("sweep/note/foreign_triangulation_unavailable");
    }
    sweep_inner(&mut sw, dt, foreign.as_ref(), mem, rng);
    for ((name, o), n) in &sw.tally {
        if *n > 0 {
            out.add(&format!("sweep/{}/{}", name, OUTCOMES[*o as usize]), *n);
        }
    }
    out.count("sweep/rounds");
    out.add("sweep/calls", sw.calls);
    let us = t0.elapsed().as_micros() as u64;
    out.add("sweep/total_us", us);
    out.max("max/sweep_us", us);
    out.count(&format!("sweep/rounds/D{}", D));
    out.add(&format!("sweep/total_us/D{}", D), us);
    out.max(&format!("max/sweep_us/D{}", D), us);
    out.max(&format!("max/sweep_vertices/D{}", D), dt.number_of_vertices() as u64);
    sw.first
}

#[allow(clippy::too_many_lines)]
fn sweep_inner<K, const D: usize>(sw: &mut Sw, dt: &Dt<K, D>, other: Option<&Dt<K, D>>, mem: &Memory<D>, rng: &mut Rng)
where
    K: Kernel<D, Scalar = f64>,
{
    let tds: &T3<D> = dt.tds();
    let tri = dt.as_triangulation();
    let kernel = K::default();
    let iu8 = idx_u8::<D>();
    let ius = idx_usize::<D>();

    // ----- hostile keys ------------------------------------------------------------------------
    let live_c: Vec<CellKey> = tds.cell_keys().collect();
    let live_v: Vec<VertexKey> = tds.vertex_keys().collect();
    let mut hc: Vec<(CellKey, &'static str)> = Vec::new();
    if !live_c.is_empty() {
        hc.push((live_c[0], "live"));
        let r = live_c[rng.usize(live_c.len())];
        if r != live_c[0] {
            hc.push((r, "live"));
        }
    }
    if !mem.stale_cells.is_empty() {
        hc.push((mem.stale_cells[0], "stale"));
        let r = mem.stale_cells[rng.usize(mem.stale_cells.len())];
        if r != mem.stale_cells[0] {
            hc.push((r, "stale"));
        }
    }
    hc.push((CellKey::null(), "null"));
    for (bits, tag) in fabricated(live_c.first().map(|k| k.data().as_ffi())) {
        hc.push((CellKey::from(KeyData::from_ffi(bits)), tag));
    }
    let mut hv: Vec<(VertexKey, &'static str)> = Vec::new();
    if !live_v.is_empty() {
        hv.push((live_v[0], "live"));
        let r = live_v[rng.usize(live_v.len())];
        if r != live_v[0] {
            hv.push((r, "live"));
        }
    }
    if !mem.stale_vertices.is_empty() {
        hv.push((mem.stale_vertices[0], "stale"));
        let r = mem.stale_vertices[rng.usize(mem.stale_vertices.len())];
        if r != mem.stale_vertices[0] {
            hv.push((r, "stale"));
        }
    }
    hv.push((VertexKey::null(), "null"));
    for (bits, tag) in fabricated(live_v.first().map(|k| k.data().as_ffi())) {
        hv.push((VertexKey::from(KeyData::from_ffi(bits)), tag));
    }
    if let Some(o) = other {
        if let Some(k) = o.tds().cell_keys().last() {
            hc.push((k, "foreign"));
        }
        if let Some(k) = o.tds().vertex_keys().last() {
            hv.push((k, "foreign"));
        }
    }
    // a short list for the quadratic / cubic matrices
    let hc_short: Vec<(CellKey, &'static str)> = {
        let mut s: Vec<(CellKey, &'static str)> = Vec::new();
        for tag in ["live", "stale", "null", "live-index-newer-version", "foreign"] {
            if let Some(e) = hc.iter().find(|e| e.1 == tag) {
                s.push(*e);
            }
        }
        s
    };
    let hv_short: Vec<(VertexKey, &'static str)> = {
        let mut s: Vec<(VertexKey, &'static str)> = Vec::new();
        for tag in ["live", "stale", "null", "live-index-newer-version", "foreign"] {
            if let Some(e) = hv.iter().find(|e| e.1 == tag) {
                s.push(*e);
            }
        }
        if let Some(e) = hv.iter().filter(|e| e.1 == "live").nth(1) {
            s.push(*e);
        }
        s
    };
    let all_c: Vec<CellKey> = hc.iter().map(|e| e.0).collect();
    let all_v: Vec<VertexKey> = hv.iter().map(|e| e.0).collect();

    // ----- hostile UUIDs -----------------------------------------------------------------------
    let mut hu: Vec<(Uuid, &'static str)> = vec![(Uuid::nil(), "nil"), (rng.uuid(), "unknown"), (Uuid::max(), "max")];
    if let Some((u, _)) = mem.removed.first() {
        hu.push((*u, "removed"));
    }
    if let Some(v) = live_v.first().and_then(|k| tds.get_vertex_by_key(*k)) {
        hu.push((v.uuid(), "live-vertex"));
    }
    if let Some(c) = live_c.first().and_then(|k| tds.get_cell(*k)) {
        hu.push((c.uuid(), "live-cell"));
    }

    // ----- query points ------------------------------------------------------------------------
    let coords: Vec<[f64; D]> = live_v.iter().take(64).filter_map(|k| tds.get_vertex_by_key(*k)).map(|v| v.point().to_array()).collect();
    let q_in: [f64; D] = if coords.len() >= 2 {
        let a = coords[rng.usize(coords.len())];
        let b = coords[rng.usize(coords.len())];
        let mut m = [0.0; D];
        for i in 0..D {
            m[i] = 0.5 * a[i] + 0.5 * b[i] + 0.001 * (i as f64 + 1.0);
        }
        m
    } else {
        [0.3; D]
    };
    let q_out: [f64; D] = [mem.extent.max(1.0) * 64.0; D];
    let q_huge: [f64; D] = [1e300; D];
    let queries: [(&'static str, Point<f64, D>); 3] = [("inside-ish", Point::new(q_in)), ("outside", Point::new(q_out)), ("1e300", Point::new(q_huge))];

    // ===========================================================================================
    // core/util/facet_keys.rs, core/facet.rs (key functions)
    // ===========================================================================================
    for len in [0usize, D - 1, D, D + 1] {
        for rot in 0..hv.len().max(1) {
            let s: Vec<VertexKey> = (0..len).map(|i| all_v[(rot + i) % all_v.len()]).collect();
            sw.call("core::util::checked_facet_key_from_vertex_keys", || format!("len {} [{}]", len, s.iter().map(|k| vk(*k)).collect::<Vec<_>>().join(",")), || checked_facet_key_from_vertex_keys::<D>(&s));
            sw.call("core::facet::facet_key_from_vertices", || format!("len {} [{}]", len, s.iter().map(|k| vk(*k)).collect::<Vec<_>>().join(",")), || facet_key_from_vertices(&s));
        }
    }
    for (c1, t1) in &hc {
        for (c2, t2) in &hc_short {
            for &i in &ius {
                sw.call("core::util::verify_facet_index_consistency", || format!("tds, cell1={}:{}, cell2={}:{}, facet_idx={}", ck(*c1), t1, ck(*c2), t2, i), || verify_facet_index_consistency(tds, *c1, *c2, i));
            }
        }
    }

    // ===========================================================================================
    // core/facet.rs: FacetHandle, FacetView, all_facets_for_cell; core/cell.rs facet views
    // ===========================================================================================
    let mut views: Vec<FacetView<'_, f64, i32, i32, D>> = Vec::new();
    for (c, t) in &hc {
        for &i in &iu8 {
            let h = FacetHandle::new(*c, i);
            sw.call("core::facet::FacetHandle::new+getters", || format!("{}:{}, {}", ck(*c), t, i), || h.cell_key() == *c && h.facet_index() == i);
            if let Some(Ok(v)) = sw.call("core::facet::FacetView::new", || format!("tds, {}:{}, facet_index={}", ck(*c), t, i), || FacetView::new(tds, *c, i)) {
                if views.len() < 12 {
                    views.push(v);
                }
            }
        }
        sw.call("core::facet::all_facets_for_cell", || format!("tds, {}:{}", ck(*c), t), || all_facets_for_cell(tds, *c).map(|v| v.len()));
        sw.call("core::cell::Cell::facet_views_from_tds", || format!("tds, {}:{}", ck(*c), t), || Cell::facet_views_from_tds(tds, *c).map(|v| v.len()));
        sw.call("core::cell::Cell::facet_view_iter", || format!("tds, {}:{}", ck(*c), t), || Cell::facet_view_iter(tds, *c).map(|it| it.filter(|r| r.is_ok()).count()));
    }
    // views of ANOTHER Tds (foreign handles)
    let mut foreign_views: Vec<FacetView<'_, f64, i32, i32, D>> = Vec::new();
    if let Some(o) = other {
        for (c, _) in o.tds().cells().take(2) {
            for i in [0u8, D as u8] {
                if let Ok(v) = FacetView::new(o.tds(), c, i) {
                    foreign_views.push(v);
                }
            }
        }
    }
    let fv_desc = |v: &FacetView<'_, f64, i32, i32, D>, foreign: bool| format!("FacetView{{{}, facet_index={}{}}}", ck(v.cell_key()), v.facet_index(), if foreign { ", of another Tds" } else { "" });
    for (v, foreign) in views.iter().map(|v| (v, false)).chain(foreign_views.iter().map(|v| (v, true))) {
        sw.call("core::facet::FacetView::vertices", || fv_desc(v, foreign), || v.vertices().map(|it| it.count()));
        sw.call("core::facet::FacetView::opposite_vertex", || fv_desc(v, foreign), || v.opposite_vertex().map(|x| x.uuid()));
        sw.call("core::facet::FacetView::cell", || fv_desc(v, foreign), || v.cell().map(|c| c.uuid()));
        sw.call("core::facet::FacetView::key", || fv_desc(v, foreign), || v.key());
        sw.call("core::facet::FacetView::accessors+fmt+eq", || fv_desc(v, foreign), || {
            let _ = v.tds().number_of_cells();
            let s = format!("{:?}", v);
            #[allow(clippy::eq_op)]
            let e = *v == *v;
            e && !s.is_empty() && v.facet_index() as usize <= D
        });
        sw.call("core::util::facet_view_to_vertices", || fv_desc(v, foreign), || facet_view_to_vertices(v).map(|x| x.len()));
        sw.call("BoundaryAnalysis::is_boundary_facet", || format!("tds, {}", fv_desc(v, foreign)), || tds.is_boundary_facet(v));
    }
    {
        let all_views: Vec<(&FacetView<'_, f64, i32, i32, D>, bool)> = views.iter().map(|v| (v, false)).chain(foreign_views.iter().map(|v| (v, true))).collect();
        for (a, fa) in all_views.iter().take(6) {
            for (b, fb) in all_views.iter().rev().take(6) {
                sw.call("core::util::facet_views_are_adjacent", || format!("{}, {}", fv_desc(a, *fa), fv_desc(b, *fb)), || facet_views_are_adjacent(a, b));
            }
        }
        let mixed: Vec<FacetView<'_, f64, i32, i32, D>> = all_views.iter().map(|(v, _)| **v).collect();
        sw.call("geometry::util::surface_measure", || format!("{} live + foreign FacetViews", mixed.len()), || delaunay::geometry::util::surface_measure(&mixed));
        sw.call("geometry::util::surface_measure", || "empty slice".to_string(), || delaunay::geometry::util::surface_measure::<f64, i32, i32, D>(&[]));
    }
    // facet maps: own map with foreign views, foreign map with own views / own iterator
    let own_map = sw.call("Tds::build_facet_to_cells_map", || "tds".to_string(), || tds.build_facet_to_cells_map()).and_then(Result::ok);
    let foreign_map = other.and_then(|o| o.tds().build_facet_to_cells_map().ok());
    if let Some(m) = &own_map {
        for v in &foreign_views {
            sw.call("BoundaryAnalysis::is_boundary_facet_with_map", || format!("tds, {}, own map", fv_desc(v, true)), || tds.is_boundary_facet_with_map(v, m));
        }
    }
    if let Some(m) = &foreign_map {
        for v in views.iter().take(4) {
            sw.call("BoundaryAnalysis::is_boundary_facet_with_map", || format!("tds, {}, facet map of another Tds", fv_desc(v, false)), || tds.is_boundary_facet_with_map(v, m));
        }
        sw.call("core::facet::BoundaryFacetsIter::new", || "tds, facet map of another Tds".to_string(), || BoundaryFacetsIter::new(tds, m.clone()).count());
    }

    // ===========================================================================================
    // core/cell.rs, core/edge.rs, handle constructors
    // ===========================================================================================
    if let Some(cell) = live_c.first().and_then(|k| tds.get_cell(*k)) {
        for (v, t) in &hv {
            sw.call("core::cell::Cell::contains_vertex", || format!("live cell, {}:{}", vk(*v), t), || cell.contains_vertex(*v));
        }
    }
    if let Some(o) = other {
        if let Some((fk, fcell)) = o.tds().cells().next() {
            sw.call("core::cell::Cell::vertex_uuids", || format!("cell {} of another Tds, this tds", ck(fk)), || fcell.vertex_uuids(tds).map(|b| b.len()));
            sw.call("core::cell::Cell::vertex_uuid_iter", || format!("cell {} of another Tds, this tds", ck(fk)), || fcell.vertex_uuid_iter(tds).filter(|r| r.is_ok()).count());
            if let Some(cell) = live_c.first().and_then(|k| tds.get_cell(*k)) {
                sw.call("core::cell::Cell::eq_by_vertices", || "live cell with the OTHER tds, foreign cell with THIS tds".to_string(), || cell.eq_by_vertices(o.tds(), fcell, tds));
                sw.call("core::cell::Cell::eq_by_vertices", || "live cell, tds, foreign cell, other tds".to_string(), || cell.eq_by_vertices(tds, fcell, o.tds()));
            }
        }
    }
    let mut edges: Vec<EdgeKey> = Vec::new();
    for (a, ta) in &hv_short {
        for (b, tb) in &hv_short {
            if let Some(e) = sw.call("core::edge::EdgeKey::new+accessors", || format!("{}:{}, {}:{}", vk(*a), ta, vk(*b), tb), || {
                let e = EdgeKey::new(*a, *b);
                let f: EdgeKey = (*b, *a).into();
                (e.v0(), e.v1()) == e.endpoints() && e == f
            }) {
                let _ = e;
                edges.push(EdgeKey::new(*a, *b));
            }
        }
    }
    let mut triangles: Vec<TriangleHandle> = Vec::new();
    for (a, _) in &hv_short {
        for (b, _) in &hv_short {
            for (c, _) in hv_short.iter().take(4) {
                if sw.call("core::algorithms::flips::TriangleHandle::new+vertices", || format!("{}, {}, {}", vk(*a), vk(*b), vk(*c)), || TriangleHandle::new(*a, *b, *c).vertices().len() == 3).is_some() && triangles.len() < 40 {
                    triangles.push(TriangleHandle::new(*a, *b, *c));
                }
            }
        }
    }
    let mut ridges: Vec<RidgeHandle> = Vec::new();
    for (c, t) in &hc_short {
        for &a in &iu8 {
            for &b in &iu8 {
                if sw.call("core::algorithms::flips::RidgeHandle::new+getters", || format!("{}:{}, {}, {}", ck(*c), t, a, b), || {
                    let r = RidgeHandle::new(*c, a, b);
                    r.cell_key() == *c && r.omit_a() <= r.omit_b()
                })
                .is_some()
                    && a <= b
                {
                    ridges.push(RidgeHandle::new(*c, a, b));
                }
            }
        }
    }

    // ===========================================================================================
    // core/triangulation_data_structure.rs: getters / lookups
    // ===========================================================================================
    for (c, t) in &hc {
        let a = || format!("{}:{}", ck(*c), t);
        sw.call("Tds::get_cell", a, || tds.get_cell(*c).map(|x| x.uuid()));
        sw.call("Tds::contains_cell", a, || tds.contains_cell(*c));
        sw.call("Tds::contains_cell_key", a, || tds.contains_cell_key(*c));
        sw.call("Tds::get_cell_vertices", a, || tds.get_cell_vertices(*c).map(|b| b.len()));
        sw.call("Tds::cell_uuid_from_key", a, || tds.cell_uuid_from_key(*c));
        sw.call("Tds::find_neighbors_by_key", a, || tds.find_neighbors_by_key(*c).iter().flatten().count());
        sw.call("Triangulation::cell_neighbors", a, || tri.cell_neighbors(*c).count());
        sw.call("Triangulation::cell_vertices", a, || tri.cell_vertices(*c).map(<[VertexKey]>::len));
        sw.call("DelaunayTriangulation::cell_neighbors", a, || dt.cell_neighbors(*c).count());
        sw.call("DelaunayTriangulation::cell_vertices", a, || dt.cell_vertices(*c).map(<[VertexKey]>::len));
        sw.call("geometry::quality::radius_ratio", a, || radius_ratio(tri, *c));
        sw.call("geometry::quality::normalized_volume", a, || normalized_volume(tri, *c));
    }
    for (v, t) in &hv {
        let a = || format!("{}:{}", vk(*v), t);
        sw.call("Tds::get_vertex_by_key", a, || tds.get_vertex_by_key(*v).map(|x| x.uuid()));
        sw.call("Tds::contains_vertex_key", a, || tds.contains_vertex_key(*v));
        sw.call("Tds::vertex_uuid_from_key", a, || tds.vertex_uuid_from_key(*v));
        sw.call("Tds::find_cells_containing_vertex_by_key", a, || tds.find_cells_containing_vertex_by_key(*v).len());
        sw.call("Triangulation::adjacent_cells", a, || tri.adjacent_cells(*v).count());
        sw.call("Triangulation::incident_edges", a, || tri.incident_edges(*v).count());
        sw.call("Triangulation::number_of_incident_edges", a, || tri.number_of_incident_edges(*v));
        sw.call("Triangulation::vertex_coords", a, || tri.vertex_coords(*v).map(<[f64]>::len));
        sw.call("DelaunayTriangulation::incident_edges", a, || dt.incident_edges(*v).count());
        sw.call("DelaunayTriangulation::vertex_coords", a, || dt.vertex_coords(*v).map(<[f64]>::len));
    }
    for (u, t) in &hu {
        let a = || format!("{}:{}", u, t);
        sw.call("Tds::cell_key_from_uuid", a, || tds.cell_key_from_uuid(u));
        sw.call("Tds::vertex_key_from_uuid", a, || tds.vertex_key_from_uuid(u));
        sw.call("core::util::uuid::validate_uuid", a, || delaunay::core::util::validate_uuid(u));
        sw.call("Vertex::new_with_uuid+is_valid", a, || mk_vertex::<i32, D>(q_in, *u, Some(1)).is_valid());
    }

    // ===========================================================================================
    // core/adjacency.rs + the *_with_index twins (matching index; foreign index for the index's own methods)
    // ===========================================================================================
    let own_index: Option<AdjacencyIndex> = sw.call("Triangulation::build_adjacency_index", || "tri".to_string(), || tri.build_adjacency_index()).and_then(Result::ok);
    let foreign_index: Option<AdjacencyIndex> = other.and_then(|o| o.as_triangulation().build_adjacency_index().ok());
    if let Some(ix) = &own_index {
        sw.call("Triangulation::edges_with_index", || "matching index".to_string(), || tri.edges_with_index(ix).count());
        sw.call("Triangulation::number_of_edges_with_index", || "matching index".to_string(), || tri.number_of_edges_with_index(ix));
        sw.call("DelaunayTriangulation::edges_with_index", || "matching index".to_string(), || dt.edges_with_index(ix).count());
        for (v, t) in &hv {
            let a = || format!("matching index, {}:{}", vk(*v), t);
            sw.call("Triangulation::adjacent_cells_with_index", a, || tri.adjacent_cells_with_index(ix, *v).count());
            sw.call("Triangulation::number_of_adjacent_cells_with_index", a, || tri.number_of_adjacent_cells_with_index(ix, *v));
            sw.call("Triangulation::incident_edges_with_index", a, || tri.incident_edges_with_index(ix, *v).count());
            sw.call("Triangulation::number_of_incident_edges_with_index", a, || tri.number_of_incident_edges_with_index(ix, *v));
            sw.call("DelaunayTriangulation::incident_edges_with_index", a, || dt.incident_edges_with_index(ix, *v).count());
        }
        for (c, t) in &hc {
            let a = || format!("matching index, {}:{}", ck(*c), t);
            sw.call("Triangulation::cell_neighbors_with_index", a, || tri.cell_neighbors_with_index(ix, *c).count());
            sw.call("Triangulation::number_of_cell_neighbors_with_index", a, || tri.number_of_cell_neighbors_with_index(ix, *c));
            sw.call("DelaunayTriangulation::cell_neighbors_with_index", a, || dt.cell_neighbors_with_index(ix, *c).count());
        }
    }
    for (ix, which) in own_index.iter().map(|i| (i, "own index")).chain(foreign_index.iter().map(|i| (i, "index of another triangulation"))) {
        for (v, t) in &hv {
            let a = || format!("{}, {}:{}", which, vk(*v), t);
            sw.call("AdjacencyIndex::adjacent_cells", a, || ix.adjacent_cells(*v).count());
            sw.call("AdjacencyIndex::number_of_adjacent_cells", a, || ix.number_of_adjacent_cells(*v));
            sw.call("AdjacencyIndex::incident_edges", a, || ix.incident_edges(*v).count());
            sw.call("AdjacencyIndex::number_of_incident_edges", a, || ix.number_of_incident_edges(*v));
        }
        for (c, t) in &hc {
            let a = || format!("{}, {}:{}", which, ck(*c), t);
            sw.call("AdjacencyIndex::cell_neighbors", a, || ix.cell_neighbors(*c).count());
            sw.call("AdjacencyIndex::number_of_cell_neighbors", a, || ix.number_of_cell_neighbors(*c));
        }
    }

    // ===========================================================================================
    // slices of hostile keys: manifold, delaunay_validation, local facet issues, cavity boundary
    // ===========================================================================================
    let mut slices: Vec<(Vec<CellKey>, String)> = vec![(Vec::new(), "[]".to_string()), (all_c.clone(), format!("[{}]", cks(&hc)))];
    for e in &hc {
        slices.push((vec![e.0], format!("[{}]", cks(&[*e]))));
    }
    if let Some(l) = live_c.first() {
        slices.push((vec![*l, *l, CellKey::null(), *l], format!("[{0},{0},null,{0}] (duplicates)", ck(*l))));
    }
    for (s, desc) in &slices {
        sw.call("topology::manifold::validate_ridge_links_for_cells", || format!("tds, {}", desc), || validate_ridge_links_for_cells(tds, s));
        sw.call("core::util::find_delaunay_violations", || format!("tds, Some({})", desc), || find_delaunay_violations(tds, Some(s)).map(|v| v.len()));
        #[cfg(debug_assertions)]
        sw.call("core::util::debug_print_first_delaunay_violation", || format!("tds, Some({})", desc), || delaunay::core::util::debug_print_first_delaunay_violation(tds, Some(s)));
        sw.call("Triangulation::detect_local_facet_issues", || desc.clone(), || tri.detect_local_facet_issues(s).map(|o| o.map_or(0, |m| m.len())));
        let buf: CellKeyBuffer = s.iter().copied().collect();
        sw.call("core::algorithms::locate::extract_cavity_boundary", || format!("tds, {}", desc), || extract_cavity_boundary(tds, &buf).map(|b| b.len()));
    }

    // ===========================================================================================
    // core/algorithms/locate.rs: hostile hint / start cell
    // ===========================================================================================
    for (qn, q) in &queries {
        for (c, t) in &hc {
            let a = || format!("tds, kernel, point {}, {}:{}", qn, ck(*c), t);
            sw.call("core::algorithms::locate::locate", a, || locate(tds, &kernel, q, Some(*c)).map(|_| ()));
            sw.call("core::algorithms::locate::find_conflict_region", a, || find_conflict_region(tds, &kernel, q, *c).map(|b| b.len()));
        }
        if let Some((c, t)) = hc.iter().find(|e| e.1 == "stale").or(hc.first()) {
            sw.call("core::algorithms::locate::locate_with_stats", || format!("tds, kernel, point {}, {}:{}", qn, ck(*c), t), || locate_with_stats(tds, &kernel, q, Some(*c)).map(|_| ()));
        }
    }

    // ===========================================================================================
    // geometry/algorithms/convex_hull.rs
    // ===========================================================================================
    let own_hull = sw.call("ConvexHull::from_triangulation", || "tri".to_string(), || ConvexHull::from_triangulation(tri)).and_then(Result::ok);
    let foreign_hull = other.and_then(|o| ConvexHull::from_triangulation(o.as_triangulation()).ok());
    let mut hostile_facets: Vec<(FacetHandle, String)> = Vec::new();
    for (c, t) in &hc {
        for &i in &iu8 {
            hostile_facets.push((FacetHandle::new(*c, i), format!("FacetHandle{{{}:{}, {}}}", ck(*c), t, i)));
        }
    }
    for (hull, which) in own_hull.iter().map(|h| (h, "own hull")).chain(foreign_hull.iter().map(|h| (h, "hull of another triangulation"))) {
        for &i in &ius {
            sw.call("ConvexHull::get_facet", || format!("{}, index={}", which, i), || hull.get_facet(i).map(|h| h.facet_index()));
        }
        let n = hull.number_of_facets();
        for i in [n.wrapping_sub(1), n, n.wrapping_add(1)] {
            sw.call("ConvexHull::get_facet", || format!("{} with {} facets, index={}", which, n, i), || hull.get_facet(i).map(|h| h.facet_index()));
        }
        let (qn, q) = &queries[1];
        for (h, desc) in &hostile_facets {
            sw.call("ConvexHull::is_facet_visible_from_point", || format!("{}, {}, point {}, tri", which, desc, qn), || hull.is_facet_visible_from_point(h, q, tri));
        }
        sw.call("ConvexHull::is_valid_for_triangulation", || which.to_string(), || hull.is_valid_for_triangulation(tri));
        sw.call("ConvexHull::validate", || format!("{}, tri", which), || hull.validate(tri));
        for (qn, q) in &queries {
            sw.call("ConvexHull::find_visible_facets", || format!("{}, point {}, tri", which, qn), || hull.find_visible_facets(q, tri).map(|v| v.len()));
            sw.call("ConvexHull::find_nearest_visible_facet", || format!("{}, point {}, tri", which, qn), || hull.find_nearest_visible_facet(q, tri).map(|_| ()));
            sw.call("ConvexHull::is_point_outside", || format!("{}, point {}, tri", which, qn), || hull.is_point_outside(q, tri));
        }
        sw.call("core::util::jaccard::extract_hull_facet_set", || format!("{}, tri", which), || delaunay::core::util::extract_hull_facet_set(hull, tri).map(|s| s.len()));
    }

    // ===========================================================================================
    // core/util/facet_utils.rs generate_combinations (the index/count-only functions are in `sweep_pure`)
    // ===========================================================================================
    {
        let verts: Vec<_> = live_v.iter().take(D + 2).filter_map(|k| tds.get_vertex_by_key(*k)).copied().collect();
        let len = verts.len();
        let mut ks = vec![0usize, 1, D, len.saturating_sub(1), len, len + 1, usize::MAX];
        ks.sort_unstable();
        ks.dedup();
        for k in ks {
            sw.call("core::util::generate_combinations", || format!("{} vertices, k={}", len, k), || generate_combinations(&verts, k).len());
        }
        for k in [0usize, 1, usize::MAX] {
            sw.call("core::util::generate_combinations", || format!("0 vertices, k={}", k), || generate_combinations::<f64, i32, D>(&[], k).len());
        }
    }

    // ===========================================================================================
    // mutating Tds functions on a clone
    // ===========================================================================================
    let mut scratch: Option<T3<D>> = None;
    for (c, t) in &hc {
        let a = || format!("{}:{}", ck(*c), t);
        sw.call_mut(tds, &mut scratch, true, "Tds::get_cell_by_key_mut", a, |s| s.get_cell_by_key_mut(*c).map(|x| x.uuid()));
        sw.call_mut(tds, &mut scratch, true, "Tds::remove_cell_by_key", a, |s| s.remove_cell_by_key(*c).map(|x| x.uuid()));
    }
    for (v, t) in &hv {
        sw.call_mut(tds, &mut scratch, true, "Tds::get_vertex_by_key_mut", || format!("{}:{}", vk(*v), t), |s| s.get_vertex_by_key_mut(*v).map(|x| x.uuid()));
    }
    for (s_keys, desc) in &slices {
        sw.call_mut(tds, &mut scratch, false, "Tds::remove_cells_by_keys", || desc.clone(), |s| s.remove_cells_by_keys(s_keys));
    }
    for (c, t) in &hc_short {
        for len in [0usize, D, D + 1, D + 2] {
            for rot in 0..hc.len().min(4) {
                let nb: Vec<Option<CellKey>> = (0..len).map(|i| if (i + rot) % 3 == 2 { None } else { Some(all_c[(rot * 2 + i) % all_c.len()]) }).collect();
                sw.call_mut(tds, &mut scratch, true, "Tds::set_neighbors_by_key", || format!("{}:{}, {:?}", ck(*c), t, nb.iter().map(|o| o.map(|k| k.data().as_ffi())).collect::<Vec<_>>()), |s| s.set_neighbors_by_key(*c, &nb));
            }
        }
        // the cell's own current neighbours (valid) and a rotation of them (wrong positions)
        if let Some(cell) = tds.get_cell(*c) {
            let cur: Vec<Option<CellKey>> = cell.neighbors().map(|n| n.iter().copied().collect()).unwrap_or_else(|| vec![None; D + 1]);
            let mut rotv = cur.clone();
            rotv.rotate_left(1);
            for nb in [cur, rotv] {
                sw.call_mut(tds, &mut scratch, true, "Tds::set_neighbors_by_key", || format!("{}:{}, own neighbours (possibly rotated) {:?}", ck(*c), t, nb.iter().map(|o| o.map(|k| k.data().as_ffi())).collect::<Vec<_>>()), |s| s.set_neighbors_by_key(*c, &nb));
            }
        }
    }
    // cavity helpers (documented partial mutation on error: never reuse the clone)
    {
        let facet_sets: Vec<(Vec<FacetHandle>, String)> = {
            let mut fs: Vec<(Vec<FacetHandle>, String)> = vec![(Vec::new(), "[]".to_string())];
            for (c, t) in &hc_short {
                for &i in &iu8 {
                    fs.push((vec![FacetHandle::new(*c, i)], format!("[FacetHandle{{{}:{}, {}}}]", ck(*c), t, i)));
                }
            }
            if let Some(l) = live_c.first() {
                fs.push((vec![FacetHandle::new(*l, 0), FacetHandle::new(*l, 0), FacetHandle::new(CellKey::null(), D as u8)], format!("[{{{0},0}},{{{0},0}},{{null,{1}}}] (duplicate + null)", ck(*l), D)));
            }
            fs
        };
        for (fs, desc) in &facet_sets {
            for (v, t) in hv_short.iter().take(3) {
                sw.call_mut(tds, &mut scratch, false, "core::algorithms::incremental_insertion::fill_cavity", || format!("tds clone, {}:{}, {}", vk(*v), t, desc), |s| fill_cavity(s, *v, fs).map(|b| b.len()));
            }
            let new_cells: CellKeyBuffer = all_c.iter().copied().collect();
            let conflict: CellKeyBuffer = all_c.iter().rev().copied().collect();
            sw.call_mut(tds, &mut scratch, false, "core::algorithms::incremental_insertion::wire_cavity_neighbors", || format!("tds clone, new_cells=[{}], external_facets={}, Some(conflict)", cks(&hc), desc), |s| wire_cavity_neighbors(s, &new_cells, fs.iter().copied(), Some(&conflict)));
            let one: CellKeyBuffer = live_c.iter().take(1).copied().collect();
            sw.call_mut(tds, &mut scratch, false, "core::algorithms::incremental_insertion::wire_cavity_neighbors", || format!("tds clone, new_cells=[first live], external_facets={}, None", desc), |s| wire_cavity_neighbors(s, &one, fs.iter().copied(), None));
        }
        for (v, t) in &hv {
            for (qn, q) in &queries[..2] {
                sw.call_mut(tds, &mut scratch, false, "core::algorithms::incremental_insertion::extend_hull", || format!("tds clone, kernel, {}:{}, point {}", vk(*v), t, qn), |s| extend_hull(s, &kernel, *v, q).map(|b| b.len()));
            }
        }
    }

    // ===========================================================================================
    // Edit API (BistellarFlips) + remove_vertex / insert / repair_local_facet_issues on a clone of dt
    // ===========================================================================================
    let mut dscratch: Option<Dt<K, D>> = None;
    for (h, desc) in &hostile_facets {
        sw.call_mut(dt, &mut dscratch, true, "BistellarFlips::flip_k2 (DelaunayTriangulation)", || desc.clone(), |s| s.flip_k2(*h).map(|_| ()));
    }
    for r in &ridges {
        sw.call_mut(dt, &mut dscratch, true, "BistellarFlips::flip_k3 (DelaunayTriangulation)", || format!("RidgeHandle{{{}, {}, {}}}", ck(r.cell_key()), r.omit_a(), r.omit_b()), |s| s.flip_k3(*r).map(|_| ()));
    }
    for e in &edges {
        sw.call_mut(dt, &mut dscratch, true, "BistellarFlips::flip_k2_inverse_from_edge (DelaunayTriangulation)", || format!("EdgeKey{{{}, {}}}", vk(e.v0()), vk(e.v1())), |s| s.flip_k2_inverse_from_edge(*e).map(|_| ()));
    }
    for tr in &triangles {
        sw.call_mut(dt, &mut dscratch, true, "BistellarFlips::flip_k3_inverse_from_triangle (DelaunayTriangulation)", || format!("TriangleHandle{:?}", tr.vertices().map(|k| k.data().as_ffi())), |s| s.flip_k3_inverse_from_triangle(*tr).map(|_| ()));
    }
    for (v, t) in &hv {
        sw.call_mut(dt, &mut dscratch, true, "BistellarFlips::flip_k1_remove (DelaunayTriangulation)", || format!("{}:{}", vk(*v), t), |s| s.flip_k1_remove(*v).map(|_| ()));
    }
    for (c, t) in &hc {
        for (u, ut) in hu.iter().filter(|e| matches!(e.1, "nil" | "unknown" | "live-vertex")) {
            sw.call_mut(dt, &mut dscratch, true, "BistellarFlips::flip_k1_insert (DelaunayTriangulation)", || format!("{}:{}, vertex at inside-ish point with uuid {}:{}", ck(*c), t, u, ut), |s| s.flip_k1_insert(*c, mk_vertex::<i32, D>(q_in, *u, Some(7))).map(|_| ()));
        }
    }
    // the same handles through the Triangulation impl of the trait (short lists)
    for (h, desc) in hostile_facets.iter().step_by(3) {
        sw.call_mut(dt, &mut dscratch, true, "BistellarFlips::flip_k2 (Triangulation)", || desc.clone(), |s| s.as_triangulation_mut().flip_k2(*h).map(|_| ()));
    }
    for r in ridges.iter().step_by(3) {
        sw.call_mut(dt, &mut dscratch, true, "BistellarFlips::flip_k3 (Triangulation)", || format!("RidgeHandle{{{}, {}, {}}}", ck(r.cell_key()), r.omit_a(), r.omit_b()), |s| s.as_triangulation_mut().flip_k3(*r).map(|_| ()));
    }
    for e in edges.iter().step_by(2) {
        sw.call_mut(dt, &mut dscratch, true, "BistellarFlips::flip_k2_inverse_from_edge (Triangulation)", || format!("EdgeKey{{{}, {}}}", vk(e.v0()), vk(e.v1())), |s| s.as_triangulation_mut().flip_k2_inverse_from_edge(*e).map(|_| ()));
    }
    for tr in triangles.iter().step_by(3) {
        sw.call_mut(dt, &mut dscratch, true, "BistellarFlips::flip_k3_inverse_from_triangle (Triangulation)", || format!("TriangleHandle{:?}", tr.vertices().map(|k| k.data().as_ffi())), |s| s.as_triangulation_mut().flip_k3_inverse_from_triangle(*tr).map(|_| ()));
    }
    for (v, t) in &hv_short {
        sw.call_mut(dt, &mut dscratch, true, "BistellarFlips::flip_k1_remove (Triangulation)", || format!("{}:{}", vk(*v), t), |s| s.as_triangulation_mut().flip_k1_remove(*v).map(|_| ()));
    }
    for (c, t) in &hc_short {
        sw.call_mut(dt, &mut dscratch, true, "BistellarFlips::flip_k1_insert (Triangulation)", || format!("{}:{}, vertex at inside-ish point, fresh uuid", ck(*c), t), |s| s.as_triangulation_mut().flip_k1_insert(*c, mk_vertex::<i32, D>(q_in, Uuid::from_u128(0x1234_5678_9abc_4def_8123_4567_89ab_cdef), None)).map(|_| ()));
    }
    // hostile FacetIssuesMap
    {
        let mut m = FacetIssuesMap::default();
        for (n, (c, _)) in hc.iter().enumerate() {
            let mut b: SmallBuffer<(CellKey, u8), 4> = SmallBuffer::new();
            b.push((*c, iu8[n % iu8.len()]));
            b.push((all_c[(n + 1) % all_c.len()], iu8[(n + 2) % iu8.len()]));
            if n % 2 == 0 {
                b.push((*c, 0));
            }
            m.insert(n as u64 * 0x9E37_79B9 + 1, b);
        }
        sw.call_mut(dt, &mut dscratch, false, "Triangulation::repair_local_facet_issues", || format!("map over [{}] with facet indices {:?}", cks(&hc), iu8), |s| s.as_triangulation_mut().repair_local_facet_issues(&m));
        let empty = FacetIssuesMap::default();
        sw.call_mut(dt, &mut dscratch, false, "Triangulation::repair_local_facet_issues", || "empty map".to_string(), |s| s.as_triangulation_mut().repair_local_facet_issues(&empty));
    }
    // UUID provenance through remove_vertex / insert
    // (a LIVE uuid is not used here: remove_vertex looks the vertex up by UUID only, so that is an
    // ordinary removal + repair - tens of ms - which the history's own Remove operations exercise)
    for (u, t) in hu.iter().filter(|e| e.1 != "live-vertex") {
        let p = if *t == "removed" { mem.removed.first().map(|r| r.1).unwrap_or(q_in) } else { q_out };
        sw.call_mut(dt, &mut dscratch, false, "DelaunayTriangulation::remove_vertex", || format!("vertex {{uuid {}:{}, point {:?}}}", u, t, p), |s| s.remove_vertex(&mk_vertex::<i32, D>(p, *u, None)));
    }
    for (u, t) in hu.iter().filter(|e| matches!(e.1, "nil" | "live-vertex")) {
        sw.call_mut(dt, &mut dscratch, false, "DelaunayTriangulation::insert", || format!("vertex {{uuid {}:{}, point {:?}}}", u, t, q_in), |s| s.insert(mk_vertex::<i32, D>(q_in, *u, Some(3))).map(|_| ()));
    }
}
