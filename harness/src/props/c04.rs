//! C04 — a passing Delaunay check means the empty-circumsphere property really holds.

use crate::api::Kn;
use crate::common::{Ctx, Out, Tier, guard};
use crate::r#gen::{self as g, Family};
use crate::hist::{self, Memory, Mix, Op, Res};
use crate::model::RefModel;
use crate::refcheck::{self, Guarantee, Stack};
use crate::rng::Rng;
use crate::tri::{self, Dt, GUARANTEES, Opts};
use delaunay::core::algorithms::flips::verify_delaunay_via_flip_predicates;
use delaunay::core::util::find_delaunay_violations;
use delaunay::geometry::kernel::{FastKernel, Kernel, RobustKernel};
use serde_json::{Value, json};

const P: &str = "C04";

/// Is the state a geometrically embedded triangulation (ball, convex boundary, all cells
/// decidedly positive)? Only such states are judged.
pub fn geometrically_valid<const D: usize>(m: &RefModel<D>, gu: Guarantee) -> bool {
    if m.cells.is_empty() {
        return false;
    }
    let st = Stack::compute(m);
    if !st.fails(gu, true, m.cells.len()).is_empty() || st.l3.orientation_ambiguous > 0 {
        return false;
    }
    let cv = refcheck::check_convex_boundary(m);
    cv.fails.is_empty() && cv.ambiguous == 0
}

/// Random walk of legal flips (k=1 insert inside a cell, k=2, k=3 and inverses) that keeps the
/// triangulation geometrically valid; returns the number of flips kept and their log.
pub fn perturb<K, const D: usize>(dt: &mut Dt<K, D>, rng: &mut Rng, want: usize, gu: Guarantee, allow_k1: bool) -> (usize, Vec<Value>)
where
    K: Kernel<D, Scalar = f64>,
{
    let mut done = 0;
    let mut log = Vec::new();
    let mem = Memory::<D> { grid: 0.125, extent: 1.0, ..Default::default() };
    let mut tries = 0;
    while done < want && tries < want * 12 + 20 {
        tries += 1;
        let m = RefModel::from_dt(dt);
        let mut op = hist::next_op(rng, &m, &mem, &Mix::flips_mostly());
        match &op {
            Op::FlipK1Insert { cell, .. } if allow_k1 => {
                // strictly interior point with dyadic-friendly weights
                if let Some(pts) = m.cell(*cell).and_then(|c| m.cell_points(c)) {
                    let w: Vec<f64> = (0..pts.len()).map(|_| 1.0 + rng.usize(3) as f64).collect();
                    let s: f64 = w.iter().sum();
                    let mut q = [0.0; D];
                    for j in 0..D {
                        q[j] = pts.iter().zip(&w).map(|(x, wi)| x[j] * wi).sum::<f64>() / s;
                    }
                    op = Op::FlipK1Insert { cell: *cell, p: q, uuid: rng.uuid(), how: "inside" };
                } else {
                    continue;
                }
            }
            Op::FlipK1Insert { .. } | Op::FlipK1Remove { .. } => continue,
            o if o.kind().starts_with("flip") => {}
            _ => continue,
        }
        let backup = dt.clone();
        match hist::apply(dt, &op) {
            Ok(Res::Flip(_)) => {
                let post = RefModel::from_dt(dt);
                if geometrically_valid(&post, gu) {
                    done += 1;
                    log.push(op.to_json());
                } else {
                    *dt = backup;
                }
            }
            Ok(_) => {}
            Err(_) => {
                *dt = backup;
            }
        }
    }
    (done, log)
}

#[derive(Default, Clone, Debug)]
struct Verdicts {
    is_valid: Option<bool>,
    via_flips: Option<bool>,
    verify_fn: Option<bool>,
    validate: Option<bool>,
    report: Option<bool>,
    finder_empty: Option<bool>,
}

fn judge<K, const D: usize>(dt: &Dt<K, D>, source: &str, out: &mut Out, base: &Value, log: &[Value])
where
    K: Kernel<D, Scalar = f64>,
{
    let m = RefModel::from_dt(dt);
    let gu = Guarantee::from_lib(dt.topology_guarantee());
    if !geometrically_valid(&m, gu) {
        out.count(&format!("not_judged/{}/not_geometrically_valid", source));
        return;
    }
    let exact = refcheck::check_delaunay(&m);
    let rp = |extra: Value| {
        let mut r = base.clone();
        r["source"] = json!(source);
        r["perturbation"] = json!(log);
        r["detail"] = extra;
        r
    };
    let mut v = Verdicts::default();
    macro_rules! call {
        ($name:expr, $slot:ident, $e:expr) => {
            match guard(|| $e) {
                Ok(b) => v.$slot = Some(b),
                Err(pi) => out.panic(P, &pi, $name, rp(json!(null))),
            }
        };
    }
    call!("is_valid", is_valid, dt.is_valid().is_ok());
    call!("is_delaunay_via_flips", via_flips, dt.is_delaunay_via_flips().is_ok());
    call!("verify_delaunay_via_flip_predicates", verify_fn, verify_delaunay_via_flip_predicates(dt.tds(), &K::default()).is_ok());
    call!("validate", validate, dt.validate().is_ok());
    call!("validation_report", report, dt.validation_report().is_ok());
    call!("find_delaunay_violations", finder_empty, find_delaunay_violations(dt.tds(), None).map(|l| l.is_empty()).unwrap_or(false));
    out.add("judged/insphere_pairs", exact.pairs as u64);
    out.add("not_judged/ambiguous_inside", exact.ambiguous_inside as u64);
    let truth = if !exact.violations.is_empty() {
        "non-delaunay"
    } else if exact.unique_certificate {
        "delaunay-unique"
    } else {
        "undecided"
    };
    let entries: [(&str, Option<bool>); 6] = [
        ("is_valid", v.is_valid),
        ("is_delaunay_via_flips", v.via_flips),
        ("verify_delaunay_via_flip_predicates", v.verify_fn),
        ("validate", v.validate),
        ("validation_report", v.report),
        ("find_delaunay_violations", v.finder_empty),
    ];
    // Subset variants of the brute-force finder: "returns an empty list only under the same condition"
    // also for a caller-supplied list of cells; keys of cells that do not exist are documented as silently
    // skipped. Per cell: every listed live cell with an exact violation beyond the band must be reported,
    // nothing outside the list may be reported.
    {
        use delaunay::core::triangulation_data_structure::CellKey;
        let live: Vec<CellKey> = m.cells.iter().map(|c| c.key).collect();
        let bad_cells: std::collections::BTreeSet<usize> = exact.violations.iter().map(|x| x.0).collect();
        let null = CellKey::default();
        let ghost: CellKey = slotmap::KeyData::from_ffi((977u64 << 32) | 0x00ff_fff1).into();
        let mut variants: Vec<(&str, Vec<CellKey>)> = Vec::new();
        variants.push(("all-live", live.clone()));
        let mut k = vec![null];
        k.extend(live.iter().copied());
        variants.push(("missing-first", k));
        let mut k = live.clone();
        k.insert(k.len() / 2, ghost);
        k.insert(1.min(k.len()), null);
        variants.push(("missing-interleaved", k));
        let mut k = vec![ghost];
        k.extend(bad_cells.iter().map(|&ci| m.cells[ci].key));
        variants.push(("missing-then-violators", k));
        let half: Vec<CellKey> = live.iter().copied().step_by(2).collect();
        variants.push(("every-second-cell", half));
        for (vname, keys) in variants {
            let r = match guard(|| find_delaunay_violations(dt.tds(), Some(&keys)).map(|l| l.iter().copied().collect::<Vec<CellKey>>()).map_err(|e| e.to_string())) {
                Ok(r) => r,
                Err(pi) => {
                    out.panic(P, &pi, "find_delaunay_violations(subset)", rp(json!({"variant": vname})));
                    continue;
                }
            };
            let name = "find_delaunay_violations-subset";
            match r {
                Err(e) => {
                    // not an error condition the documentation lists for a structurally valid complex
                    out.count(&format!("subset/{}/err", vname));
                    out.violation(P, &format!("D{}/{}/{}/error", D, name, vname), format!("{} ({}) returned Err({}) on a structurally valid triangulation (missing keys are documented as silently skipped)", name, vname, e), rp(json!({"variant": vname})));
                }
                Ok(list) => {
                    out.count(&format!("subset/{}/ok", vname));
                    let listed: std::collections::HashSet<CellKey> = keys.iter().copied().collect();
                    let reported: std::collections::HashSet<CellKey> = list.iter().copied().collect();
                    if let Some(x) = list.iter().find(|c| !listed.contains(c) || !m.cidx.contains_key(c)) {
                        out.violation(P, &format!("D{}/{}/{}/reported-outside-subset", D, name, vname), format!("{} ({}) reported cell {:?}, which is not a live cell of the requested subset", name, vname, x), rp(json!({"variant": vname})));
                    }
                    let missed: Vec<usize> = bad_cells.iter().copied().filter(|&ci| listed.contains(&m.cells[ci].key) && !reported.contains(&m.cells[ci].key)).collect();
                    out.add("subset/violating_cells_listed", bad_cells.iter().filter(|&&ci| listed.contains(&m.cells[ci].key)).count() as u64);
                    if let Some(&ci) = missed.first() {
                        let root = tri::l4_root_cause(&m, &exact.violations);
                        let vi = exact.violations.iter().find(|x| x.0 == ci).map(|x| x.1).unwrap();
                        out.violation(
                            P,
                            &format!("D{}/{}/{}/false-accept/{}", D, name, vname, root),
                            format!("{} ({}; {} keys, {} of them not live) does not report cell {:?} although it is in the list and vertex {:?} is strictly inside its circumsphere beyond the band ({} such cells missed; source {})", name, vname, keys.len(), keys.iter().filter(|k| !m.cidx.contains_key(k)).count(), m.cells[ci].key, m.verts[vi].p, missed.len(), source),
                            rp(json!({"variant": vname, "missed_cells": missed.len()})),
                        );
                    }
                    if exact.unique_certificate && !list.is_empty() {
                        out.violation(P, &format!("D{}/{}/{}/false-reject", D, name, vname), format!("{} ({}) reports {} cells of a triangulation whose every off-cell vertex is strictly outside every circumsphere beyond the band", name, vname, list.len()), rp(json!({"variant": vname})));
                    }
                }
            }
        }
    }
    for (name, verdict) in entries {
        let Some(accept) = verdict else { continue };
        // 2x2 table per entry point and dimension
        out.count(&format!("table/D{}/{}/{}/{}", D, name, truth, if accept { "accept" } else { "reject" }));
        if accept && !exact.violations.is_empty() {
            let root = tri::l4_root_cause(&m, &exact.violations);
            let (ci, vi) = exact.violations[0];
            out.violation(
                P,
                &format!("D{}/{}/false-accept/{}", D, name, root),
                format!("{} accepts although vertex {:?} is strictly inside the circumsphere of cell {:?} {:?} beyond the band ({}, source {})", name, m.verts[vi].p, m.cells[ci].key, m.cell_points(&m.cells[ci]), root, source),
                rp(json!({"exact_violations": exact.violations.len()})),
            );
        }
        if !accept && exact.unique_certificate {
            out.violation(
                P,
                &format!("D{}/{}/false-reject", D, name),
                format!("{} rejects a triangulation whose every off-cell vertex is strictly outside every circumsphere beyond the band (source {})", name, source),
                rp(json!(null)),
            );
        }
    }
}

fn case<K, const D: usize>(ctx: &Ctx, out: &mut Out, cs: u64, kn: Kn)
where
    K: Kernel<D, Scalar = f64>,
{
    let mut rng = Rng::new(cs);
    let thorough = ctx.tier == Tier::Thorough;
    out.eval();
    let fam = *rng.pick(&[Family::Dyadic, Family::Dyadic, Family::Uniform, Family::Grid, Family::Hull, Family::Sphere, Family::TinyGrid]);
    let n = D + 2 + rng.usize(if thorough { 6 * D } else { 3 * D });
    let pts = g::points::<D>(&mut rng, fam, n);
    let inp = tri::mk_inputs(&mut rng, &pts);
    let gu = *rng.pick(&GUARANTEES);
    let base = json!({"property": P, "case_seed": cs.to_string(), "D": D, "kernel": kn.name(), "family": fam.name(), "guarantee": format!("{:?}", gu), "points": crate::common::pts_json(&pts)});
    let mut dt = match tri::build::<K, D>(&K::default(), &inp, gu, &Opts::default_like()) {
        Ok(Ok(dt)) => dt,
        Ok(Err(_)) => {
            out.count("start/construction_err");
            return;
        }
        Err(pi) => {
            out.panic(P, &pi, "construction", base);
            return;
        }
    };
    if dt.number_of_cells() >= 2 {
        out.nontrivial(&cs.to_string());
    }
    out.count(&format!("D{}/{}", D, fam.name()));
    // 1. as constructed
    judge(&dt, "constructed", out, &base, &[]);
    // 2. incremental insertions with repair disabled
    {
        let mut inc = dt.clone();
        let _ = hist::apply(&mut inc, &Op::SetRepairPolicy(0));
        let mut mem = Memory::<D> { grid: 1.0 / 64.0, extent: 1.0, ..Default::default() };
        let mut log = Vec::new();
        let k = 1 + rng.usize(4);
        hist::run_history(&mut inc, &mut rng, &mut mem, &Mix::insert_only(), k, |s| {
            log.push(s.op.to_json());
            true
        });
        judge(&inc, "insert-repair-off", out, &base, &log);
    }
    // 3. flipped away from Delaunay (1..40 kept flips)
    {
        let want = 1 + rng.usize(if thorough { 40 } else { 12 });
        let (done, log) = perturb(&mut dt, &mut rng, want, gu, true);
        out.add("perturb/flips_kept", done as u64);
        if done > 0 {
            judge(&dt, "flipped", out, &base, &log);
        }
    }
    // 4. removal without repair on the flipped state
    {
        let _ = hist::apply(&mut dt, &Op::SetRepairPolicy(0));
        let m = RefModel::from_dt(&dt);
        if m.verts.len() > D + 2 {
            let v = rng.pick(&m.verts);
            let op = Op::Remove { uuid: v.uuid, p: v.p, how: "live" };
            if let Ok(Res::Removed(_)) = hist::apply(&mut dt, &op) {
                judge(&dt, "removed-repair-off", out, &base, &[op.to_json()]);
            }
        }
    }
    if out.samples.len() < 3 {
        out.sample(json!({"D": D, "kernel": kn.name(), "family": fam.name(), "n": inp.len(), "sources_judged": ["constructed", "insert-repair-off", "flipped", "removed-repair-off"]}));
    }
}

pub fn run_case(ctx: &Ctx, out: &mut Out, cs: u64, d: usize, kn: Kn) {
    match (d, kn) {
        (2, Kn::Fast) => case::<FastKernel<f64>, 2>(ctx, out, cs, kn),
        (3, Kn::Fast) => case::<FastKernel<f64>, 3>(ctx, out, cs, kn),
        (4, Kn::Fast) => case::<FastKernel<f64>, 4>(ctx, out, cs, kn),
        (5, Kn::Fast) => case::<FastKernel<f64>, 5>(ctx, out, cs, kn),
        (2, Kn::Robust) => case::<RobustKernel<f64>, 2>(ctx, out, cs, kn),
        (3, Kn::Robust) => case::<RobustKernel<f64>, 3>(ctx, out, cs, kn),
        (4, Kn::Robust) => case::<RobustKernel<f64>, 4>(ctx, out, cs, kn),
        _ => case::<RobustKernel<f64>, 5>(ctx, out, cs, kn),
    }
}

pub fn run(ctx: &Ctx, out: &mut Out) {
    if let Some(doc) = &ctx.replay {
        if let (Some(cs), Some(d)) = (ctx.replay_seed(), doc["D"].as_u64()) {
            let kn = Kn::from_name(doc["kernel"].as_str().unwrap_or("fast")).unwrap_or(Kn::Fast);
            run_case(ctx, out, cs, d as usize, kn);
        } else {
            out.inconclusive("bad replay document");
        }
        return;
    }
    let cap = (if ctx.tier == Tier::Thorough { 200_000.0 } else { 3_000.0 } * ctx.scale) as u64;
    let mut i = 0u64;
    while i < cap && !ctx.out_of_time() {
        let cs = ctx.case_seed(i);
        let d = super::c01::pick_dim_hist(ctx, cs >> 7);
        let kn = if (cs >> 3) & 1 == 0 { Kn::Fast } else { Kn::Robust };
        run_case(ctx, out, cs, d, kn);
        i += 1;
    }
}
