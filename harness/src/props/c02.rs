//! C02 — incremental insertion never leaves the validity stack broken.

use crate::api::Kn;
use crate::common::{Ctx, Out, Tier};
use crate::fingerprint;
use crate::r#gen::{self as g, Family};
use crate::hist::{self, Memory, Mix, Op, Res, Step};
use crate::model::RefModel;
use crate::refcheck::{self, Guarantee};
use crate::rng::Rng;
use crate::tri::{self, Dt, GUARANTEES, Opts};
use delaunay::geometry::kernel::{FastKernel, Kernel, RobustKernel};
use serde_json::{Value, json};

const P: &str = "C02";

pub fn guarantee_of(cfg: &fingerprint::Config) -> Guarantee {
    match cfg.topology_guarantee.as_str() {
        "Pseudomanifold" => Guarantee::Pseudomanifold,
        "PLManifoldStrict" => Guarantee::PLManifoldStrict,
        _ => Guarantee::PLManifold,
    }
}

/// Starting object for histories: empty (with a guarantee) or constructed from a point family.
pub fn start_dt<K, const D: usize>(rng: &mut Rng, thorough: bool, out: &mut Out) -> Option<(Dt<K, D>, Memory<D>, Value)>
where
    K: Kernel<D, Scalar = f64>,
{
    let gu = *rng.pick(&GUARANTEES);
    let mut mem = Memory::<D> { grid: [1.0, 0.5, 0.25, 0.125][rng.usize(4)], extent: [4.0, 8.0, 8.0, 16.0][rng.usize(4)], ..Default::default() };
    if rng.chance(2, 5) {
        let dt = Dt::<K, D>::with_empty_kernel_and_topology_guarantee(K::default(), gu.to_lib());
        let scripted = rng.chance(1, 3);
        if scripted {
            mem.script = hist::degenerate_bootstrap_script(rng, &mem);
        }
        return Some((dt, mem, json!({"start": if scripted { "empty+degenerate-bootstrap-prefix" } else { "empty" }, "guarantee": format!("{:?}", gu)})));
    }
    let fam = *rng.pick(&[Family::Grid, Family::Dyadic, Family::Uniform, Family::TinyGrid, Family::Hull, Family::Sphere, Family::Stacked]);
    let n = g::size_for::<D>(rng, thorough).min(D + 1 + 3 * D);
    let pts = g::points::<D>(rng, fam, n);
    let inp = tri::mk_inputs(rng, &pts);
    // workload scale follows the family
    let ext = pts.iter().flat_map(|p| p.iter().map(|x| x.abs())).fold(1.0f64, f64::max);
    mem.extent = ext.max(1.0);
    mem.grid = (mem.extent / 16.0).max(2f64.powi(-10));
    match tri::build::<K, D>(&K::default(), &inp, gu, &Opts::default_like()) {
        Ok(Ok(dt)) => Some((dt, mem, json!({"start": "constructed", "family": fam.name(), "n": inp.len(), "guarantee": format!("{:?}", gu), "points": crate::common::pts_json(&pts)}))),
        Ok(Err(_)) => {
            out.count("start/construction_err");
            None
        }
        Err(pi) => {
            out.panic(P, &pi, "start construction", json!({"family": fam.name()}));
            None
        }
    }
}

/// Validity of a state at the strength C02 promises: bootstrap, or L1-L3 at the configured
/// guarantee (is_valid strength: ridge links for PLManifold, vertex links for Strict).
pub fn state_failures<const D: usize>(m: &RefModel<D>, gu: Guarantee) -> (Vec<String>, u64) {
    if refcheck::is_bootstrap(m) {
        return (Vec::new(), 0);
    }
    let st = refcheck::Stack::compute(m);
    (st.fails(gu, false, m.cells.len()), st.l3.orientation_ambiguous as u64)
}

fn history<K, const D: usize>(ctx: &Ctx, out: &mut Out, cs: u64, kn: Kn)
where
    K: Kernel<D, Scalar = f64>,
{
    let mut rng = Rng::new(cs);
    let thorough = ctx.tier == Tier::Thorough;
    out.eval();
    let Some((mut dt, mut mem, start)) = start_dt::<K, D>(&mut rng, thorough, out) else { return };
    // initial policies
    let init: Vec<Op<D>> = vec![Op::SetValidationPolicy(rng.usize(4) as u8), Op::SetRepairPolicy(if rng.chance(1, 3) { 0 } else { rng.usize(4) as u8 }), Op::SetCheckPolicy(rng.usize(3) as u8)];
    for op in &init {
        let _ = hist::apply(&mut dt, op);
    }
    let len = if thorough { 40 + rng.usize(160) } else { 20 + rng.usize(60) };
    let len = if D >= 4 { len / 3 + 6 } else { len };
    let base = json!({"property": P, "case_seed": cs.to_string(), "D": D, "kernel": kn.name(), "start": start, "initial_policies": init.iter().map(|o| o.to_json()).collect::<Vec<_>>()});
    let mut nontrivial = false;
    let mut stop_violation = false;
    let log = hist::run_history(&mut dt, &mut rng, &mut mem, &Mix::insert_only(), len, |s: &Step<K, D>| {
        let res = match s.res {
            Ok(r) => r,
            Err(pi) => {
                let mut rp = base.clone();
                rp["history"] = json!(s.log);
                out.panic(P, pi, s.op.kind(), rp);
                return false;
            }
        };
        out.count(&format!("op/{}/{}", s.op.kind(), res.label()));
        if let Some(ms) = s.log.last().and_then(|e| e.get("ms")).and_then(|v| v.as_u64()) {
            out.max(&format!("max/op_ms/{}", s.op.kind()), ms);
            if ms >= 2000 {
                out.count(&format!("slow_op_over_2s/{}/D{}", s.op.kind(), D));
                if out.notes.len() < 5 {
                    out.notes.push(format!("slow op: {} ms: D{} {} {} verts {} cells: {}", ms, D, kn.name(), s.pre.verts.len(), s.pre.cells.len(), s.op.to_json()));
                }
            }
        }
        if ctx.elapsed() > ctx.budget_s * 1.3 {
            out.count("history_cut_by_budget");
            return false;
        }
        if !s.op.how().is_empty() {
            out.count(&format!("arg/{}", s.op.how()));
        }
        if !matches!(s.op, Op::Insert { .. } | Op::InsertStats { .. }) {
            return true;
        }
        if s.post.verts.len() > D + 2 {
            nontrivial = true;
        }
        let gu = guarantee_of(s.post_cfg);
        let (fails, amb) = state_failures(s.post, gu);
        out.add("not_judged/ambiguous_orientation", amb);
        let mk_rp = |log: &[Value]| {
            let mut rp = base.clone();
            rp["history"] = json!(log);
            rp["step"] = json!(s.index);
            rp
        };
        if !fails.is_empty() {
            // "leaves the stack intact": only an insertion that started from a state on which the stack
            // held can be blamed (a constructed start can already be invalid: recorded finding F6 of C01)
            let (pre_fails, _) = state_failures(s.pre, guarantee_of(s.pre_cfg));
            if !pre_fails.is_empty() {
                out.count("not_judged/pre_state_already_invalid");
                out.count(&format!("not_judged/pre_state_already_invalid/step{}", if s.index == 0 { "0(start)" } else { ">0" }));
                return false;
            }
            let aspect = tri::Cert { structure: fails.clone(), ..Default::default() }.aspect();
            out.violation(P, &format!("D{}/{}/{:?}/{}/{}", D, s.op.kind(), gu, res.label(), aspect), format!("after {} ({}) -> {}: {}", s.op.kind(), s.op.how(), res.label(), fails.iter().take(3).cloned().collect::<Vec<_>>().join("; ")), mk_rp(s.log));
            stop_violation = true;
            return false;
        }
        if let Res::Inserted { key, .. } = res {
            let (p, uuid, data) = match s.op {
                Op::Insert { p, uuid, data, .. } | Op::InsertStats { p, uuid, data, .. } => (*p, *uuid, *data),
                _ => unreachable!(),
            };
            let mut bad: Vec<String> = Vec::new();
            match s.post.vertex(*key) {
                None => bad.push(format!("returned key {:?} does not resolve to a vertex", key)),
                Some(v) => {
                    if v.uuid != uuid {
                        bad.push(format!("returned key resolves to uuid {} instead of the caller's {}", v.uuid, uuid));
                    }
                    if v.data != data {
                        bad.push(format!("data {:?} instead of the caller's {:?}", v.data, data));
                    }
                    // scale of the documented perturbation: distance to the nearest pre-existing vertex (or 1)
                    let mut near = f64::INFINITY;
                    for w in &s.pre.verts {
                        let d2: f64 = (0..D).map(|j| (w.p[j] - p[j]).powi(2)).sum();
                        near = near.min(d2.sqrt());
                    }
                    let mut scale = if near.is_finite() { near } else { 1.0 };
                    // the library measures against the hint cell's vertices, which are never farther than the extent
                    let ext: f64 = s.pre.verts.iter().map(|w| (0..D).map(|j| (w.p[j] - p[j]).powi(2)).sum::<f64>().sqrt()).fold(0.0, f64::max);
                    scale = scale.max(ext).max(1e-15);
                    for j in 0..D {
                        if v.p[j].to_bits() != p[j].to_bits() && !(v.p[j] == 0.0 && p[j] == 0.0) {
                            out.count("inserted_with_perturbed_coordinates");
                            let bound = (j as f64 + 1.0) * 1e-8 * scale * 1.01;
                            if !((v.p[j] - p[j]).abs() <= bound) {
                                bad.push(format!("axis {} stored {:e} for requested {:e} (bound {:e})", j, v.p[j], p[j], bound));
                            }
                            break;
                        }
                    }
                }
            }
            if s.post.verts.len() != s.pre.verts.len() + 1 {
                bad.push(format!("vertex count went from {} to {}", s.pre.verts.len(), s.post.verts.len()));
            }
            if !bad.is_empty() {
                out.violation(P, &format!("D{}/{}/identity", D, s.op.kind()), bad.join("; "), mk_rp(s.log));
                stop_violation = true;
                return false;
            }
            // Delaunay level when the per-insertion check is certainly due (EveryN(1))
            if s.pre_cfg.check_policy == "EveryN(1)" && !s.post.cells.is_empty() {
                let d = refcheck::check_delaunay(s.post);
                out.add("judged/insphere_pairs", d.pairs as u64);
                out.add("not_judged/ambiguous_inside", d.ambiguous_inside as u64);
                if !d.violations.is_empty() {
                    let root = tri::l4_root_cause(s.post, &d.violations);
                    let (ci, vi) = d.violations[0];
                    out.violation(P, &format!("D{}/{}/L4/{}", D, s.op.kind(), root), format!("check policy EveryN(1): insertion reported Ok but vertex {:?} is strictly inside the circumsphere of cell {:?} ({})", s.post.verts[vi].p, s.post.cells[ci].key, root), mk_rp(s.log));
                    stop_violation = true;
                    return false;
                }
                out.count("l4_checked_states");
            }
        }
        true
    });
    if nontrivial {
        out.nontrivial(&format!("{}|{}", cs, log.len()));
    }
    out.add("steps", log.len() as u64);
    if out.samples.len() < 3 && log.len() > 10 && !stop_violation {
        out.sample(json!({"D": D, "kernel": kn.name(), "start": start["start"], "ops": log.iter().take(12).cloned().collect::<Vec<_>>(), "total_ops": log.len(), "final_vertices": dt.number_of_vertices(), "final_cells": dt.number_of_cells()}));
    }
}

pub fn run_case(ctx: &Ctx, out: &mut Out, cs: u64, d: usize, kn: Kn) {
    match (d, kn) {
        (2, Kn::Fast) => history::<FastKernel<f64>, 2>(ctx, out, cs, kn),
        (3, Kn::Fast) => history::<FastKernel<f64>, 3>(ctx, out, cs, kn),
        (4, Kn::Fast) => history::<FastKernel<f64>, 4>(ctx, out, cs, kn),
        (5, Kn::Fast) => history::<FastKernel<f64>, 5>(ctx, out, cs, kn),
        (2, Kn::Robust) => history::<RobustKernel<f64>, 2>(ctx, out, cs, kn),
        (3, Kn::Robust) => history::<RobustKernel<f64>, 3>(ctx, out, cs, kn),
        (4, Kn::Robust) => history::<RobustKernel<f64>, 4>(ctx, out, cs, kn),
        _ => history::<RobustKernel<f64>, 5>(ctx, out, cs, kn),
    }
}

pub fn run(ctx: &Ctx, out: &mut Out) {
    if let Some(doc) = &ctx.replay {
        if let (Some(cs), Some(d)) = (ctx.replay_seed(), doc["D"].as_u64()) {
            let kn = Kn::from_name(doc["kernel"].as_str().unwrap_or("fast")).unwrap_or(Kn::Fast);
            run_case(ctx, out, cs, d as usize, kn);
        } else {
            out.inconclusive("bad replay document");
        }
        return;
    }
    let cap = (if ctx.tier == Tier::Thorough { 100_000.0 } else { 1_500.0 } * ctx.scale) as u64;
    let mut i = 0u64;
    while i < cap && !ctx.out_of_time() {
        let cs = ctx.case_seed(i);
        let d = super::c01::pick_dim_hist(ctx, cs >> 7);
        let kn = if (cs >> 3) & 1 == 0 { Kn::Fast } else { Kn::Robust };
        run_case(ctx, out, cs, d, kn);
        i += 1;
    }
}
