//! C10 — point location: on a valid triangulation, locating a point whose side of every facet
//! hyperplane is exactly decidable returns a cell whose closed simplex contains the point, or
//! `Outside` exactly when the point is strictly outside the convex hull; the answer class does
//! not depend on the hint (none / live / removed / foreign / null key) and `locate_with_stats`
//! returns the same result as `locate`.
//!
//! Oracle (exact, on the RefModel only): for a cell c = (p_0..p_D) and a slot i the sign of
//! `orient_det(c with p_i := q)` relative to the sign of `orient_det(c)`. q lies in the closed
//! simplex iff no relative sign is negative. q is strictly outside the hull iff it lies in no
//! closed cell (the triangulation is only used when it is an exactly valid triangulation of a
//! convex region: `c04::geometrically_valid`).
//!
//! A (cell, slot) side is *decidable* when the exact determinant is beyond the widened tolerance
//! band (`exact::classify` = Decided), or is exactly zero AND the library's floating-point
//! determinant is provably inside the band: either the replaced simplex has two identical rows
//! (LU with partial pivoting then returns exactly 0) or the a-priori rounding allowance
//! `err_orient` does not exceed the band `tol_orient`. Queries with an undecidable side are not
//! judged (small meshes: all cells; large meshes: the cells that matter for the verdict, see
//! `Eval`).

use crate::api::Kn;
use crate::common::{Ctx, Out, Tier, bits, guard, pts_json};
use crate::exact::{self, Band, Dy};
use crate::r#gen::{self as g, Family};
use crate::hist::{self, Op, Res};
use crate::model::{RefModel, ck_u64};
use crate::refcheck::Guarantee;
use crate::rng::Rng;
use crate::tri::{self, Dt, GUARANTEES, Opts};
use delaunay::core::algorithms::locate::{LocateFallbackReason, LocateResult, locate, locate_with_stats};
use delaunay::core::triangulation_data_structure::CellKey;
use delaunay::geometry::kernel::{FastKernel, Kernel, RobustKernel};
use delaunay::geometry::point::Point;
use delaunay::geometry::traits::coordinate::Coordinate;
use serde_json::{Value, json};
use slotmap::KeyData;
use std::cmp::Ordering;
use std::collections::{HashMap, HashSet};

const P: &str = "C10";
/// Up to this many cells every (cell, slot) side must be decidable; above, only the sides the
/// verdict depends on.
const GLOBAL_MAX_CELLS: usize = 600;

// ---------------------------------------------------------------------------------------------
// exact geometry of the model
// ---------------------------------------------------------------------------------------------

struct CellGeo<const D: usize> {
    key: CellKey,
    pts: Vec<[f64; D]>,
    sign: i32,
    lo: [f64; D],
    hi: [f64; D],
    /// slots whose facet has no neighbour (hull facets)
    boundary: Vec<usize>,
}

struct Geo<const D: usize> {
    cells: Vec<CellGeo<D>>,
    idx: HashMap<CellKey, usize>,
    lo: [f64; D],
    hi: [f64; D],
    /// (cell index, slot) of every hull facet
    hull: Vec<(usize, usize)>,
}

impl<const D: usize> Geo<D> {
    fn from_model(m: &RefModel<D>) -> Option<Self> {
        let mut cells = Vec::with_capacity(m.cells.len());
        let mut idx = HashMap::new();
        let mut glo = [f64::INFINITY; D];
        let mut ghi = [f64::NEG_INFINITY; D];
        let mut hull = Vec::new();
        for c in &m.cells {
            let pts = m.cell_points(c)?;
            if pts.len() != D + 1 {
                return None;
            }
            let sign = exact::orient_det(&pts).sign();
            if sign == 0 {
                return None;
            }
            let mut lo = [f64::INFINITY; D];
            let mut hi = [f64::NEG_INFINITY; D];
            for p in &pts {
                for j in 0..D {
                    lo[j] = lo[j].min(p[j]);
                    hi[j] = hi[j].max(p[j]);
                    glo[j] = glo[j].min(p[j]);
                    ghi[j] = ghi[j].max(p[j]);
                }
            }
            let boundary: Vec<usize> = match &c.nb {
                Some(nb) => (0..=D).filter(|&i| nb.get(i).copied().flatten().is_none()).collect(),
                None => (0..=D).collect(),
            };
            let ci = cells.len();
            for &s in &boundary {
                hull.push((ci, s));
            }
            idx.insert(c.key, ci);
            cells.push(CellGeo { key: c.key, pts, sign, lo, hi, boundary });
        }
        Some(Self { cells, idx, lo: glo, hi: ghi, hull })
    }
}

#[derive(Clone, Copy, Debug)]
struct Side {
    /// exact sign of the replaced determinant relative to the cell's own sign:
    /// +1 q on the inner side of facet i, 0 on its hyperplane, -1 strictly beyond it
    rel: i32,
    /// the library's predicate provably reports `rel`
    ok: bool,
    /// exact zero whose floating-point evaluation is not provably inside the band
    fragile_zero: bool,
}

fn sides<const D: usize>(c: &CellGeo<D>, q: &[f64; D]) -> Vec<Side> {
    let mut v = Vec::with_capacity(D + 1);
    let mut p = c.pts.clone();
    for i in 0..=D {
        let save = p[i];
        p[i] = *q;
        let d = exact::orient_det(&p);
        let tol = exact::tol_orient(&p);
        let err = exact::err_orient(&p);
        let s = match exact::classify(&d, tol, err) {
            Band::Decided(s) => Side { rel: s * c.sign, ok: true, fragile_zero: false },
            Band::Zero => {
                let dup = (0..=D).any(|j| j != i && p[j] == *q);
                let ok = dup || (err.is_finite() && err <= tol);
                Side { rel: 0, ok, fragile_zero: !ok }
            }
            Band::Ambiguous => Side { rel: d.sign() * c.sign, ok: false, fragile_zero: false },
        };
        p[i] = save;
        v.push(s);
    }
    v
}

fn contains(s: &[Side]) -> bool {
    s.iter().all(|x| x.rel >= 0)
}
fn all_ok(s: &[Side]) -> bool {
    s.iter().all(|x| x.ok)
}

/// Exact evaluation of one query point against the model.
///
/// global mode (<= GLOBAL_MAX_CELLS cells): the sides of all cells are computed and all must be
/// decidable, otherwise the query is not judged.
/// local mode: containing cells are found among the cells whose (exact f64) bounding box
/// contains q; all their sides must be decidable. The sides of a returned cell and of the hull
/// facets are evaluated lazily and a verdict that depends on an undecidable one is not judged.
struct Eval<'a, const D: usize> {
    geo: &'a Geo<D>,
    q: [f64; D],
    cache: HashMap<usize, Vec<Side>>,
    containing: Vec<usize>,
    global: bool,
    hull_ok: Option<bool>,
}

impl<'a, const D: usize> Eval<'a, D> {
    fn new(geo: &'a Geo<D>, q: [f64; D]) -> Result<Self, &'static str> {
        let global = geo.cells.len() <= GLOBAL_MAX_CELLS;
        let mut e = Self { geo, q, cache: HashMap::new(), containing: Vec::new(), global, hull_ok: None };
        let mut amb = false;
        let mut fragile = false;
        for (ci, c) in geo.cells.iter().enumerate() {
            if !global && !(0..D).all(|j| q[j] >= c.lo[j] && q[j] <= c.hi[j]) {
                continue; // q is outside the bounding box of the cell: not in the closed simplex
            }
            let s = sides(c, &q);
            let inside = contains(&s);
            if global || inside {
                for x in &s {
                    if !x.ok {
                        if x.fragile_zero {
                            fragile = true;
                        } else {
                            amb = true;
                        }
                    }
                }
            }
            if inside {
                e.containing.push(ci);
            }
            e.cache.insert(ci, s);
        }
        if amb {
            return Err("ambiguous_side");
        }
        if fragile {
            return Err("zero_side_not_provably_in_band");
        }
        if global {
            e.hull_ok = Some(true);
        }
        Ok(e)
    }
    fn sides_of(&mut self, ci: usize) -> &Vec<Side> {
        let geo = self.geo;
        let q = self.q;
        self.cache.entry(ci).or_insert_with(|| sides(&geo.cells[ci], &q))
    }
    /// all hull-facet sides decidable?
    fn hull_decidable(&mut self) -> bool {
        if let Some(b) = self.hull_ok {
            return b;
        }
        let mut ok = true;
        for k in 0..self.geo.hull.len() {
            let (ci, slot) = self.geo.hull[k];
            if !self.sides_of(ci)[slot].ok {
                ok = false;
                break;
            }
        }
        self.hull_ok = Some(ok);
        ok
    }
}

// ---------------------------------------------------------------------------------------------
// query points
// ---------------------------------------------------------------------------------------------

#[derive(Clone, Debug)]
struct Query<const D: usize> {
    q: [f64; D],
    class: &'static str,
}

/// sum_i w_i p_i / 2^k evaluated in f64, and whether that equals the exact combination.
fn combo<const D: usize>(ps: &[[f64; D]], w: &[u64], k: i64) -> ([f64; D], bool) {
    let s = 2f64.powi(k as i32);
    let mut q = [0.0; D];
    let mut exact_ok = true;
    for j in 0..D {
        let mut acc = 0.0f64;
        let mut ex = Dy::zero();
        for (p, &wi) in ps.iter().zip(w) {
            acc += p[j] * wi as f64;
            ex = ex.add(&Dy::from_f64(p[j]).mul(&Dy::from_i64(wi as i64)));
        }
        q[j] = acc / s;
        if !q[j].is_finite() {
            exact_ok = false;
            continue;
        }
        if Dy::from_f64(q[j]).mul_pow2(k).cmp(&ex) != Ordering::Equal {
            exact_ok = false;
        }
    }
    (q, exact_ok)
}

/// m positive integer weights with sum 2^k (requires m <= 2^k).
fn weights(rng: &mut Rng, m: usize, k: i64) -> Vec<u64> {
    let s = 1usize << k;
    let mut w = vec![1u64; m];
    for _ in 0..s.saturating_sub(m) {
        w[rng.usize(m)] += 1;
    }
    w
}

fn subset(rng: &mut Rng, n: usize, m: usize) -> Vec<usize> {
    let mut idx: Vec<usize> = (0..n).collect();
    rng.shuffle(&mut idx);
    idx.truncate(m);
    idx
}

fn gen_queries<const D: usize>(rng: &mut Rng, geo: &Geo<D>, scale: usize, out: &mut Out) -> Vec<Query<D>> {
    let mut qs: Vec<Query<D>> = Vec::new();
    let nc = geo.cells.len();
    let finite = |q: &[f64; D]| q.iter().all(|x| x.is_finite());
    // --- points of random cells
    for _ in 0..(6 * scale) {
        let c = &geo.cells[rng.usize(nc)];
        // a vertex
        qs.push(Query { q: c.pts[rng.usize(D + 1)], class: "vertex" });
        // an edge midpoint
        let e = subset(rng, D + 1, 2);
        let (q, ex) = combo(&[c.pts[e[0]], c.pts[e[1]]], &[1, 1], 1);
        if ex {
            qs.push(Query { q, class: "edge-midpoint" });
        } else {
            out.count("skipped/edge_midpoint_not_exact");
        }
        // strictly interior combination, weights sum 16
        let w = weights(rng, D + 1, 4);
        let (q, ex) = combo(&c.pts, &w, 4);
        if finite(&q) {
            qs.push(Query { q, class: if ex { "interior" } else { "interior-inexact" } });
        }
        // a point in the relative interior of a proper face, weights sum 8
        let m = 2 + rng.usize(D - 1); // 2..=D
        let sl = subset(rng, D + 1, m);
        let fp: Vec<[f64; D]> = sl.iter().map(|&i| c.pts[i]).collect();
        let w = weights(rng, m, 3);
        let (q, ex) = combo(&fp, &w, 3);
        if finite(&q) {
            let class = match (m == D, ex) {
                (true, true) => "facet",
                (true, false) => "facet-inexact",
                (false, true) => "face",
                (false, false) => "face-inexact",
            };
            qs.push(Query { q, class });
        }
    }
    // --- points on hull facets and one step beyond them
    let steps = [2f64.powi(-10), 2f64.powi(-6), 0.125, 0.5, 1.0, 4.0];
    if !geo.hull.is_empty() {
        for _ in 0..(6 * scale) {
            let (ci, slot) = geo.hull[rng.usize(geo.hull.len())];
            let c = &geo.cells[ci];
            let fv: Vec<[f64; D]> = (0..=D).filter(|&i| i != slot).map(|i| c.pts[i]).collect();
            let m = 1 + rng.usize(D); // 1..=D
            let sl = subset(rng, D, m);
            let fp: Vec<[f64; D]> = sl.iter().map(|&i| fv[i]).collect();
            let w = weights(rng, m, 3);
            let (h, ex) = combo(&fp, &w, 3);
            if !finite(&h) {
                continue;
            }
            qs.push(Query { q: h, class: if ex { "hull" } else { "hull-inexact" } });
            let axis = rng.usize(D);
            let st = *rng.pick(&steps);
            for sg in [-1.0, 1.0] {
                let mut q = h;
                q[axis] += sg * st;
                qs.push(Query { q, class: "beyond" });
            }
        }
    }
    // --- far away
    for t in 0..(3 * scale) {
        let mut q = [0.0; D];
        for j in 0..D {
            let ext = (geo.hi[j] - geo.lo[j]).max(1.0);
            q[j] = geo.lo[j] + ext * rng.range_i64(-1000, 1000) as f64;
        }
        let a = rng.usize(D);
        let ext = (geo.hi[a] - geo.lo[a]).max(1.0);
        let big = if t % 3 == 2 { 2f64.powi(40) } else { 8.0 * ext * (1 + rng.usize(100)) as f64 };
        q[a] = if rng.bool() { geo.hi[a] + big } else { geo.lo[a] - big };
        if finite(&q) {
            qs.push(Query { q, class: "far" });
        }
    }
    // --- random grid points in the bounding box enlarged by 50%
    for _ in 0..(12 * scale) {
        let grid = *rng.pick(&[1.0, 4.0, 1024.0]);
        let mut q = [0.0; D];
        for j in 0..D {
            let ext = geo.hi[j] - geo.lo[j];
            let x = geo.lo[j] - 0.25 * ext + 1.5 * ext * rng.f64();
            q[j] = (x * grid).round() / grid;
        }
        if finite(&q) {
            qs.push(Query { q, class: "random" });
        }
    }
    qs
}

// ---------------------------------------------------------------------------------------------
// hints
// ---------------------------------------------------------------------------------------------

#[derive(Clone, Debug)]
struct Hint {
    key: Option<CellKey>,
    class: &'static str,
}

fn key_hex(k: Option<CellKey>) -> String {
    match k {
        None => "none".into(),
        Some(k) => format!("{:x}", ck_u64(k)),
    }
}

/// Hints for a triangulation with live cell keys `geo`: none, live cells, null, an out-of-range
/// key, and the given extra keys (`dead_class` when not live here, `live_class` otherwise).
fn mk_hints<const D: usize>(rng: &mut Rng, geo: &Geo<D>, extra: &[(CellKey, &'static str, &'static str)], max_live: usize) -> Vec<Hint> {
    let mut hs = vec![Hint { key: None, class: "none" }];
    let nc = geo.cells.len();
    if nc <= max_live {
        for c in &geo.cells {
            hs.push(Hint { key: Some(c.key), class: "live" });
        }
    } else {
        // extremes along the first axis (long walks) plus random cells
        let mut lo_i = 0;
        let mut hi_i = 0;
        for (i, c) in geo.cells.iter().enumerate() {
            if c.lo[0] < geo.cells[lo_i].lo[0] {
                lo_i = i;
            }
            if c.hi[0] > geo.cells[hi_i].hi[0] {
                hi_i = i;
            }
        }
        hs.push(Hint { key: Some(geo.cells[lo_i].key), class: "live" });
        hs.push(Hint { key: Some(geo.cells[hi_i].key), class: "live" });
        for _ in 0..max_live.min(16).saturating_sub(2) {
            hs.push(Hint { key: Some(geo.cells[rng.usize(nc)].key), class: "live" });
        }
    }
    hs.push(Hint { key: Some(CellKey::default()), class: "null" });
    hs.push(Hint { key: Some(CellKey::from(KeyData::from_ffi((9u64 << 32) | 0x7fff_fff0))), class: "out-of-range" });
    for &(k, dead_class, live_class) in extra {
        let live = geo.idx.contains_key(&k);
        hs.push(Hint { key: Some(k), class: if live { live_class } else { dead_class } });
    }
    hs
}

// ---------------------------------------------------------------------------------------------
// judging
// ---------------------------------------------------------------------------------------------

fn answer_str(r: &Result<LocateResult, String>) -> String {
    match r {
        Ok(LocateResult::InsideCell(c)) => format!("InsideCell({:x})", ck_u64(*c)),
        Ok(LocateResult::OnFacet(c, i)) => format!("OnFacet({:x},{})", ck_u64(*c), i),
        Ok(LocateResult::OnEdge(c)) => format!("OnEdge({:x})", ck_u64(*c)),
        Ok(LocateResult::OnVertex(_)) => "OnVertex(..)".to_string(),
        Ok(LocateResult::Outside) => "Outside".into(),
        Err(e) => format!("Err({})", e),
    }
}

#[allow(clippy::too_many_arguments)]
fn run_queries<K, const D: usize>(
    ctx: &Ctx,
    out: &mut Out,
    dt: &Dt<K, D>,
    m: &RefModel<D>,
    geo: &Geo<D>,
    queries: &[Query<D>],
    hints: &[Hint],
    base: &Value,
    target: &str,
) where
    K: Kernel<D, Scalar = f64>,
{
    let kernel = K::default();
    for qu in queries {
        if ctx.out_of_time() {
            out.count("cut/out_of_time_inside_case");
            break;
        }
        let q = qu.q;
        out.count(&format!("query/{}", qu.class));
        let mut ev = match Eval::new(geo, q) {
            Ok(e) => e,
            Err(why) => {
                out.count(&format!("not_judged/{}", why));
                out.count(&format!("not_judged_by_class/{}/{}", qu.class, why));
                continue;
            }
        };
        let expected_inside = !ev.containing.is_empty();
        out.count(&format!("judged/{}/{}", qu.class, if expected_inside { "in-closed-cell" } else { "strictly-outside-hull" }));
        out.count(&format!("judged/D{}", D));
        let pt = Point::new(q);
        let containing_keys: Vec<String> = ev.containing.iter().take(8).map(|&ci| format!("{:x}", ck_u64(geo.cells[ci].key))).collect();
        let rp = |h: &Hint, ans: &str, extra: Value| {
            let mut r = base.clone();
            r["target"] = json!(target);
            r["query"] = json!({"x": q.to_vec(), "bits": bits(&q), "class": qu.class});
            r["hint"] = json!({"class": h.class, "key": key_hex(h.key)});
            r["answer"] = json!(ans);
            r["oracle"] = json!({"in_closed_cells": containing_keys, "strictly_outside_hull": !expected_inside});
            r["detail"] = extra;
            r
        };
        let mut saw_inside: Option<String> = None;
        let mut saw_outside: Option<String> = None;
        for h in hints {
            out.count(&format!("hint/{}", h.class));
            let r1 = match guard(|| locate(dt.tds(), &kernel, &pt, h.key)) {
                Ok(r) => r.map_err(|e| e.to_string()),
                Err(pi) => {
                    out.panic(P, &pi, "locate", rp(h, "panic", json!(null)));
                    continue;
                }
            };
            let r2 = match guard(|| locate_with_stats(dt.tds(), &kernel, &pt, h.key)) {
                Ok(r) => r.map_err(|e| e.to_string()),
                Err(pi) => {
                    out.panic(P, &pi, "locate_with_stats", rp(h, "panic", json!(null)));
                    continue;
                }
            };
            let ans = answer_str(&r1);
            // --- statistics variant
            let r2_res: Result<LocateResult, String> = r2.as_ref().map(|(r, _)| *r).map_err(|e| e.clone());
            if r2_res != r1 {
                out.violation(
                    P,
                    &format!("D{}/locate/stats-variant-differs", D),
                    format!("locate returned {} but locate_with_stats returned {} for the same point {:?} and hint {} ({})", ans, answer_str(&r2_res), q, key_hex(h.key), h.class),
                    rp(h, &ans, json!({"with_stats": answer_str(&r2_res)})),
                );
            }
            if let Ok((_, st)) = &r2 {
                out.max("max/walk_steps", st.walk_steps as u64);
                out.max(&format!("max/walk_steps/D{}", D), st.walk_steps as u64);
                out.add("stats/walk_steps_total", st.walk_steps as u64);
                out.count("stats/calls");
                match st.fallback {
                    None => {}
                    Some(f) => {
                        out.count(match f.reason {
                            LocateFallbackReason::CycleDetected => "stats/fallback_scan/cycle",
                            LocateFallbackReason::StepLimit => "stats/fallback_scan/step_limit",
                        });
                        out.count(&format!("stats/fallback_scan/D{}", D));
                    }
                }
                let hint_live = h.key.map(|k| geo.idx.contains_key(&k)).unwrap_or(false);
                out.count(if st.used_hint { "stats/used_hint" } else { "stats/hint_not_used" });
                if st.used_hint != hint_live {
                    out.count("stats/used_hint_flag_disagrees_with_liveness");
                }
                if !geo.idx.contains_key(&st.start_cell) {
                    out.count("stats/start_cell_not_live");
                }
            }
            // --- the answer itself
            match &r1 {
                Ok(LocateResult::Outside) => {
                    out.count("answer/Outside");
                    saw_outside.get_or_insert_with(|| format!("{} ({})", key_hex(h.key), h.class));
                    if expected_inside {
                        if !ev.hull_decidable() {
                            out.count("not_judged/answer/hull_side_ambiguous");
                        } else {
                            let ci = ev.containing[0];
                            out.violation(
                                P,
                                &format!("D{}/locate/outside-but-inside", D),
                                format!(
                                    "locate({:?}, hint {} [{}]) = Outside but the point lies in the closed cell {:x} {:?} (exact; {} containing cells)",
                                    q, key_hex(h.key), h.class, ck_u64(geo.cells[ci].key), geo.cells[ci].pts, ev.containing.len()
                                ),
                                rp(h, &ans, json!({"containing_cell_points": pts_json(&geo.cells[ci].pts)})),
                            );
                        }
                    }
                }
                Ok(res) => {
                    // InsideCell, or one of the documented-but-unused On* variants: all name a cell/vertex
                    let cell = match res {
                        LocateResult::InsideCell(c) => {
                            out.count("answer/InsideCell");
                            Some(*c)
                        }
                        LocateResult::OnFacet(c, _) => {
                            out.count("answer/OnFacet");
                            Some(*c)
                        }
                        LocateResult::OnEdge(c) => {
                            out.count("answer/OnEdge");
                            Some(*c)
                        }
                        LocateResult::OnVertex(vk) => {
                            out.count("answer/OnVertex");
                            match m.vertex(*vk) {
                                Some(v) if v.p == q => {}
                                _ => out.violation(
                                    P,
                                    &format!("D{}/locate/on-vertex-wrong", D),
                                    format!("locate({:?}) = OnVertex but that vertex is absent or has other coordinates", q),
                                    rp(h, &ans, json!(null)),
                                ),
                            }
                            None
                        }
                        LocateResult::Outside => None,
                    };
                    saw_inside.get_or_insert_with(|| format!("{} ({})", key_hex(h.key), h.class));
                    if let Some(c) = cell {
                        match geo.idx.get(&c).copied() {
                            None => out.violation(
                                P,
                                &format!("D{}/locate/dangling-cell", D),
                                format!("locate({:?}, hint {} [{}]) = {} but that cell key is not live", q, key_hex(h.key), h.class, ans),
                                rp(h, &ans, json!(null)),
                            ),
                            Some(ci) => {
                                let s = ev.sides_of(ci).clone();
                                if contains(&s) {
                                    out.count("judged/answer/cell_contains_point");
                                } else if !s.iter().any(|x| x.rel < 0 && x.ok) {
                                    // only possible in local mode: the separating side is inside the band
                                    out.count("not_judged/answer/returned_cell_side_ambiguous");
                                } else {
                                    let kind = if expected_inside { "inside-cell-wrong" } else { "inside-but-outside" };
                                    let rels: Vec<i32> = s.iter().map(|x| x.rel).collect();
                                    out.violation(
                                        P,
                                        &format!("D{}/locate/{}", D, kind),
                                        format!(
                                            "locate({:?}, hint {} [{}]) = {} but the point is strictly outside the closed simplex {:?} (exact side signs per slot {:?}); {}",
                                            q, key_hex(h.key), h.class, ans, geo.cells[ci].pts, rels,
                                            if expected_inside { format!("it lies in {} other closed cell(s)", ev.containing.len()) } else { "it lies in no closed cell, i.e. strictly outside the hull".to_string() }
                                        ),
                                        rp(h, &ans, json!({"returned_cell_points": pts_json(&geo.cells[ci].pts), "side_signs": rels})),
                                    );
                                }
                            }
                        }
                    }
                }
                Err(e) => {
                    out.count("answer/Err");
                    let kind = if expected_inside { "unexpected-err" } else { "err-outside" };
                    out.violation(
                        P,
                        &format!("D{}/locate/{}", D, kind),
                        format!("locate({:?}, hint {} [{}]) = Err({}) on a non-empty valid triangulation with {} cells", q, key_hex(h.key), h.class, e, geo.cells.len()),
                        rp(h, &ans, json!(null)),
                    );
                }
            }
        }
        if let (Some(a), Some(b)) = (&saw_inside, &saw_outside) {
            if ev.hull_decidable() {
                out.violation(
                    P,
                    &format!("D{}/locate/hint-dependent-class", D),
                    format!("locate({:?}) names a cell with hint {} but reports Outside with hint {}", q, a, b),
                    rp(&Hint { key: None, class: "several" }, "mixed", json!({"inside_with": a, "outside_with": b})),
                );
            }
        } else {
            out.count("judged/hint_independent_class");
        }
    }
}

// ---------------------------------------------------------------------------------------------
// cases
// ---------------------------------------------------------------------------------------------

fn strip_points<const D: usize>(rng: &mut Rng, n: usize) -> Vec<[f64; D]> {
    // long thin strip: first axis in [0,64), the others in [0,1), all on the 2^-10 grid
    let mut seen = HashSet::new();
    let mut pts = Vec::with_capacity(n);
    for _ in 0..n {
        let mut p = [0.0; D];
        for (j, x) in p.iter_mut().enumerate() {
            let hi = if j == 0 { 64 * 1024 - 1 } else { 1023 };
            *x = rng.range_i64(0, hi) as f64 / 1024.0;
        }
        if seen.insert(p.map(f64::to_bits)) {
            pts.push(p);
        }
    }
    pts
}

fn case<K, const D: usize>(ctx: &Ctx, out: &mut Out, cs: u64, kn: Kn)
where
    K: Kernel<D, Scalar = f64>,
{
    let mut rng = Rng::new(cs);
    let thorough = ctx.tier == Tier::Thorough;
    out.eval();
    if D == 2 && cs % 6 == 0 {
        let mut prng = Rng::derive(cs, 0x9147, 10);
        return pinwheel_case::<K, D>(ctx, out, cs, kn, &mut prng);
    }
    let strip = thorough && D == 2 && rng.chance(1, 5);
    let (fam_name, pts): (&str, Vec<[f64; D]>) = if strip {
        let n = 300 + rng.usize(1701);
        ("strip", strip_points::<D>(&mut rng, n))
    } else {
        let fam = *rng.pick(&[Family::Dyadic, Family::Dyadic, Family::Grid, Family::Uniform, Family::Hull, Family::TinyGrid, Family::Sphere]);
        let span = if thorough { [0, 0, 120, 90, 48, 28][D] } else { 7 * D - 1 };
        let mut n = D + 2 + rng.usize(span);
        if fam == Family::Hull {
            // moment-curve points: the cell count grows like n^ceil(D/2); keep construction cheap
            n = n.min([0, 0, 1000, 1000, 24, 14][D]);
        }
        (fam.name(), g::points::<D>(&mut rng, fam, n))
    };
    let inp = tri::mk_inputs(&mut rng, &pts);
    let gu = *rng.pick(&GUARANTEES);
    let mut base = json!({"property": P, "case_seed": cs.to_string(), "D": D, "kernel": kn.name(), "family": fam_name,
        "tier": if thorough { "thorough" } else { "quick" }, "guarantee": format!("{:?}", gu), "n_points": pts.len()});
    if pts.len() <= 200 {
        base["points"] = pts_json(&pts);
    }
    let dt = match tri::build::<K, D>(&K::default(), &inp, gu, &Opts::default_like()) {
        Ok(Ok(dt)) => dt,
        Ok(Err(_)) => {
            out.count("start/construction_err");
            return;
        }
        Err(pi) => {
            out.panic(P, &pi, "construction", base);
            return;
        }
    };
    let m = RefModel::from_dt(&dt);
    let gu_now = Guarantee::from_lib(dt.topology_guarantee());
    if !super::c04::geometrically_valid(&m, gu_now) {
        out.count("not_judged/invalid_triangulation");
        return;
    }
    let Some(geo) = Geo::from_model(&m) else {
        out.count("not_judged/invalid_triangulation");
        return;
    };
    if m.verts.len() > D + 2 {
        out.nontrivial(&cs.to_string());
    }
    out.count(&format!("tri/D{}/{}", D, fam_name));
    out.count(&format!("tri/kernel/{}", kn.name()));
    out.max("max/cells", geo.cells.len() as u64);
    out.count(if geo.cells.len() <= GLOBAL_MAX_CELLS { "tri/mode/all_sides_decidable_required" } else { "tri/mode/local_decidability" });

    // --- a modified clone: source of foreign keys for `dt`, and a triangulation with removed keys
    let mut d2 = dt.clone();
    let mut d2_ok = false;
    let aux_op: Op<D> = if rng.bool() && m.verts.len() > D + 2 {
        let v = rng.pick(&m.verts);
        Op::Remove { uuid: v.uuid, p: v.p, how: "live" }
    } else {
        let mut p = [0.0; D];
        for j in 0..D {
            let x = geo.lo[j] + (geo.hi[j] - geo.lo[j]) * rng.f64();
            p[j] = (x * 1024.0).round() / 1024.0;
        }
        Op::Insert { p, uuid: rng.uuid(), data: Some(5), how: "aux" }
    };
    match hist::apply(&mut d2, &aux_op) {
        Ok(Res::Removed(_)) | Ok(Res::Inserted { .. }) => d2_ok = true,
        Ok(_) => out.count("aux/clone_op_refused"),
        Err(pi) => {
            let mut r = base.clone();
            r["aux_op"] = aux_op.to_json();
            out.panic(P, &pi, "auxiliary operation on a clone", r);
        }
    }
    let m2 = RefModel::from_dt(&d2);
    let foreign_for_dt: Vec<CellKey> = if d2_ok { m2.cells.iter().map(|c| c.key).filter(|k| !m.cidx.contains_key(k)).take(3).collect() } else { Vec::new() };
    let removed_in_d2: Vec<CellKey> = if d2_ok { m.cells.iter().map(|c| c.key).filter(|k| !m2.cidx.contains_key(k)).take(8).collect() } else { Vec::new() };

    // --- an unrelated small triangulation (its keys usually coincide with live slots here)
    let mut other_keys: Vec<CellKey> = Vec::new();
    {
        let mut op = vec![[0.0; D]];
        for j in 0..D {
            let mut p = [0.0; D];
            p[j] = 1.0;
            op.push(p);
        }
        op.push([1.0 / 8.0; D]);
        let oi = tri::mk_inputs(&mut rng, &op);
        if let Ok(Ok(o)) = tri::build_default::<K, D>(&K::default(), &oi) {
            other_keys = o.tds().cell_keys().take(2).collect();
        }
    }

    let mut extra: Vec<(CellKey, &'static str, &'static str)> = Vec::new();
    for k in &foreign_for_dt {
        extra.push((*k, "foreign-from-modified-clone", "foreign-from-modified-clone(live-here)"));
    }
    for k in &other_keys {
        extra.push((*k, "other-triangulation(dead-here)", "other-triangulation(live-here)"));
    }
    let max_live = if geo.cells.len() <= 40 { 40 } else { 16 };
    let hints = mk_hints(&mut rng, &geo, &extra, max_live);
    let scale = if strip { 8 } else if thorough { 2 } else { 1 };
    let queries = gen_queries(&mut rng, &geo, scale, out);
    run_queries(ctx, out, &dt, &m, &geo, &queries, &hints, &base, "constructed");

    // --- the modified clone with hints that were removed from it
    if d2_ok && !removed_in_d2.is_empty() {
        let gu2 = Guarantee::from_lib(d2.topology_guarantee());
        if super::c04::geometrically_valid(&m2, gu2) {
            if let Some(geo2) = Geo::from_model(&m2) {
                let mut extra2: Vec<(CellKey, &'static str, &'static str)> = Vec::new();
                for k in &removed_in_d2 {
                    extra2.push((*k, "removed-cell-key", "removed-cell-key(slot-reused)"));
                }
                let hints2 = mk_hints(&mut rng, &geo2, &extra2, 6);
                let mut q2 = gen_queries(&mut rng, &geo2, 1, out);
                rng.shuffle(&mut q2);
                q2.truncate(if thorough { 40 } else { 20 });
                let mut b2 = base.clone();
                b2["aux_op"] = aux_op.to_json();
                out.count("tri/modified_clone_judged");
                run_queries(ctx, out, &d2, &m2, &geo2, &q2, &hints2, &b2, "clone-after-aux-op");
            }
        } else {
            out.count("not_judged/invalid_triangulation_after_aux_op");
        }
    }
    // --- a valid but (in general) non-Delaunay triangulation: random legal flips that keep the
    //     state exactly geometrically valid; the straight visibility walk may cycle here and must
    //     then fall back to the scan
    if geo.cells.len() <= 300 && rng.chance(1, 2) && !ctx.out_of_time() {
        let mut d3 = dt.clone();
        let want = 2 + rng.usize(if thorough { 30 } else { 12 });
        let (done, log) = super::c04::perturb(&mut d3, &mut rng, want, gu_now, true);
        out.add("aux/flips_kept", done as u64);
        if done > 0 {
            let m3 = RefModel::from_dt(&d3);
            let gu3 = Guarantee::from_lib(d3.topology_guarantee());
            if super::c04::geometrically_valid(&m3, gu3) {
                if let Some(geo3) = Geo::from_model(&m3) {
                    let stale3: Vec<CellKey> = m.cells.iter().map(|c| c.key).filter(|k| !m3.cidx.contains_key(k)).take(6).collect();
                    let mut extra3: Vec<(CellKey, &'static str, &'static str)> = Vec::new();
                    for k in &stale3 {
                        extra3.push((*k, "removed-cell-key", "removed-cell-key(slot-reused)"));
                    }
                    let max_live3 = if geo3.cells.len() <= 40 { 40 } else { 16 };
                    let hints3 = mk_hints(&mut rng, &geo3, &extra3, max_live3);
                    let mut q3 = gen_queries(&mut rng, &geo3, 1, out);
                    rng.shuffle(&mut q3);
                    q3.truncate(if thorough { 50 } else { 30 });
                    // The scan fallback is only consulted when the walk cycles, which depends on the start
                    // cell; a scan that wrongly rejects cells shows on queries lying on faces of the cells
                    // that contain them. So here every mesh vertex is a query too, from every hint.
                    if geo3.cells.len() <= 120 {
                        let mut seen: HashSet<[u64; D]> = HashSet::new();
                        for c in &geo3.cells {
                            for p in c.pts.iter() {
                                let mut kb = [0u64; D];
                                for j in 0..D {
                                    kb[j] = p[j].to_bits();
                                }
                                if seen.insert(kb) {
                                    q3.push(Query { q: *p, class: "vertex" });
                                }
                            }
                        }
                        out.add("aux/flipped_all_vertex_queries", seen.len() as u64);
                    }
                    let mut b3 = base.clone();
                    b3["flips"] = json!(log);
                    out.count("tri/flipped_judged");
                    run_queries(ctx, out, &d3, &m3, &geo3, &q3, &hints3, &b3, "flipped");
                }
            } else {
                out.count("not_judged/invalid_triangulation_after_flips");
            }
        }
    }
    if out.samples.len() < 3 {
        out.sample(json!({"D": D, "kernel": kn.name(), "family": fam_name, "n": inp.len(), "cells": geo.cells.len(), "queries": queries.len(), "hints": hints.len(),
            "hint_classes": hints.iter().map(|h| h.class).collect::<HashSet<_>>().into_iter().collect::<Vec<_>>(), "aux_op": aux_op.kind(), "removed_keys": removed_in_d2.len()}));
    }
}

// ---------------------------------------------------------------------------------------------
// pinwheel: a valid, non-Delaunay 2D triangulation on which the visibility walk cycles
// ---------------------------------------------------------------------------------------------

/// Random legal flips practically never make the deterministic facet walk cycle, so the scan
/// fallback of `locate` would stay unobserved. The classical counterexample is the pinwheel: an
/// inner triangle a,b,c around a centre m inside an outer triangle A,B,C, with the "blade" edges
/// A-b, B-c, C-a instead of the Delaunay ones. It is reached from the constructed triangulation by
/// a breadth-first search over `flip_k2` edits that keep the complex exactly valid, and is placed
/// by a random dyadic similarity (scale 2^k, axis swap / mirror, integer translation).
fn pinwheel_case<K, const D: usize>(ctx: &Ctx, out: &mut Out, cs: u64, kn: Kn, rng: &mut Rng)
where
    K: Kernel<D, Scalar = f64>,
{
    let base_pts: [(f64, f64); 7] = [(-4.0, 6.0), (-2.0, -6.0), (6.0, 2.0), (2.0, 0.0), (-1.0, 2.0), (-1.0, -2.0), (0.0, 0.0)];
    let target: HashSet<(usize, usize)> = [(0, 1), (1, 2), (0, 2), (0, 3), (1, 4), (2, 5), (0, 4), (1, 5), (2, 3), (3, 4), (4, 5), (3, 5), (3, 6), (4, 6), (5, 6)].into_iter().collect();
    let sc = 2f64.powi(rng.range_i64(-3, 6) as i32);
    let (swap, nx, ny) = (rng.bool(), rng.bool(), rng.bool());
    let (tx, ty) = (rng.range_i64(-64, 64) as f64 * sc, rng.range_i64(-64, 64) as f64 * sc);
    let mut pts: Vec<[f64; D]> = Vec::new();
    for (x, y) in base_pts {
        let (mut x, mut y) = if swap { (y, x) } else { (x, y) };
        if nx {
            x = -x;
        }
        if ny {
            y = -y;
        }
        let mut p = [0.0; D];
        p[0] = x * sc + tx;
        p[1] = y * sc + ty;
        pts.push(p);
    }
    let inp = tri::mk_inputs(rng, &pts);
    let gu = *rng.pick(&GUARANTEES);
    let base = json!({"property": P, "case_seed": cs.to_string(), "D": D, "kernel": kn.name(), "family": "pinwheel", "guarantee": format!("{:?}", gu), "points": pts_json(&pts)});
    let dt0 = match tri::build::<K, D>(&K::default(), &inp, gu, &Opts::default_like()) {
        Ok(Ok(dt)) => dt,
        Ok(Err(_)) => {
            out.count("pinwheel/construction_err");
            return;
        }
        Err(pi) => {
            out.panic(P, &pi, "construction", base);
            return;
        }
    };
    let index_of: HashMap<uuid::Uuid, usize> = inp.iter().enumerate().map(|(i, v)| (v.uuid, i)).collect();
    let edges_of = |m: &RefModel<D>| -> Option<(HashSet<(usize, usize)>, Vec<Vec<usize>>)> {
        let mut es = HashSet::new();
        let mut cells = Vec::new();
        for c in &m.cells {
            let mut ids = Vec::new();
            for vk in &c.v {
                ids.push(*index_of.get(&m.vertex(*vk)?.uuid)?);
            }
            ids.sort_unstable();
            for i in 0..ids.len() {
                for j in i + 1..ids.len() {
                    es.insert((ids[i], ids[j]));
                }
            }
            cells.push(ids);
        }
        cells.sort();
        Some((es, cells))
    };
    let m0 = RefModel::from_dt(&dt0);
    if m0.verts.len() != 7 || !super::c04::geometrically_valid(&m0, gu) {
        out.count("pinwheel/start_not_usable");
        return;
    }
    let stale: Vec<CellKey> = m0.cells.iter().map(|c| c.key).collect();
    let mut seen: HashSet<Vec<Vec<usize>>> = HashSet::new();
    let mut queue: std::collections::VecDeque<(Dt<K, D>, Vec<Value>)> = std::collections::VecDeque::new();
    if let Some((_, sig)) = edges_of(&m0) {
        seen.insert(sig);
    }
    queue.push_back((dt0, Vec::new()));
    let mut found: Option<(Dt<K, D>, Vec<Value>)> = None;
    let mut expanded = 0;
    while let Some((dt, log)) = queue.pop_front() {
        let m = RefModel::from_dt(&dt);
        let Some((es, _)) = edges_of(&m) else { break };
        if es == target {
            found = Some((dt, log));
            break;
        }
        expanded += 1;
        if expanded > 300 {
            break;
        }
        for c in &m.cells {
            for idx in 0..=(D as u8) {
                let mut next = dt.clone();
                let op = Op::FlipK2 { cell: c.key, idx, how: "pinwheel-search" };
                if let Ok(Res::Flip(_)) = hist::apply(&mut next, &op) {
                    let mn = RefModel::from_dt(&next);
                    if !super::c04::geometrically_valid(&mn, gu) {
                        continue;
                    }
                    if let Some((_, sig)) = edges_of(&mn) {
                        if seen.insert(sig) {
                            let mut l = log.clone();
                            l.push(op.to_json());
                            queue.push_back((next, l));
                        }
                    }
                }
            }
        }
    }
    let Some((dt, log)) = found else {
        out.count("pinwheel/not_reached");
        return;
    };
    out.count("pinwheel/built");
    out.count(&format!("D{}/pinwheel", D));
    let m = RefModel::from_dt(&dt);
    let Some(geo) = Geo::from_model(&m) else {
        out.count("pinwheel/geo_unusable");
        return;
    };
    out.nontrivial(&cs.to_string());
    let mut extra: Vec<(CellKey, &'static str, &'static str)> = Vec::new();
    for k in stale.iter().filter(|k| !m.cidx.contains_key(k)).take(6) {
        extra.push((*k, "removed-cell-key", "removed-cell-key(slot-reused)"));
    }
    let hints = mk_hints(rng, &geo, &extra, 40);
    let mut queries = gen_queries(rng, &geo, 2, out);
    // every vertex, every edge midpoint
    for (i, p) in pts.iter().enumerate() {
        queries.push(Query { q: *p, class: "vertex" });
        for q in pts.iter().skip(i + 1) {
            let (mid, ex) = combo(&[*p, *q], &[1, 1], 1);
            if ex {
                queries.push(Query { q: mid, class: "edge-midpoint" });
            }
        }
    }
    let mut b = base.clone();
    b["flips"] = json!(log);
    run_queries(ctx, out, &dt, &m, &geo, &queries, &hints, &b, "pinwheel");
}

pub fn run_case(ctx: &Ctx, out: &mut Out, cs: u64, d: usize, kn: Kn) {
    match (d, kn) {
        (2, Kn::Fast) => case::<FastKernel<f64>, 2>(ctx, out, cs, kn),
        (3, Kn::Fast) => case::<FastKernel<f64>, 3>(ctx, out, cs, kn),
        (4, Kn::Fast) => case::<FastKernel<f64>, 4>(ctx, out, cs, kn),
        (5, Kn::Fast) => case::<FastKernel<f64>, 5>(ctx, out, cs, kn),
        (2, Kn::Robust) => case::<RobustKernel<f64>, 2>(ctx, out, cs, kn),
        (3, Kn::Robust) => case::<RobustKernel<f64>, 3>(ctx, out, cs, kn),
        (4, Kn::Robust) => case::<RobustKernel<f64>, 4>(ctx, out, cs, kn),
        _ => case::<RobustKernel<f64>, 5>(ctx, out, cs, kn),
    }
}

pub fn run(ctx: &Ctx, out: &mut Out) {
    if let Some(doc) = &ctx.replay {
        if let (Some(cs), Some(d)) = (ctx.replay_seed(), doc["D"].as_u64()) {
            let kn = Kn::from_name(doc["kernel"].as_str().unwrap_or("fast")).unwrap_or(Kn::Fast);
            run_case(ctx, out, cs, d as usize, kn);
        } else {
            out.inconclusive("bad replay document");
        }
        return;
    }
    let cap = (if ctx.tier == Tier::Thorough { 200_000.0 } else { 3_000.0 } * ctx.scale) as u64;
    let mut i = 0u64;
    while i < cap && !ctx.out_of_time() {
        let cs = ctx.case_seed(i);
        let d = super::c01::pick_dim_hist(ctx, cs >> 7);
        let kn = if (cs >> 3) & 1 == 0 { Kn::Fast } else { Kn::Robust };
        run_case(ctx, out, cs, d, kn);
        i += 1;
    }
}
