//! C18 — simplex measures (volume, facet measure, circumcentre, circumradius, inradius, quality
//! ratios) agree with exact rational arithmetic, are invariant under vertex permutation and
//! translation, scale by the correct power, and degenerate simplices are reported as errors.
//!
//! Oracle: exact dyadic arithmetic (exact.rs). With q_i = p_i - p_0 (exact):
//!   V      = |det[q]| / D!
//!   A_f^2  = det(Gram(facet edge vectors)) / ((D-1)!)^2
//!   c - p0 = N / (2 det[q])          (Cramer, N_j = det[q with column j := |q_i|^2])
//!   R^2    = |N|^2 / (2 det[q])^2
//!   r      = D V / sum_f A_f         (f64 from the exact squares; relative error ~1e-15)
//! Rationals are kept as (numerator, denominator) pairs and compared by cross-multiplication.
//!
//! Tolerance (never stricter than the library's floating-point algorithms can deliver):
//!   kappa = max over base vertex b of prod_{i != b} |p_i - p_b| / |det[q]|   (>= 1)
//!   rel   = max(1e-9 kappa, 4e-15 D^2 kappa^2)   (the second term covers the Gram/LDLT paths,
//!           whose error grows with cond(Gram) ~ kappa^2)
//!   circumcentre / circumradius additionally get the factor max(1, longest/shortest edge)
//!   (normwise GEPP error bound). kappa > 1e6 or rel > 1e-2: accuracy is not judged
//!   ("skipped_ill_conditioned"), only finiteness is.
//!
//! The library has *absolute* degeneracy thresholds (volume/area/length < 1e-12 -> Err, LDLT
//! pivot <= 1e-12 -> Err, quality: volume or inradius < max(1e-12, 1e-8 avg edge) -> Err). An Err
//! on a non-degenerate simplex is therefore judged ("unexpected-err") only when the simplex is
//! comfortably above all of them; otherwise it is counted as "err_not_judged".

use crate::api::mk_vertex;
use crate::common::{Ctx, Out, Tier, guard, pts_json};
use crate::exact::{self, Dy};
use crate::rng::Rng;
use delaunay::core::delaunay_triangulation::DelaunayTriangulation;
use delaunay::geometry::kernel::FastKernel;
use delaunay::geometry::point::Point;
use delaunay::geometry::quality::{normalized_volume, radius_ratio};
use delaunay::geometry::traits::coordinate::Coordinate;
use delaunay::geometry::util::{circumcenter, circumradius, circumradius_with_center, facet_measure, inradius, simplex_volume, surface_measure};
use serde_json::{Value, json};
use std::cmp::Ordering;
use std::collections::BTreeMap;

const P: &str = "C18";
/// relative tolerance of the power-of-two scaling law
const SCALE_TOL: f64 = 1e-12;

// ---------------------------------------------------------------------------------------------
// small helpers
// ---------------------------------------------------------------------------------------------

#[derive(Clone, Debug)]
enum Res<T> {
    Ok(T),
    Err(String),
    Panic,
}

impl<T: Copy> Res<T> {
    fn ok(&self) -> Option<T> {
        match self {
            Res::Ok(v) => Some(*v),
            _ => None,
        }
    }
}

fn fact(n: usize) -> i64 {
    (1..=n as i64).product::<i64>().max(1)
}

/// n / d as f64 without intermediate overflow (relative error ~2^-52).
fn ratio(n: &Dy, d: &Dy) -> f64 {
    let (mn, en) = n.m.to_frexp();
    let (md, ed) = d.m.to_frexp();
    if mn == 0.0 {
        return 0.0;
    }
    if md == 0.0 {
        return f64::NAN;
    }
    let e = (en + n.e) - (ed + d.e);
    let r = mn / md;
    if e > 2100 {
        return if r < 0.0 { f64::NEG_INFINITY } else { f64::INFINITY };
    }
    if e < -2100 {
        return 0.0;
    }
    let h = e / 2;
    r * 2f64.powi(h as i32) * 2f64.powi((e - h) as i32)
}

fn to_f(x: &Dy) -> f64 {
    ratio(x, &Dy::one())
}

fn vsub(a: &[Dy], b: &[Dy]) -> Vec<Dy> {
    a.iter().zip(b).map(|(x, y)| x.sub(y)).collect()
}

fn vdot(a: &[Dy], b: &[Dy]) -> Dy {
    let mut s = Dy::zero();
    for (x, y) in a.iter().zip(b) {
        s = s.add(&x.mul(y));
    }
    s
}

/// Exact Gram determinant of the edge vectors (from the first point) of an m-point simplex.
fn gram_det(pts: &[&Vec<Dy>]) -> Dy {
    let e: Vec<Vec<Dy>> = pts.iter().skip(1).map(|p| vsub(p, pts[0])).collect();
    let g: Vec<Vec<Dy>> = e.iter().map(|a| e.iter().map(|b| vdot(a, b)).collect()).collect();
    exact::det(&g)
}

fn rel_base(kappa: f64, d: usize) -> f64 {
    (1e-9 * kappa).max(4e-15 * (d * d) as f64 * kappa * kappa)
}

/// |lib - exact| <= rel * |exact| decided exactly; also the observed relative error (f64).
fn rel_exact(lib: &Dy, exact: &Dy, rel: f64) -> (bool, f64) {
    let diff = lib.sub(exact).abs();
    let bound = exact.abs().mul(&Dy::from_f64(rel));
    (diff.le(&bound), ratio(&diff, &exact.abs()))
}

fn close(a: f64, b: f64, tol: f64) -> bool {
    (a - b).abs() <= tol * a.abs().max(b.abs())
}

fn all_finite<const D: usize>(p: &[f64; D]) -> bool {
    p.iter().all(|x| x.is_finite())
}

fn ident<const D: usize>(pts: &[[f64; D]]) -> String {
    let mut v: Vec<[u64; D]> = pts.iter().map(|p| p.map(f64::to_bits)).collect();
    v.sort();
    format!("{}|{:?}", D, v)
}

/// Not an axis-aligned right-corner simplex (no vertex has only axis-parallel edges).
fn nontrivial<const D: usize>(pts: &[[f64; D]]) -> bool {
    !(0..pts.len()).any(|b| (0..pts.len()).filter(|&i| i != b).all(|i| (0..D).filter(|&j| pts[i][j] != pts[b][j]).count() <= 1))
}

#[derive(Default)]
struct Track {
    /// worst observed error / allowance per check, with the family and dimension it occurred in
    worst: BTreeMap<String, (f64, String)>,
}

impl Track {
    fn see(&mut self, key: &str, r: f64, fam: &str, d: usize) {
        let e = self.worst.entry(key.to_string()).or_insert((0.0, String::new()));
        if r > e.0 {
            *e = (r, format!("{}/D{}", fam, d));
        }
    }
}

// ---------------------------------------------------------------------------------------------
// exact oracle
// ---------------------------------------------------------------------------------------------

struct Oracle<const D: usize> {
    p0: Vec<Dy>,
    det_abs: Dy,
    two_det: Dy,
    /// Cramer numerators: (c - p0)_j = n_j / two_det
    n: Vec<Dy>,
    r2_num: Dy,
    r2_den: Dy,
    /// Gram determinant of the facet opposite vertex i
    facet_g: Vec<Dy>,
    // f64 views of the exact values
    vol: f64,
    radius: f64,
    center: [f64; D],
    facet: Vec<f64>,
    surf: f64,
    inr: f64,
    min_edge: f64,
    max_edge: f64,
    avg_edge: f64,
    maxabs: f64,
    kappa: f64,
    eratio: f64,
    facet_kappa: Vec<f64>,
}

fn kappa_of(idx: &[usize], len: &[Vec<f64>], content: f64) -> f64 {
    let mut best: f64 = 1.0;
    for &b in idx {
        let mut p = 1.0;
        for &i in idx {
            if i != b {
                p *= len[b][i];
            }
        }
        best = best.max(p / content);
    }
    best
}

/// `None` iff the simplex is exactly degenerate.
fn oracle<const D: usize>(pts: &[[f64; D]]) -> Option<Oracle<D>> {
    assert_eq!(pts.len(), D + 1);
    let pd: Vec<Vec<Dy>> = pts.iter().map(exact::dyv).collect();
    let q: Vec<Vec<Dy>> = (1..=D).map(|i| vsub(&pd[i], &pd[0])).collect();
    let det = exact::det(&q);
    if det.is_zero() {
        return None;
    }
    let b: Vec<Dy> = q.iter().map(|r| vdot(r, r)).collect();
    let mut n = Vec::with_capacity(D);
    for j in 0..D {
        let mut m = q.clone();
        for i in 0..D {
            m[i][j] = b[i].clone();
        }
        n.push(exact::det(&m));
    }
    let two_det = det.mul_pow2(1);
    let mut r2_num = Dy::zero();
    for x in &n {
        r2_num = r2_num.add(&x.mul(x));
    }
    let r2_den = two_det.mul(&two_det);
    let mut facet_g = Vec::with_capacity(D + 1);
    for i in 0..=D {
        let refs: Vec<&Vec<Dy>> = (0..=D).filter(|&k| k != i).map(|k| &pd[k]).collect();
        facet_g.push(gram_det(&refs));
    }
    // f64 views
    let det_abs = det.abs();
    let det_f = to_f(&det_abs);
    let vol = det_f / fact(D) as f64;
    let radius = ratio(&r2_num, &r2_den).sqrt();
    let mut center = [0.0; D];
    for j in 0..D {
        let num = pd[0][j].mul(&two_det).add(&n[j]);
        center[j] = ratio(&num, &two_det);
    }
    let ff = fact(D - 1) as f64;
    let facet: Vec<f64> = facet_g.iter().map(|g| to_f(g).sqrt() / ff).collect();
    let surf: f64 = facet.iter().sum();
    let inr = D as f64 * vol / surf;
    let mut len = vec![vec![0.0f64; D + 1]; D + 1];
    let (mut mn, mut mx, mut sum, mut cnt) = (f64::INFINITY, 0.0f64, 0.0f64, 0.0f64);
    for i in 0..=D {
        for j in i + 1..=D {
            let l = to_f(&exact::dist2(&pts[i], &pts[j])).sqrt();
            len[i][j] = l;
            len[j][i] = l;
            mn = mn.min(l);
            mx = mx.max(l);
            sum += l;
            cnt += 1.0;
        }
    }
    let all: Vec<usize> = (0..=D).collect();
    let kappa = kappa_of(&all, &len, det_f);
    let mut facet_kappa = Vec::with_capacity(D + 1);
    for i in 0..=D {
        let idx: Vec<usize> = (0..=D).filter(|&k| k != i).collect();
        facet_kappa.push(kappa_of(&idx, &len, to_f(&facet_g[i]).sqrt()));
    }
    let maxabs = pts.iter().flat_map(|p| p.iter()).fold(0.0f64, |a, x| a.max(x.abs()));
    Some(Oracle {
        p0: pd[0].clone(),
        det_abs,
        two_det,
        n,
        r2_num,
        r2_den,
        facet_g,
        vol,
        radius,
        center,
        facet,
        surf,
        inr,
        min_edge: mn,
        max_edge: mx,
        avg_edge: sum / cnt,
        maxabs,
        kappa,
        eratio: mx / mn,
        facet_kappa,
    })
}

struct Tol {
    ill: bool,
    vol: f64,
    inr: f64,
    cc: f64,
    cr: f64,
    nv: f64,
    rr: f64,
    /// the library is expected to return Ok for every measure
    comfortable: bool,
    /// ... and for the quality ratios
    comfortable_q: bool,
}

fn tolerances<const D: usize>(o: &Oracle<D>, extra_abs: f64) -> Tol {
    let rb = rel_base(o.kappa, D);
    let cc = rb * o.eratio.max(1.0);
    let maxabs = o.maxabs + extra_abs;
    let cr = cc + 1e-15 * D as f64 * (maxabs / o.radius + 1.0);
    let inr = 2.0 * rb + 1e-12;
    let ill = !(o.kappa <= 1e6) || !(cr <= 1e-2) || !(inr <= 1e-2);
    let min_facet = o.facet.iter().cloned().fold(f64::INFINITY, f64::min);
    let comfortable = o.kappa <= 1e4
        && o.min_edge * o.min_edge / (o.kappa * o.kappa) > 1e-9
        && o.vol > 1e-11
        && (D < 2 || min_facet > 1e-11)
        && o.inr > 1e-11
        && maxabs < 1e60
        && o.max_edge < 1e30;
    let epsq = (1e-8 * o.avg_edge).max(1e-12);
    let comfortable_q = comfortable && o.vol > 100.0 * epsq && o.inr > 100.0 * epsq && o.avg_edge.powi(D as i32) > 100.0 * epsq;
    Tol { ill, vol: rb, inr, cc, cr, nv: rb + 1e-13, rr: cr + inr + 1e-13, comfortable, comfortable_q }
}

// ---------------------------------------------------------------------------------------------
// library evaluation
// ---------------------------------------------------------------------------------------------

struct Vals<const D: usize> {
    vol: Res<f64>,
    inr: Res<f64>,
    cc: Res<[f64; D]>,
    cr: Res<f64>,
    crc: Res<f64>,
}

struct QVals {
    /// cell slot -> index into the input points
    order: Vec<usize>,
    rr: Res<f64>,
    nv: Res<f64>,
    surf: Res<f64>,
}

struct Cx<'a, const D: usize> {
    out: &'a mut Out,
    trk: &'a mut Track,
    base: &'a [[f64; D]],
    fam: &'a str,
    seed: u64,
}

impl<'a, const D: usize> Cx<'a, D> {
    fn doc(&self, function: &str, check: &str, eval: &[[f64; D]], expected: Value, got: Value, detail: Value) -> Value {
        json!({
            "property": P, "kind": "simplex", "D": D, "family": self.fam, "case_seed": self.seed.to_string(),
            "points": pts_json(self.base), "evaluated_points": pts_json(eval),
            "function": function, "check": check, "expected": expected, "got": got, "detail": detail,
        })
    }

    fn call<T, E: std::fmt::Display>(&mut self, name: &str, eval: &[[f64; D]], f: impl FnOnce() -> Result<T, E>) -> Res<T> {
        self.out.count(&format!("calls/{}", name));
        match guard(f) {
            Ok(Ok(v)) => Res::Ok(v),
            Ok(Err(e)) => Res::Err(e.to_string()),
            Err(pi) => {
                let d = self.doc(name, "panic", eval, Value::Null, json!("panic"), json!(pi.message));
                self.out.panic(P, &pi, name, d);
                Res::Panic
            }
        }
    }

    fn lib_vals(&mut self, pts: &[[f64; D]]) -> Vals<D> {
        let p: Vec<Point<f64, D>> = pts.iter().map(|c| Point::new(*c)).collect();
        let vol = self.call("simplex_volume", pts, || simplex_volume(&p));
        let inr = self.call("inradius", pts, || inradius(&p));
        let cc = self.call("circumcenter", pts, || circumcenter(&p).map(|c| *c.coords()));
        let cr = self.call("circumradius", pts, || circumradius(&p));
        let crc = match &cc {
            Res::Ok(c) if all_finite(c) => {
                let cp = Point::new(*c);
                self.call("circumradius_with_center", pts, || circumradius_with_center(&p, &cp))
            }
            _ => Res::Err("no finite centre".into()),
        };
        Vals { vol, inr, cc, cr, crc }
    }

    fn lib_facet(&mut self, pts: &[[f64; D]]) -> Res<f64> {
        let p: Vec<Point<f64, D>> = pts.iter().map(|c| Point::new(*c)).collect();
        self.call("facet_measure", pts, || facet_measure(&p))
    }

    /// One-cell triangulation of the D+1 points and the quality functions on its cell.
    fn lib_quality(&mut self, pts: &[[f64; D]]) -> Option<QVals> {
        if D < 2 {
            return None;
        }
        let mut ur = Rng::derive(self.seed, 0x18, 0x77);
        let verts: Vec<_> = pts.iter().map(|p| mk_vertex::<(), D>(*p, ur.uuid(), None)).collect();
        let dt = match guard(|| DelaunayTriangulation::<FastKernel<f64>, (), (), D>::new(&verts)) {
            Ok(Ok(dt)) => dt,
            Ok(Err(_)) => {
                self.out.count("quality/dt_construction_err");
                self.out.count(&format!("quality/dt_construction_err/{}", self.fam));
                return None;
            }
            Err(_) => {
                // construction panics belong to other properties; counted, not judged here
                self.out.count("quality/dt_construction_panic");
                return None;
            }
        };
        let cells: Vec<_> = dt.cells().collect();
        if cells.len() != 1 {
            self.out.count("quality/dt_not_one_cell");
            return None;
        }
        let (ck, cell) = (cells[0].0, cells[0].1);
        let mut order = Vec::with_capacity(D + 1);
        for vk in cell.vertices() {
            let Some(v) = dt.tds().get_vertex_by_key(*vk) else {
                self.out.count("quality/dt_vertex_missing");
                return None;
            };
            let c = *v.point().coords();
            let Some(i) = pts.iter().position(|p| p.iter().zip(c.iter()).all(|(a, b)| a.to_bits() == b.to_bits())) else {
                self.out.count("quality/dt_coordinates_changed");
                return None;
            };
            order.push(i);
        }
        let mut sorted = order.clone();
        sorted.sort();
        sorted.dedup();
        if sorted.len() != D + 1 {
            self.out.count("quality/dt_cell_not_all_vertices");
            return None;
        }
        let rr = self.call("radius_ratio", pts, || radius_ratio(dt.as_triangulation(), ck));
        let nv = self.call("normalized_volume", pts, || normalized_volume(dt.as_triangulation(), ck));
        let facets: Vec<_> = dt.boundary_facets().collect();
        let surf = if facets.len() == D + 1 {
            self.call("surface_measure", pts, || surface_measure(&facets))
        } else {
            self.out.count("quality/boundary_facets_not_dplus1");
            Res::Err("boundary facet count".into())
        };
        Some(QVals { order, rr, nv, surf })
    }

    // -----------------------------------------------------------------------------------------
    // judging one value
    // -----------------------------------------------------------------------------------------

    /// Common handling of Err / non-finite; returns the finite value when one is to be compared.
    fn triage(&mut self, name: &str, r: &Res<f64>, eval: &[[f64; D]], expect_ok: bool, expected: f64) -> Option<f64> {
        match r {
            Res::Ok(x) if x.is_finite() => Some(*x),
            Res::Ok(x) => {
                let d = self.doc(name, "finite", eval, json!(expected), json!(format!("{:?}", x)), Value::Null);
                self.out.violation(P, &format!("nonfinite/{}/D{}", name, D), format!("{} returned Ok({:?}) on a non-degenerate simplex (exact value ~{:e})", name, x, expected), d);
                None
            }
            Res::Err(e) => {
                if expect_ok {
                    let d = self.doc(name, "ok", eval, json!(expected), json!(format!("Err({})", e)), Value::Null);
                    self.out.violation(P, &format!("unexpected-err/{}/D{}", name, D), format!("{} returned Err({}) on a well-conditioned, comfortably sized non-degenerate simplex (exact value ~{:e})", name, e, expected), d);
                } else {
                    self.out.count(&format!("err_not_judged/{}", name));
                }
                None
            }
            Res::Panic => None,
        }
    }

    fn report_rel(&mut self, name: &str, check: &str, eval: &[[f64; D]], ok: bool, err: f64, tol: f64, expected: f64, got: f64) {
        self.trk.see(&format!("{}/{}", check, name), err / tol, self.fam, D);
        self.out.count(&format!("judged/{}/{}", check, name));
        if !ok {
            let d = self.doc(name, check, eval, json!(expected), json!(got), json!({"relerr": err, "allowed": tol}));
            self.out.violation(P, &format!("{}/{}/D{}", name, check, D), format!("{}: got {:e}, exact {:e}, relative error {:e} > allowed {:e}", name, got, expected, err, tol), d);
        }
    }

    /// Accuracy of the measures of `eval` (= a permutation of base, translated by `shift`) against
    /// the base oracle.
    fn check_acc(&mut self, o: &Oracle<D>, t: &Tol, eval: &[[f64; D]], shift: Option<&[f64; D]>, v: &Vals<D>) {
        let judge = !t.ill;
        // volume
        if let Some(x) = self.triage("volume", &v.vol, eval, t.comfortable, o.vol) {
            if judge {
                let lib = Dy::from_f64(x).mul(&Dy::from_i64(fact(D)));
                let (ok, err) = rel_exact(&lib, &o.det_abs, t.vol);
                self.report_rel("volume", "relerr", eval, ok && x > 0.0, err, t.vol, o.vol, x);
            }
        }
        // inradius
        if let Some(x) = self.triage("inradius", &v.inr, eval, t.comfortable, o.inr) {
            if judge {
                let err = (x - o.inr).abs() / o.inr;
                self.report_rel("inradius", "relerr", eval, err <= t.inr, err, t.inr, o.inr, x);
            }
        }
        // circumradius (both entry points)
        for (name, r) in [("circumradius", &v.cr), ("circumradius_with_center", &v.crc)] {
            let expect = t.comfortable && (name == "circumradius" || matches!(v.cc, Res::Ok(_)));
            if name == "circumradius_with_center" && !matches!(v.cc, Res::Ok(_)) {
                continue;
            }
            if let Some(x) = self.triage(name, r, eval, expect, o.radius) {
                if judge {
                    let xd = Dy::from_f64(x);
                    let lib = xd.mul(&xd).mul(&o.r2_den);
                    let tol2 = 2.0 * t.cr + t.cr * t.cr;
                    let (ok, err) = rel_exact(&lib, &o.r2_num, tol2);
                    self.report_rel(name, "relerr", eval, ok && x > 0.0, err / 2.0, tol2 / 2.0, o.radius, x);
                }
            }
        }
        // circumcentre
        match &v.cc {
            Res::Ok(c) if all_finite(c) => {
                if judge {
                    let mut worst = 0.0f64;
                    let mut bad: Option<(usize, f64, f64)> = None;
                    for j in 0..D {
                        let tj = shift.map(|s| s[j]).unwrap_or(0.0);
                        let lhs = Dy::from_f64(c[j]).sub(&Dy::from_f64(tj)).sub(&o.p0[j]).mul(&o.two_det).sub(&o.n[j]);
                        let err = ratio(&lhs.abs(), &o.two_det.abs());
                        let allowed = t.cc * o.radius.max((o.center[j] + tj).abs()).max(1e-300);
                        worst = worst.max(err / allowed);
                        if !(err <= allowed) && bad.is_none() {
                            bad = Some((j, err, allowed));
                        }
                    }
                    self.trk.see("abserr/circumcenter", worst, self.fam, D);
                    self.out.count("judged/abserr/circumcenter");
                    if let Some((j, err, allowed)) = bad {
                        let exp: Vec<f64> = (0..D).map(|k| o.center[k] + shift.map(|s| s[k]).unwrap_or(0.0)).collect();
                        let d = self.doc("circumcenter", "abserr", eval, json!(exp), json!(c.to_vec()), json!({"coordinate": j, "abserr": err, "allowed": allowed, "R": o.radius}));
                        self.out.violation(P, &format!("circumcenter/abserr/D{}", D), format!("circumcenter coordinate {}: got {:e}, exact {:e}, |error| {:e} > allowed {:e} (R = {:e})", j, c[j], exp[j], err, allowed, o.radius), d);
                    }
                }
            }
            Res::Ok(c) => {
                let d = self.doc("circumcenter", "finite", eval, json!(o.center.to_vec()), json!(format!("{:?}", c)), Value::Null);
                self.out.violation(P, &format!("nonfinite/circumcenter/D{}", D), format!("circumcenter returned Ok({:?}) on a non-degenerate simplex", c), d);
            }
            Res::Err(e) => {
                if t.comfortable {
                    let d = self.doc("circumcenter", "ok", eval, json!(o.center.to_vec()), json!(format!("Err({})", e)), Value::Null);
                    self.out.violation(P, &format!("unexpected-err/circumcenter/D{}", D), format!("circumcenter returned Err({}) on a well-conditioned non-degenerate simplex", e), d);
                } else {
                    self.out.count("err_not_judged/circumcenter");
                }
            }
            Res::Panic => {}
        }
    }

    fn check_quality(&mut self, o: &Oracle<D>, t: &Tol, eval: &[[f64; D]], q: &QVals) {
        let judge = !t.ill;
        let e_rr = o.radius / o.inr;
        let e_nv = o.vol / o.avg_edge.powi(D as i32);
        if let Some(x) = self.triage("radius_ratio", &q.rr, eval, t.comfortable_q, e_rr) {
            if judge {
                let err = (x - e_rr).abs() / e_rr;
                self.report_rel("radius_ratio", "relerr", eval, err <= t.rr, err, t.rr, e_rr, x);
            }
        }
        if let Some(x) = self.triage("normalized_volume", &q.nv, eval, t.comfortable_q, e_nv) {
            if judge {
                let err = (x - e_nv).abs() / e_nv;
                self.report_rel("normalized_volume", "relerr", eval, err <= t.nv, err, t.nv, e_nv, x);
            }
        }
        if let Some(x) = self.triage("surface_measure", &q.surf, eval, t.comfortable, o.surf) {
            if judge {
                let tol = o.facet_kappa.iter().map(|&k| rel_base(k, D)).fold(0.0, f64::max) + 1e-12;
                if tol <= 1e-2 {
                    let err = (x - o.surf).abs() / o.surf;
                    self.report_rel("surface_measure", "relerr", eval, err <= tol, err, tol, o.surf, x);
                }
            }
        }
    }

    fn pair(&mut self, name: &str, check: &str, eval: &[[f64; D]], a: f64, b: f64, tol: f64, what: &str) {
        let err = (a - b).abs() / a.abs().max(b.abs()).max(f64::MIN_POSITIVE);
        self.trk.see(&format!("{}/{}", check, name), err / tol, self.fam, D);
        self.out.count(&format!("judged/{}/{}", check, name));
        if !(err <= tol) {
            let d = self.doc(name, check, eval, json!(a), json!(b), json!({"relerr": err, "allowed": tol, "what": what}));
            self.out.violation(P, &format!("{}/{}/D{}", check, name, D), format!("{} {}: {:e} vs {:e}, relative difference {:e} > allowed {:e}", name, what, a, b, err, tol), d);
        }
    }
}

// ---------------------------------------------------------------------------------------------
// judging a case
// ---------------------------------------------------------------------------------------------

fn permuted<const D: usize>(pts: &[[f64; D]], perm: &[usize]) -> Vec<[f64; D]> {
    perm.iter().map(|&i| pts[i]).collect()
}

fn exact_translate<const D: usize>(pts: &[[f64; D]], t: &[f64; D]) -> Option<Vec<[f64; D]>> {
    let mut outp = Vec::with_capacity(pts.len());
    for p in pts {
        let mut r = [0.0; D];
        for j in 0..D {
            let s = p[j] + t[j];
            if !s.is_finite() || Dy::from_f64(p[j]).add(&Dy::from_f64(t[j])).cmp_f64(s) != Ordering::Equal {
                return None;
            }
            r[j] = s;
        }
        outp.push(r);
    }
    Some(outp)
}

fn exact_scale<const D: usize>(pts: &[[f64; D]], k: i32) -> Option<Vec<[f64; D]>> {
    let f = 2f64.powi(k);
    let mut outp = Vec::with_capacity(pts.len());
    for p in pts {
        let mut r = [0.0; D];
        for j in 0..D {
            let s = p[j] * f;
            if !s.is_finite() || Dy::from_f64(p[j]).mul_pow2(k as i64).cmp_f64(s) != Ordering::Equal {
                return None;
            }
            r[j] = s;
        }
        outp.push(r);
    }
    Some(outp)
}

fn judge_nondeg<const D: usize>(cx: &mut Cx<D>, o: &Oracle<D>, rng: &mut Rng, nperm: usize) {
    let base: Vec<[f64; D]> = cx.base.to_vec();
    let t = tolerances(o, 0.0);
    if t.ill {
        cx.out.count("skipped_ill_conditioned");
        cx.out.count(&format!("skipped_ill_conditioned/{}", cx.fam));
    } else {
        cx.out.count("judged_simplices");
    }
    if t.comfortable {
        cx.out.count("comfortable_simplices");
    }
    // ---- accuracy under vertex permutations ----
    let mut perms: Vec<Vec<usize>> = vec![(0..=D).collect()];
    while perms.len() < nperm {
        let mut p: Vec<usize> = (0..=D).collect();
        rng.shuffle(&mut p);
        if !perms.contains(&p) {
            perms.push(p);
        } else if fact(D + 1) as usize <= perms.len() {
            break;
        }
    }
    let mut vals: Vec<Vals<D>> = Vec::with_capacity(perms.len());
    for perm in &perms {
        let e = permuted(&base, perm);
        let v = cx.lib_vals(&e);
        cx.check_acc(o, &t, &e, None, &v);
        vals.push(v);
    }
    if !t.ill && vals.len() > 1 {
        // explicit permutation invariance: spread over the sampled orders
        type Getter<const D: usize> = fn(&Vals<D>) -> Option<f64>;
        let getters: [(&str, Getter<D>, f64); 3] = [("volume", |v| v.vol.ok(), t.vol), ("inradius", |v| v.inr.ok(), t.inr), ("circumradius", |v| v.cr.ok(), t.cr)];
        for (name, get, tol) in getters {
            let xs: Vec<f64> = vals.iter().filter_map(get).filter(|x| x.is_finite()).collect();
            if xs.len() > 1 {
                let mn = xs.iter().cloned().fold(f64::INFINITY, f64::min);
                let mx = xs.iter().cloned().fold(f64::NEG_INFINITY, f64::max);
                cx.pair(name, "perm", &base, mn, mx, 4.0 * tol, "extremes over vertex permutations");
            }
        }
        let cs: Vec<[f64; D]> = vals.iter().filter_map(|v| v.cc.ok()).filter(all_finite).collect();
        if cs.len() > 1 {
            let mut worst = 0.0f64;
            let mut bad = None;
            for j in 0..D {
                let mn = cs.iter().map(|c| c[j]).fold(f64::INFINITY, f64::min);
                let mx = cs.iter().map(|c| c[j]).fold(f64::NEG_INFINITY, f64::max);
                let allowed = 4.0 * t.cc * o.radius.max(o.center[j].abs());
                worst = worst.max((mx - mn) / allowed);
                if !(mx - mn <= allowed) && bad.is_none() {
                    bad = Some((j, mn, mx, allowed));
                }
            }
            cx.trk.see("perm/circumcenter", worst, cx.fam, D);
            cx.out.count("judged/perm/circumcenter");
            if let Some((j, mn, mx, allowed)) = bad {
                let d = cx.doc("circumcenter", "perm", &base, json!(o.center.to_vec()), json!([mn, mx]), json!({"coordinate": j, "allowed": allowed}));
                cx.out.violation(P, &format!("perm/circumcenter/D{}", D), format!("circumcenter coordinate {} varies over vertex permutations from {:e} to {:e} (allowed spread {:e})", j, mn, mx, allowed), d);
            }
        }
    }
    // ---- facets ----
    let mut facet_vals: Vec<Option<f64>> = vec![None; D + 1];
    if D >= 2 {
        for i in 0..=D {
            let f: Vec<[f64; D]> = (0..=D).filter(|&k| k != i).map(|k| base[k]).collect();
            let tolf = rel_base(o.facet_kappa[i], D);
            let illf = !(o.facet_kappa[i] <= 1e6) || !(tolf <= 1e-2);
            let comfy = t.comfortable && o.facet_kappa[i] <= 1e4;
            let mut orders = vec![f.clone()];
            let mut g = f.clone();
            rng.shuffle(&mut g);
            orders.push(g);
            let mut got: Vec<Option<f64>> = vec![None; orders.len()];
            for (oi, e) in orders.iter().enumerate() {
                let r = cx.lib_facet(e);
                if let Some(x) = cx.triage("facet_measure", &r, e, comfy, o.facet[i]) {
                    if !illf {
                        let xd = Dy::from_f64(x);
                        let ff = Dy::from_i64(fact(D - 1));
                        let lib = xd.mul(&xd).mul(&ff).mul(&ff);
                        let tol2 = 2.0 * tolf + tolf * tolf;
                        let (ok, err) = rel_exact(&lib, &o.facet_g[i], tol2);
                        cx.report_rel("facet_measure", "relerr", e, ok && x > 0.0, err / 2.0, tol2 / 2.0, o.facet[i], x);
                    }
                    got[oi] = Some(x);
                }
            }
            if let (false, Some(a), Some(b)) = (illf, got[0], got[1]) {
                cx.pair("facet_measure", "perm", &orders[1], a, b, 4.0 * tolf, "two vertex orders");
            }
            // the scaling law is checked against the value for the ORIGINAL vertex order only
            facet_vals[i] = got[0];
        }
    } else {
        // D = 1: the library documents the 0-dimensional facet measure as 0 (not judged)
        let r = cx.lib_facet(&base[..1]);
        match r {
            Res::Ok(x) if x == 0.0 => cx.out.count("facet_measure/D1_documented_zero"),
            Res::Ok(_) => cx.out.count("facet_measure/D1_nonzero_not_judged"),
            _ => cx.out.count("facet_measure/D1_err_not_judged"),
        }
    }
    // ---- quality ratios through a one-cell triangulation ----
    let mut q_base: Option<QVals> = None;
    if D >= 2 {
        let mut qs: Vec<(Vec<usize>, QVals)> = Vec::new();
        for (pi, perm) in perms.iter().take(2).enumerate() {
            let e = permuted(&base, perm);
            if let Some(mut q) = cx.lib_quality(&e) {
                cx.check_quality(o, &t, &e, &q);
                // order relative to the base indexing
                q.order = q.order.iter().map(|&k| perm[k]).collect();
                qs.push((perm.clone(), q));
            }
            let _ = pi;
        }
        if !t.ill && qs.len() == 2 {
            if let (Some(a), Some(b)) = (qs[0].1.rr.ok(), qs[1].1.rr.ok()) {
                if a.is_finite() && b.is_finite() {
                    cx.pair("radius_ratio", "perm", &base, a, b, 4.0 * t.rr, "two input orders");
                }
            }
            if let (Some(a), Some(b)) = (qs[0].1.nv.ok(), qs[1].1.nv.ok()) {
                if a.is_finite() && b.is_finite() {
                    cx.pair("normalized_volume", "perm", &base, a, b, 4.0 * t.nv, "two input orders");
                }
            }
        }
        if !qs.is_empty() && qs[0].0 == perms[0] {
            q_base = Some(qs.remove(0).1);
        }
    }
    let v0 = &vals[0];
    // ---- translation ----
    if !t.ill {
        let lg = o.max_edge.log2().floor() as i32;
        let mut done = false;
        // lowest set bit over all coordinates: translations by multiples of it are the ones most
        // likely to be exact for full-mantissa inputs
        let e_min = base.iter().flat_map(|p| p.iter()).filter(|x| **x != 0.0).map(|x| Dy::from_f64(*x).e).min().unwrap_or(0) as i32;
        for phase in 0..2 {
        for attempt in (if phase == 0 { 0..6 } else { 6..10 }) {
            let s = match attempt {
                0 | 1 => lg + rng.range_i64(-2, 6) as i32,
                2 | 3 => e_min + rng.range_i64(0, 12) as i32,
                4 | 5 => e_min + rng.range_i64(0, 2) as i32,
                // far translations (S518): 2^12..2^24 edge lengths away. Formulas that multiply absolute
                // coordinates before subtracting lose (offset/edge)^2 ulps; the allowance below grows only
                // linearly with the offset. Exact only for inputs with short mantissas (else skipped).
                _ => lg + rng.range_i64(12, 24) as i32,
            };
            if attempt >= 6 {
                cx.out.count("translation/far/attempts");
            }
            if !(-900..=900).contains(&s) {
                continue;
            }
            let mut tv = [0.0; D];
            for x in tv.iter_mut() {
                *x = rng.range_i64(-8, 8) as f64 * 2f64.powi(s);
            }
            if tv.iter().all(|x| *x == 0.0) {
                continue;
            }
            let Some(e) = exact_translate(&base, &tv) else { continue };
            done = true;
            let tn = tv.iter().map(|x| x * x).sum::<f64>().sqrt();
            let widen = 1.0 + tn / o.max_edge;
            let tt = tolerances(o, tn * 2.0);
            let v = cx.lib_vals(&e);
            cx.out.count("translation/cases");
            if attempt >= 6 {
                cx.out.count("translation/far/cases");
            }
            if !tt.ill {
                cx.check_acc(o, &tt, &e, Some(&tv), &v);
            }
            let pairs: [(&str, Option<f64>, Option<f64>, f64); 3] = [("volume", v0.vol.ok(), v.vol.ok(), t.vol), ("inradius", v0.inr.ok(), v.inr.ok(), t.inr), ("circumradius", v0.cr.ok(), v.cr.ok(), t.cr)];
            for (name, a, b, tol) in pairs {
                if let (Some(a), Some(b)) = (a, b) {
                    if a.is_finite() && b.is_finite() {
                        cx.pair(name, "translate", &e, a, b, 4.0 * tol * widen, "original vs translated");
                    }
                }
            }
            if let (Some(a), Some(b)) = (v0.cc.ok(), v.cc.ok()) {
                if all_finite(&a) && all_finite(&b) {
                    let mut worst = 0.0f64;
                    let mut bad = None;
                    for j in 0..D {
                        let diff = ((b[j] - tv[j]) - a[j]).abs();
                        let allowed = 4.0 * t.cc * widen * o.radius.max(o.center[j].abs()).max((o.center[j] + tv[j]).abs());
                        worst = worst.max(diff / allowed);
                        if !(diff <= allowed) && bad.is_none() {
                            bad = Some((j, diff, allowed));
                        }
                    }
                    cx.trk.see("translate/circumcenter", worst, cx.fam, D);
                    cx.out.count("judged/translate/circumcenter");
                    if let Some((j, diff, allowed)) = bad {
                        let d = cx.doc("circumcenter", "translate", &e, json!(a.to_vec()), json!(b.to_vec()), json!({"coordinate": j, "t": tv.to_vec(), "diff": diff, "allowed": allowed}));
                        cx.out.violation(P, &format!("translate/circumcenter/D{}", D), format!("circumcenter coordinate {} moves by {:e} more than the translation (allowed {:e})", j, diff, allowed), d);
                    }
                }
            }
            // ratios
            if let Some(qb) = &q_base {
                if let Some(q) = cx.lib_quality(&e) {
                    if !tt.ill {
                        cx.check_quality(o, &tt, &e, &q);
                    }
                    if let (Some(a), Some(b)) = (qb.rr.ok(), q.rr.ok()) {
                        if a.is_finite() && b.is_finite() {
                            cx.pair("radius_ratio", "translate", &e, a, b, 4.0 * t.rr * widen, "original vs translated");
                        }
                    }
                    if let (Some(a), Some(b)) = (qb.nv.ok(), q.nv.ok()) {
                        if a.is_finite() && b.is_finite() {
                            cx.pair("normalized_volume", "translate", &e, a, b, 4.0 * t.nv * widen, "original vs translated");
                        }
                    }
                }
            }
            break;
        }
        }
        if !done {
            cx.out.count("translation/skipped_no_exact_translation");
        }
    }
    // ---- uniform scaling by 2^k ----
    if o.kappa <= 1e3 && !t.ill {
        let lo = ((1e-3 / o.min_edge).log2().ceil() as i64 + 1).max(-20);
        let hi = ((1e3 / o.max_edge).log2().floor() as i64 - 1).min(20);
        let ks: Vec<i64> = (lo..=hi).filter(|&k| k != 0).collect();
        if ks.is_empty() {
            cx.out.count("scaling/skipped_out_of_regime");
        } else {
            let k = *rng.pick(&ks) as i32;
            if let Some(e) = exact_scale(&base, k) {
                cx.out.count("scaling/cases");
                let v = cx.lib_vals(&e);
                let f = 2f64.powi(k);
                let scal = |cx: &mut Cx<D>, name: &str, a: Option<f64>, b: Option<f64>, pw: i32| match (a, b) {
                    (Some(a), Some(b)) if a.is_finite() && b.is_finite() => {
                        let want = a * f.powi(pw);
                        if want.to_bits() == b.to_bits() {
                            cx.out.count("bit_exact_scaling");
                            cx.out.count(&format!("bit_exact_scaling/{}", name));
                        } else {
                            cx.out.count(&format!("not_bit_exact_scaling/{}", name));
                        }
                        cx.pair(name, "scale", &e, want, b, SCALE_TOL, &format!("value * 2^({}*{}) vs value of the scaled simplex", k, pw));
                    }
                    (Some(_), None) | (None, Some(_)) => cx.out.count(&format!("scaling/not_judged_err_one_side/{}", name)),
                    _ => cx.out.count(&format!("scaling/not_judged_err_both/{}", name)),
                };
                scal(cx, "volume", v0.vol.ok(), v.vol.ok(), D as i32);
                scal(cx, "inradius", v0.inr.ok(), v.inr.ok(), 1);
                scal(cx, "circumradius", v0.cr.ok(), v.cr.ok(), 1);
                if D >= 2 {
                    for i in 0..=D {
                        let fp: Vec<[f64; D]> = (0..=D).filter(|&j| j != i).map(|j| e[j]).collect();
                        let r = cx.lib_facet(&fp);
                        scal(cx, "facet_measure", facet_vals[i], r.ok(), D as i32 - 1);
                    }
                }
                if let (Some(a), Some(b)) = (v0.cc.ok(), v.cc.ok()) {
                    if all_finite(&a) && all_finite(&b) {
                        let mut worst = 0.0f64;
                        let mut bad = None;
                        let mut exact_all = true;
                        for j in 0..D {
                            let want = a[j] * f;
                            if want.to_bits() != b[j].to_bits() && !(want == 0.0 && b[j] == 0.0) {
                                exact_all = false;
                            }
                            let diff = (want - b[j]).abs();
                            let allowed = SCALE_TOL * f * o.radius.max(o.center[j].abs());
                            worst = worst.max(diff / allowed);
                            if !(diff <= allowed) && bad.is_none() {
                                bad = Some((j, want, b[j], allowed));
                            }
                        }
                        if exact_all {
                            cx.out.count("bit_exact_scaling");
                            cx.out.count("bit_exact_scaling/circumcenter");
                        } else {
                            cx.out.count("not_bit_exact_scaling/circumcenter");
                        }
                        cx.trk.see("scale/circumcenter", worst, cx.fam, D);
                        cx.out.count("judged/scale/circumcenter");
                        if let Some((j, want, got, allowed)) = bad {
                            let d = cx.doc("circumcenter", "scale", &e, json!(want), json!(got), json!({"coordinate": j, "k": k, "allowed": allowed}));
                            cx.out.violation(P, &format!("scale/circumcenter/D{}", D), format!("circumcenter coordinate {} of the simplex scaled by 2^{}: expected {:e}, got {:e} (allowed {:e})", j, k, want, got, allowed), d);
                        }
                    }
                }
                if let Some(qb) = &q_base {
                    if let Some(q) = cx.lib_quality(&e) {
                        let same = q.order == qb.order;
                        cx.out.count(if same { "scaling/quality_same_cell_order" } else { "scaling/quality_different_cell_order" });
                        for (name, a, b, tperm) in [("radius_ratio", qb.rr.ok(), q.rr.ok(), t.rr), ("normalized_volume", qb.nv.ok(), q.nv.ok(), t.nv)] {
                            match (a, b) {
                                (Some(a), Some(b)) if a.is_finite() && b.is_finite() => {
                                    if a.to_bits() == b.to_bits() {
                                        cx.out.count("bit_exact_scaling");
                                        cx.out.count(&format!("bit_exact_scaling/{}", name));
                                    } else {
                                        cx.out.count(&format!("not_bit_exact_scaling/{}", name));
                                    }
                                    let tol = if same { SCALE_TOL } else { 4.0 * tperm };
                                    cx.pair(name, "scale", &e, a, b, tol, &format!("ratio before vs after scaling by 2^{}", k));
                                }
                                (None, None) => cx.out.count(&format!("scaling/not_judged_err_both/{}", name)),
                                _ => cx.out.count(&format!("scaling/not_judged_err_one_side/{}", name)),
                            }
                        }
                    }
                }
            } else {
                cx.out.count("scaling/skipped_inexact");
            }
        }
    }
}

/// Gram path (`simplex_volume` for D >= 4): `vol = sqrt(det G) / D!`, `G_ij = e_i . e_j`, `e_i = p_i - p_0`,
/// determinant by LDLT *without pivoting*, which is documented to report "singular" as soon as a pivot is
/// `<= 1e-12`. The product of the first k pivots is the k-th leading minor, so when the exact Gram matrix
/// loses rank only in its last step, a finite answer `v` implies a last pivot
/// `g = (v D!)^2 / M_{D-1}` (exact leading minor). Returns `g` when that is decidable.
fn implied_last_gram_pivot<const D: usize>(pts: &[[f64; D]], v: f64) -> Option<f64> {
    use crate::exact::{Dy, det};
    if D < 4 || pts.len() != D + 1 || !v.is_finite() {
        return None;
    }
    let e: Vec<Vec<Dy>> = (1..=D).map(|i| (0..D).map(|j| Dy::from_f64(pts[i][j]).sub(&Dy::from_f64(pts[0][j]))).collect()).collect();
    let dot = |a: &Vec<Dy>, b: &Vec<Dy>| a.iter().zip(b.iter()).fold(Dy::zero(), |acc, (x, y)| acc.add(&x.mul(y)));
    let g: Vec<Vec<Dy>> = (0..D).map(|i| (0..D).map(|j| dot(&e[i], &e[j])).collect()).collect();
    let minor = |k: usize| -> Dy { det(&g.iter().take(k).map(|r| r.iter().take(k).cloned().collect::<Vec<Dy>>()).collect::<Vec<_>>()) };
    for k in 1..D {
        if minor(k).is_zero() {
            return None; // rank lost earlier: the later pivots are not determined by the minors
        }
    }
    if !minor(D).is_zero() {
        return None;
    }
    let m = minor(D - 1).approx();
    let fact: f64 = (1..=D).map(|x| x as f64).product();
    let d = (v * fact) * (v * fact);
    if m > 0.0 && d.is_finite() { Some(d / m) } else { None }
}

fn degenerate_verdict<const D: usize>(cx: &mut Cx<D>, name: &str, eval: &[[f64; D]], r: &Res<f64>, zero_ok: bool) {
    cx.out.count(&format!("judged/degenerate/{}", name));
    match r {
        Res::Err(_) => cx.out.count(&format!("degenerate/{}/err_as_documented", name)),
        Res::Panic => {}
        Res::Ok(x) if !x.is_finite() => {
            let d = cx.doc(name, "degenerate", eval, json!("Err"), json!(format!("Ok({:?})", x)), Value::Null);
            cx.out.violation(P, &format!("degenerate/{}/ok-nonfinite", name), format!("{} returned Ok({:?}) on an exactly degenerate simplex (exact determinant 0)", name, x), d);
        }
        Res::Ok(x) if *x == 0.0 && zero_ok => cx.out.count(&format!("degenerate/{}/ok-zero", name)),
        Res::Ok(x) => {
            let d = cx.doc(name, "degenerate", eval, json!("Err"), json!(format!("Ok({:e})", x)), json!({"value": x}));
            cx.out.count(&format!("degenerate_ok_finite/{}/D{}/{}", name, D, cx.fam));
            // the recorded finding (a rounding-noise pivot above the absolute 1e-12 tolerance is accepted) cannot
            // explain an answer whose implied last pivot lies below that tolerance
            let below = if name == "simplex_volume" { implied_last_gram_pivot(eval, *x).filter(|g| *g < 1e-13) } else { None };
            match below {
                Some(g) => {
                    cx.out.count("degenerate_ok_finite/implied_pivot_below_tolerance");
                    cx.out.violation(P, &format!("degenerate/{}/ok-finite-pivot-below-tolerance", name), format!("{} returned Ok({:e}) on an exactly degenerate simplex; the Gram determinant this implies has a last LDLT pivot of about {:e}, below the documented singularity tolerance 1e-12 at which the factorisation reports a degenerate simplex", name, x, g), d);
                }
                None => cx.out.violation(P, &format!("degenerate/{}/ok-finite", name), format!("{} returned Ok({:e}) on an exactly degenerate simplex (exact determinant 0); documented behaviour is Err", name, x), d),
            }
        }
    }
}

fn judge_degenerate<const D: usize>(cx: &mut Cx<D>, rng: &mut Rng, nperm: usize) {
    let base: Vec<[f64; D]> = cx.base.to_vec();
    cx.out.count("degenerate_simplices");
    let mut perms: Vec<Vec<usize>> = vec![(0..=D).collect()];
    for _ in 1..nperm.min(4) {
        let mut p: Vec<usize> = (0..=D).collect();
        rng.shuffle(&mut p);
        if !perms.contains(&p) {
            perms.push(p);
        }
    }
    for perm in &perms {
        let e = permuted(&base, perm);
        let v = cx.lib_vals(&e);
        degenerate_verdict(cx, "simplex_volume", &e, &v.vol, true);
        degenerate_verdict(cx, "inradius", &e, &v.inr, false);
        degenerate_verdict(cx, "circumradius", &e, &v.cr, false);
        cx.out.count("judged/degenerate/circumcenter");
        match &v.cc {
            Res::Err(_) => cx.out.count("degenerate/circumcenter/err_as_documented"),
            Res::Panic => {}
            Res::Ok(c) if !all_finite(c) => {
                let d = cx.doc("circumcenter", "degenerate", &e, json!("Err"), json!(format!("Ok({:?})", c)), Value::Null);
                cx.out.violation(P, "degenerate/circumcenter/ok-nonfinite", format!("circumcenter returned Ok({:?}) on an exactly degenerate simplex", c), d);
            }
            Res::Ok(c) => {
                let d = cx.doc("circumcenter", "degenerate", &e, json!("Err"), json!(c.to_vec()), Value::Null);
                cx.out.count(&format!("degenerate_ok_finite/circumcenter/D{}/{}", D, cx.fam));
                cx.out.violation(P, "degenerate/circumcenter/ok-finite", format!("circumcenter returned Ok({:?}) on an exactly degenerate simplex (exact determinant 0); documented behaviour is Err", c), d);
            }
        }
    }
    if D >= 2 {
        match cx.lib_quality(&base) {
            None => cx.out.count("degenerate/quality_not_checkable_no_cell"),
            Some(q) => {
                degenerate_verdict(cx, "radius_ratio", &base, &q.rr, false);
                degenerate_verdict(cx, "normalized_volume", &base, &q.nv, false);
            }
        }
    }
}

/// D points of R^D that are exactly affinely dependent: facet_measure must fail.
fn judge_degenerate_facet<const D: usize>(cx: &mut Cx<D>, f: &[[f64; D]]) {
    let pd: Vec<Vec<Dy>> = f.iter().map(exact::dyv).collect();
    let refs: Vec<&Vec<Dy>> = pd.iter().collect();
    if !gram_det(&refs).is_zero() {
        cx.out.count("degenerate_facet/generator_miss");
        return;
    }
    cx.out.count("degenerate_facets");
    let r = cx.lib_facet(f);
    degenerate_verdict(cx, "facet_measure", f, &r, false);
}

fn judge_case<const D: usize>(out: &mut Out, trk: &mut Track, pts: &[[f64; D]], fam: &str, seed: u64, nperm: usize) {
    let mut rng = Rng::derive(seed, 0x18, D as u64);
    let mut cx = Cx::<D> { out, trk, base: pts, fam, seed };
    if pts.len() == D && D >= 2 {
        judge_degenerate_facet(&mut cx, pts);
        return;
    }
    if pts.len() != D + 1 || !pts.iter().all(all_finite) {
        cx.out.inconclusive("bad simplex");
        return;
    }
    match oracle(pts) {
        None => judge_degenerate(&mut cx, &mut rng, nperm),
        Some(o) => judge_nondeg(&mut cx, &o, &mut rng, nperm),
    }
}

// ---------------------------------------------------------------------------------------------
// generators (every coordinate is an exactly representable f64 by construction)
// ---------------------------------------------------------------------------------------------

fn grid_pt<const D: usize>(rng: &mut Rng, r: i64) -> [f64; D] {
    let mut p = [0.0; D];
    for x in p.iter_mut() {
        *x = rng.range_i64(-r, r) as f64;
    }
    p
}

fn gen_nondeg<const D: usize>(rng: &mut Rng) -> (Vec<[f64; D]>, &'static str) {
    let mode = rng.usize(9);
    let mut pts: Vec<[f64; D]> = Vec::with_capacity(D + 1);
    let name;
    match mode {
        0 => {
            name = "intgrid";
            for _ in 0..=D {
                pts.push(grid_pt::<D>(rng, 8));
            }
        }
        1 => {
            name = "dyadic";
            for _ in 0..=D {
                let mut p = [0.0; D];
                for x in p.iter_mut() {
                    *x = rng.range_i64(-1024, 1024) as f64 / 1024.0;
                }
                pts.push(p);
            }
        }
        2 => {
            name = "scaled";
            let k = [-40, -20, -10, 10, 20, 40][rng.usize(6)];
            let f = 2f64.powi(k);
            for _ in 0..=D {
                let mut p = [0.0; D];
                for x in p.iter_mut() {
                    *x = rng.range_i64(-32, 32) as f64 * f;
                }
                pts.push(p);
            }
        }
        3 => {
            name = "skinny";
            // D base points; the apex is a combination of them plus a tiny offset 2^-h * v
            for _ in 0..D {
                let mut p = [0.0; D];
                for x in p.iter_mut() {
                    *x = rng.range_i64(-1024, 1024) as f64 / 1024.0;
                }
                pts.push(p);
            }
            let mut apex = pts[0];
            for i in 1..D {
                let w = rng.range_i64(0, 3) as f64 / 8.0;
                for j in 0..D {
                    apex[j] += w * (pts[i][j] - pts[0][j]);
                }
            }
            let h = rng.range_i64(6, 20) as i32;
            for x in apex.iter_mut() {
                *x += rng.range_i64(-3, 3) as f64 * 2f64.powi(-h);
            }
            pts.push(apex);
        }
        4 => {
            name = "obtuse";
            let g = grid_pt::<D>(rng, 8);
            let a = rng.usize(D);
            pts.push(g);
            let mut p1 = g;
            p1[a] += 16.0;
            pts.push(p1);
            for _ in 2..=D {
                let mut p = g;
                for j in 0..D {
                    p[j] += if j == a { 8.0 + rng.range_i64(-3, 3) as f64 } else { rng.range_i64(-2, 2) as f64 };
                }
                pts.push(p);
            }
        }
        5 => {
            name = "regularish";
            let s = 2f64.powi(rng.range_i64(-3, 3) as i32);
            let c = (1.0 - ((D + 1) as f64).sqrt()) / D as f64;
            pts.push([s * c; D]);
            for i in 0..D {
                let mut p = [0.0; D];
                p[i] = s;
                pts.push(p);
            }
            if rng.bool() {
                for p in pts.iter_mut() {
                    for x in p.iter_mut() {
                        *x += s * rng.range_i64(-64, 64) as f64 / 4096.0;
                    }
                }
            }
        }
        6 => {
            name = "rightcorner";
            let g = grid_pt::<D>(rng, 8);
            let f = if rng.chance(1, 3) { 2f64.powi(rng.range_i64(-8, 8) as i32) } else { 1.0 };
            let g = g.map(|x| x * f);
            pts.push(g);
            for i in 0..D {
                let mut p = g;
                let a = rng.range_i64(1, 8) as f64 * if rng.bool() { 1.0 } else { -1.0 };
                p[i] += a * f;
                pts.push(p);
            }
        }
        7 => {
            name = "uniform53";
            for _ in 0..=D {
                let mut p = [0.0; D];
                for x in p.iter_mut() {
                    *x = rng.f64() * 2.0 - 1.0;
                }
                pts.push(p);
            }
        }
        _ => {
            name = "offset";
            let off = [1048576.0, -1048576.0, 65536.0, 16777216.0][rng.usize(4)];
            let mut o = [0.0; D];
            for x in o.iter_mut() {
                *x = if rng.chance(1, 4) { -off } else { off };
            }
            for _ in 0..=D {
                let mut p = grid_pt::<D>(rng, 8);
                for j in 0..D {
                    p[j] += o[j];
                }
                pts.push(p);
            }
        }
    }
    rng.shuffle(&mut pts);
    (pts, name)
}

fn gen_degenerate<const D: usize>(rng: &mut Rng) -> (Vec<[f64; D]>, &'static str) {
    let mode = if D == 1 { 0 } else { rng.usize(6) };
    let mut pts: Vec<[f64; D]>;
    let name;
    match mode {
        0 => {
            name = "deg_repeated";
            pts = gen_nondeg::<D>(rng).0;
            let i = rng.usize(D + 1);
            let mut j = rng.usize(D + 1);
            if j == i {
                j = (i + 1) % (D + 1);
            }
            pts[j] = pts[i];
        }
        1 | 2 => {
            // last point in the affine hull of the first D (small integer coefficients)
            pts = (0..D).map(|_| grid_pt::<D>(rng, 4)).collect();
            let mut last = pts[0];
            for i in 1..D {
                let c = rng.range_i64(-2, 2) as f64;
                for j in 0..D {
                    last[j] += c * (pts[i][j] - pts[0][j]);
                }
            }
            pts.push(last);
            if mode == 1 {
                name = "deg_affine_grid";
            } else if rng.bool() {
                name = "deg_affine_scaled";
                let f = 2f64.powi([-20, -10, 10, 20][rng.usize(4)]);
                for p in pts.iter_mut() {
                    for x in p.iter_mut() {
                        *x *= f;
                    }
                }
            } else {
                name = "deg_affine_offset";
                let off = [1048576.0, 65536.0, -1048576.0][rng.usize(3)];
                for p in pts.iter_mut() {
                    for x in p.iter_mut() {
                        *x += off;
                    }
                }
            }
        }
        3 => {
            name = "deg_hyperplane";
            pts = Vec::new();
            for _ in 0..=D {
                let mut p = grid_pt::<D>(rng, 8);
                let s: f64 = p.iter().take(D - 1).sum();
                p[D - 1] = 3.0 - s;
                pts.push(p);
            }
        }
        4 => {
            name = "deg_midpoint";
            pts = Vec::new();
            for _ in 0..D {
                let mut p = [0.0; D];
                for x in p.iter_mut() {
                    *x = rng.range_i64(-1024, 1024) as f64 / 1024.0;
                }
                pts.push(p);
            }
            let mut m = [0.0; D];
            for j in 0..D {
                m[j] = (pts[0][j] + pts[1][j]) / 2.0;
            }
            pts.push(m);
        }
        _ => {
            // collinear triple p0, p0+v, p0+3v: elimination multipliers 1/3 are inexact
            name = "deg_thirds";
            pts = Vec::new();
            let g = grid_pt::<D>(rng, 6);
            let mut v = grid_pt::<D>(rng, 4);
            if v.iter().all(|x| *x == 0.0) {
                v[0] = 1.0;
            }
            let m = [3.0, 5.0, 7.0, 6.0][rng.usize(4)];
            pts.push(g);
            let mut a = g;
            let mut b = g;
            for j in 0..D {
                a[j] += v[j];
                b[j] += m * v[j];
            }
            pts.push(a);
            pts.push(b);
            while pts.len() < D + 1 {
                pts.push(grid_pt::<D>(rng, 8));
            }
            if rng.chance(1, 3) {
                let off = [1048576.0, 1024.0][rng.usize(2)];
                for p in pts.iter_mut() {
                    for x in p.iter_mut() {
                        *x += off;
                    }
                }
            }
        }
    }
    rng.shuffle(&mut pts);
    (pts, name)
}

/// D affinely dependent points of R^D (D >= 2).
fn gen_degenerate_facet<const D: usize>(rng: &mut Rng) -> (Vec<[f64; D]>, &'static str) {
    let mut pts: Vec<[f64; D]>;
    if D == 2 || rng.chance(1, 4) {
        pts = (0..D).map(|_| grid_pt::<D>(rng, 8)).collect();
        let i = rng.usize(D);
        let j = (i + 1 + rng.usize(D - 1)) % D;
        pts[j] = pts[i];
    } else {
        pts = (0..D - 1).map(|_| grid_pt::<D>(rng, 4)).collect();
        let mut last = pts[0];
        for i in 1..D - 1 {
            let c = rng.range_i64(-2, 3) as f64;
            for j in 0..D {
                last[j] += c * (pts[i][j] - pts[0][j]);
            }
        }
        pts.push(last);
        match rng.usize(3) {
            0 => {}
            1 => {
                let f = 2f64.powi([-10, 10, 20][rng.usize(3)]);
                for p in pts.iter_mut() {
                    for x in p.iter_mut() {
                        *x *= f;
                    }
                }
            }
            _ => {
                for p in pts.iter_mut() {
                    for x in p.iter_mut() {
                        *x += 1048576.0;
                    }
                }
            }
        }
    }
    rng.shuffle(&mut pts);
    (pts, "deg_facet")
}

// ---------------------------------------------------------------------------------------------
// driver
// ---------------------------------------------------------------------------------------------

fn run_chunk<const D: usize>(ctx: &Ctx, out: &mut Out, trk: &mut Track, n: u64, case0: u64, nperm: usize) {
    for i in 0..n {
        if ctx.out_of_time() {
            out.count("stopped_by_budget");
            return;
        }
        let seed = ctx.case_seed(((D as u64) << 40) + case0 + i);
        let mut rng = Rng::new(seed);
        let roll = rng.usize(20);
        let (pts, fam) = if roll < 3 {
            gen_degenerate::<D>(&mut rng)
        } else if roll == 3 && D >= 2 {
            gen_degenerate_facet::<D>(&mut rng)
        } else {
            gen_nondeg::<D>(&mut rng)
        };
        out.eval();
        out.count(&format!("family/D{}/{}", D, fam));
        out.count(&format!("cases/D{}", D));
        if nontrivial(&pts) {
            out.nontrivial(&ident(&pts));
        }
        if i == 0 && case0 == 0 && D >= 2 && D <= 3 {
            out.sample(json!({"D": D, "family": fam, "points": pts.iter().map(|p| p.to_vec()).collect::<Vec<_>>(), "permutations": nperm}));
        }
        judge_case::<D>(out, trk, &pts, fam, seed, nperm);
    }
}

fn parse_pt<const D: usize>(v: &Value) -> Option<[f64; D]> {
    let b = v.get("bits")?.as_array()?;
    if b.len() != D {
        return None;
    }
    let mut p = [0.0; D];
    for (i, x) in b.iter().enumerate() {
        p[i] = f64::from_bits(u64::from_str_radix(x.as_str()?, 16).ok()?);
    }
    Some(p)
}

fn replay_one<const D: usize>(doc: &Value, out: &mut Out, trk: &mut Track) {
    let pts: Vec<[f64; D]> = doc["points"].as_array().map(|a| a.iter().filter_map(parse_pt::<D>).collect()).unwrap_or_default();
    if !(pts.len() == D + 1 || (pts.len() == D && D >= 2)) {
        out.inconclusive("bad replay document");
        return;
    }
    let seed = doc.get("case_seed").and_then(|v| v.as_str()).and_then(|s| s.parse::<u64>().ok()).unwrap_or(0);
    let fam = doc.get("family").and_then(|v| v.as_str()).unwrap_or("replay").to_string();
    let nperm = doc.get("nperm").and_then(|v| v.as_u64()).unwrap_or(24) as usize;
    out.eval();
    judge_case::<D>(out, trk, &pts, &fam, seed, nperm);
}

pub fn run(ctx: &Ctx, out: &mut Out) {
    let mut trk = Track::default();
    if let Some(doc) = &ctx.replay {
        match doc["D"].as_u64() {
            Some(1) => replay_one::<1>(doc, out, &mut trk),
            Some(2) => replay_one::<2>(doc, out, &mut trk),
            Some(3) => replay_one::<3>(doc, out, &mut trk),
            Some(4) => replay_one::<4>(doc, out, &mut trk),
            Some(5) => replay_one::<5>(doc, out, &mut trk),
            _ => out.inconclusive("bad replay document"),
        }
    } else {
        let nperm = if ctx.tier == Tier::Thorough { 24 } else { 6 };
        let cap = (if ctx.tier == Tier::Thorough { 2_000_000.0 } else { 36_000.0 } * ctx.scale) as u64;
        let mut done = 0u64;
        let mut round = 0u64;
        out.exhaustive = Some(false);
        while !ctx.out_of_time() && done < cap {
            let c0 = round * 1000;
            run_chunk::<1>(ctx, out, &mut trk, 20, c0, nperm);
            run_chunk::<2>(ctx, out, &mut trk, 100, c0, nperm);
            run_chunk::<3>(ctx, out, &mut trk, 100, c0, nperm);
            run_chunk::<4>(ctx, out, &mut trk, 80, c0, nperm);
            run_chunk::<5>(ctx, out, &mut trk, 60, c0, nperm);
            done += 360;
            round += 1;
        }
    }
    let worst: Vec<String> = trk.worst.iter().map(|(k, v)| format!("{}={:.3e}[{}]", k, v.0, v.1)).collect();
    out.notes.push(format!("worst observed error/allowance per check: {}", worst.join(", ")));
    out.notes.push("definitions found in quality.rs: radius_ratio = circumradius / inradius (no 1/D normalisation); normalized_volume = volume / (mean edge length)^D (no constant)".to_string());
}
