//! C19 — no panic and bounded work on any finite input.
//!
//! (a) an adversarial-argument fuzz of the public API (handles of any provenance, extreme
//! magnitudes, non-finite coordinates, incompatible policy combinations, validators on corrupted
//! complexes), every call under `catch_unwind` and under a *work limit* on the library's tick
//! counters (H3): exceeding the limit makes the hook panic inside the library call, which is
//! reported as "work-limit". (b) slices of the other monitors' workloads, harvesting the
//! panics they observe. Process crashes (stack overflow, abort) are detected by the driver.

use super::c02::start_dt;
use crate::api::{Kn, mk_vertex};
use crate::common::{Ctx, Out, PanicInfo, Tier, guard};
use crate::r#gen::{self as g, ALL_FAMILIES};
use crate::hist::{self, Mix, Op, Res};
use crate::model::RefModel;
use crate::rng::Rng;
use crate::tri::{self, Dt, GUARANTEES, Opts};
use delaunay::geometry::kernel::{FastKernel, Kernel, RobustKernel};
use delaunay::verif;
use serde_json::{Value, json};
use std::io::Write;

const P: &str = "C19";

/// Ceiling for the number of ticks one public call may consume, assembled from the documented
/// budgets with a fixed slack of 4.
pub fn work_ceiling<const D: usize>(verts: usize, cells: usize) -> u64 {
    let debug = cfg!(debug_assertions);
    let cells = cells.max(1) as u64;
    let verts = verts as u64 + 2;
    let d1 = D as u64 + 1;
    // flips per repair attempt (flips.rs default_max_flips); the triangulation can grow while a
    // call runs, so size it for 4x the current cell count plus the cells D+1 new vertices can add
    let grown = cells * 4 + 64 * d1 * d1;
    let max_flips = if debug { if D >= 4 { (grown * d1 * 4).max(4096) } else { (grown * d1 * if D == 3 { 8 } else { 4 }).max(512) } } else { (grown * d1 * 4).max(512) };
    // every applied flip is preceded by queue steps; a queue step re-enqueues O(D^2) items
    let repair_run = 3 * max_flips * (2 + 4 * d1 * d1);
    let locate = 10_000 + grown + 16;
    let conflict = grown * 4;
    let insert_once = 2 * (3 * locate + conflict + 32 + 64) + 2 * repair_run;
    let rebuild_attempts: u64 = if debug { 6 } else { 2 };
    let rebuild = rebuild_attempts * (verts * insert_once + repair_run);
    4 * (insert_once + 2 * repair_run + rebuild)
}

fn is_work_limit(pi: &PanicInfo) -> bool {
    pi.message.starts_with("verif: work limit exceeded")
}

fn progress(line: &str) {
    if let Ok(p) = std::env::var("DVERIF_PROGRESS") {
        if let Ok(mut f) = std::fs::OpenOptions::new().create(true).write(true).truncate(true).open(p) {
            let _ = f.write_all(line.as_bytes());
        }
    }
}

fn has_nonfinite<const D: usize>(m: &RefModel<D>) -> bool {
    m.verts.iter().any(|v| v.p.iter().any(|x| !x.is_finite()))
}

/// Hostile operation generator: like hist::next_op but with extreme values.
fn hostile_op<const D: usize>(rng: &mut Rng, m: &RefModel<D>, mem: &hist::Memory<D>) -> Op<D> {
    let r = rng.usize(100);
    if r < 12 {
        // non-finite / extreme coordinates
        let mut p = if m.verts.is_empty() { [0.25; D] } else { rng.pick(&m.verts).p };
        let j = rng.usize(D);
        p[j] = [f64::NAN, f64::INFINITY, f64::NEG_INFINITY, f64::MAX, f64::MIN, 1e300, -1e300, 1e-300, 5e-324, -0.0, f64::MIN_POSITIVE][rng.usize(11)];
        let uuid = rng.uuid();
        return match rng.usize(3) {
            0 => Op::Insert { p, uuid, data: None, how: "extreme" },
            1 => Op::InsertStats { p, uuid, data: None, how: "extreme" },
            _ => {
                let cell = if m.cells.is_empty() { Default::default() } else { rng.pick(&m.cells).key };
                Op::FlipK1Insert { cell, p, uuid, how: "extreme" }
            }
        };
    }
    if r < 16 {
        return Op::Insert { p: [0.0; D], uuid: uuid::Uuid::nil(), data: None, how: "nil-uuid" };
    }
    if r < 26 {
        // out-of-range indices and degenerate handles
        let cell = if m.cells.is_empty() || rng.chance(1, 4) { mem.stale_cells.first().copied().unwrap_or_default() } else { rng.pick(&m.cells).key };
        return match rng.usize(4) {
            0 => Op::FlipK2 { cell, idx: rng.usize(256) as u8, how: "index-fuzz" },
            1 => Op::FlipK3 { cell, a: rng.usize(256) as u8, b: rng.usize(256) as u8, how: "index-fuzz" },
            2 => {
                let v = if m.verts.is_empty() { Default::default() } else { rng.pick(&m.verts).key };
                Op::FlipK2Inv { a: v, b: v, how: "equal-endpoints" }
            }
            _ => {
                let v = if m.verts.is_empty() { Default::default() } else { rng.pick(&m.verts).key };
                Op::FlipK3Inv { a: v, b: v, c: v, how: "equal-vertices" }
            }
        };
    }
    hist::next_op(rng, m, mem, &Mix { insert: 5, insert_stats: 3, remove: 4, flips: 8, repair: 3, policy: 3, misc: 2 })
}

fn fuzz_history<K, const D: usize>(ctx: &Ctx, out: &mut Out, cs: u64, kn: Kn)
where
    K: Kernel<D, Scalar = f64>,
{
    let mut rng = Rng::new(cs);
    let thorough = ctx.tier == Tier::Thorough;
    out.eval();
    let Some((mut dt, mut mem, start)) = start_dt::<K, D>(&mut rng, thorough, out) else { return };
    // sometimes scale the whole workload to extreme magnitudes
    let base = json!({"property": P, "kind": "fuzz", "case_seed": cs.to_string(), "D": D, "kernel": kn.name(), "start": start});
    let len = if thorough { 30 + rng.usize(120) } else { 15 + rng.usize(40) };
    let len = if D >= 4 { len / 2 + 4 } else { len };
    let mut log: Vec<Value> = Vec::new();
    let mut nontrivial = false;
    let mut sweep_foreign: Option<Dt<K, D>> = None;
    for step in 0..len {
        if ctx.elapsed() > ctx.budget_s * 1.3 {
            break;
        }
        let pre = RefModel::from_dt(&dt);
        if pre.verts.len() > D + 2 {
            nontrivial = true;
        }
        let op = if mem.script.is_empty() { hostile_op(&mut rng, &pre, &mem) } else { mem.script.remove(0) };
        let ceiling = work_ceiling::<D>(pre.verts.len(), pre.cells.len());
        progress(&format!("C19 fuzz case_seed={} D={} kernel={} step={} op={}", cs, D, kn.name(), step, op.to_json()));
        verif::work_begin(Some(ceiling));
        let t0 = std::time::Instant::now();
        let res = hist::apply(&mut dt, &op);
        let used = verif::work_end();
        let ms = t0.elapsed().as_millis() as u64;
        out.max(&format!("max/ticks_per_call/{}", op.kind()), used);
        out.max(&format!("max/ms_per_call/{}", op.kind()), ms);
        if used > 0 {
            // how close did any call come to its ceiling (percent)
            out.max("max/ticks_percent_of_ceiling", used.saturating_mul(100) / ceiling.max(1));
        }
        let mut entry = op.to_json();
        let mk_rp = |log: &[Value], extra: Value| {
            let mut rp = base.clone();
            rp["history"] = json!(log);
            rp["op"] = op.to_json();
            rp["detail"] = extra;
            rp
        };
        match res {
            Err(pi) => {
                if is_work_limit(&pi) {
                    out.violation(P, &format!("D{}/work-limit/{}", D, op.kind()), format!("{} exceeded the work ceiling of {} ticks ({} vertices, {} cells): {}", op.kind(), ceiling, pre.verts.len(), pre.cells.len(), pi.message), mk_rp(&log, json!({"ceiling": ceiling})));
                } else {
                    out.panic(P, &pi, &format!("{} ({})", op.kind(), op.how()), mk_rp(&log, json!(null)));
                }
                break;
            }
            Ok(r) => {
                entry["result"] = json!(r.label());
                out.count(&format!("op/{}/{}", op.kind(), r.label()));
                let post = RefModel::from_dt(&dt);
                if has_nonfinite(&post) && !has_nonfinite(&pre) {
                    out.violation(P, &format!("D{}/non-finite-accepted/{}", D, op.kind()), format!("{} ({}) let a non-finite coordinate into the triangulation (result {})", op.kind(), op.how(), r.label()), mk_rp(&log, json!(null)));
                    break;
                }
                if let (Op::Insert { uuid, .. } | Op::InsertStats { uuid, .. }, Res::Inserted { .. }) = (&op, &r) {
                    if uuid.is_nil() {
                        out.count("note/nil_uuid_accepted");
                    }
                }
                for c in &pre.cells {
                    if !post.cidx.contains_key(&c.key) && mem.stale_cells.len() < 64 {
                        mem.stale_cells.push(c.key);
                    }
                }
                for v in &pre.verts {
                    if !post.vidx.contains_key(&v.key) && mem.stale_vertices.len() < 64 {
                        mem.stale_vertices.push(v.key);
                    }
                }
            }
        }
        log.push(entry);
        // read-only API on the current state with hostile keys (must not panic)
        if step % 4 == 0 {
            let stale_c = mem.stale_cells.first().copied().unwrap_or_default();
            let stale_v = mem.stale_vertices.first().copied().unwrap_or_default();
            let r = guard(|| {
                let t = dt.as_triangulation();
                let _ = t.adjacent_cells(stale_v).count();
                let _ = t.cell_neighbors(stale_c).count();
                let _ = t.incident_edges(stale_v).count();
                let _ = t.cell_vertices(stale_c);
                let _ = t.vertex_coords(stale_v);
                let _ = t.number_of_edges();
                let _ = dt.validate().is_ok();
                let _ = dt.validation_report().is_ok();
                let _ = dt.is_valid().is_ok();
                let _ = delaunay::core::util::find_delaunay_violations(dt.tds(), None).map(|v| v.len());
                let _ = delaunay::topology::characteristics::euler::count_simplices(dt.tds()).map(|c| c.by_dim.len());
            });
            if let Err(pi) = r {
                out.panic(P, &pi, "read-only queries / validators", mk_rp(&log, json!(null)));
                break;
            }
            out.count("readonly_query_rounds");
            // hostile-argument sweep over the key/index/handle/UUID-taking public surface (never
            // mutates `dt`; own rng stream so the operation stream of the history is unchanged)
            let mut srng = Rng::derive(cs, step as u64, 0xC195);
            if let Some((pi, what)) = super::c19_sweep::sweep::<K, D>(&dt, &mem, &mut srng, out, &mut sweep_foreign) {
                out.panic(P, &pi, &format!("hostile-argument sweep: {}", what), mk_rp(&log, json!({"sweep_call": what, "sweep_step": step})));
                break;
            }
        }
    }
    progress("");
    if nontrivial {
        out.nontrivial(&format!("fuzz|{}", cs));
    }
    out.add("steps", log.len() as u64);
    if out.samples.len() < 2 && log.len() > 6 {
        out.sample(json!({"kind": "fuzz", "D": D, "kernel": kn.name(), "ops": log.iter().take(10).cloned().collect::<Vec<_>>(), "total_ops": log.len()}));
    }
}

/// Batch construction on hostile inputs (all families incl. extreme scales, non-finite values).
fn construct_case<K, const D: usize>(_ctx: &Ctx, out: &mut Out, cs: u64, kn: Kn)
where
    K: Kernel<D, Scalar = f64>,
{
    let mut rng = Rng::new(cs);
    out.eval();
    let fam = *rng.pick(&ALL_FAMILIES);
    let n = D + 1 + rng.usize(3 * D);
    let mut pts = g::points::<D>(&mut rng, fam, n);
    let hostile = rng.usize(4);
    if hostile == 0 && !pts.is_empty() {
        let i = rng.usize(pts.len());
        let j = rng.usize(D);
        pts[i][j] = [f64::NAN, f64::INFINITY, f64::NEG_INFINITY][rng.usize(3)];
    } else if hostile == 1 {
        let f = [1e300, 1e-300, 1e150, 1e-160][rng.usize(4)];
        for p in pts.iter_mut() {
            for x in p.iter_mut() {
                *x *= f;
            }
        }
    }
    let inp = tri::mk_inputs(&mut rng, &pts);
    let gu = *rng.pick(&GUARANTEES);
    let opts = Opts::random(&mut rng);
    let rp = json!({"property": P, "kind": "construct", "case_seed": cs.to_string(), "D": D, "kernel": kn.name(), "family": fam.name(), "hostile": hostile, "options": opts.describe(), "points": crate::common::pts_json(&pts)});
    let ceiling = work_ceiling::<D>(inp.len(), inp.len() * 8) * (inp.len() as u64 + 4) * 8;
    progress(&format!("C19 construct case_seed={} D={} kernel={} family={} n={}", cs, D, kn.name(), fam.name(), inp.len()));
    verif::work_begin(Some(ceiling));
    let r = tri::build::<K, D>(&K::default(), &inp, gu, &opts);
    let used = verif::work_end();
    out.max(&format!("max/ticks_per_construction/D{}", D), used);
    match r {
        Err(pi) => {
            if is_work_limit(&pi) {
                out.violation(P, &format!("D{}/work-limit/construction", D), format!("construction exceeded the work ceiling: {}", pi.message), rp);
            } else {
                out.panic(P, &pi, "batch construction", rp);
            }
        }
        Ok(Ok(dt)) => {
            out.count("construct/Ok");
            let m = RefModel::from_dt(&dt);
            if has_nonfinite(&m) {
                out.violation(P, &format!("D{}/non-finite-accepted/construction", D), "a constructor returned Ok with a non-finite coordinate inside".into(), rp);
            }
            if m.verts.len() > D + 2 {
                out.nontrivial(&format!("construct|{}", cs));
            }
        }
        Ok(Err(_)) => out.count("construct/Err"),
    }
    progress("");
}

/// Validators and queries on corrupted complexes must not panic.
fn corrupted_case<K, const D: usize>(_ctx: &Ctx, out: &mut Out, cs: u64, kn: Kn)
where
    K: Kernel<D, Scalar = f64>,
{
    let mut rng = Rng::new(cs);
    out.eval();
    let npts = D + 2 + rng.usize(2 * D);
    let pts = g::points::<D>(&mut rng, crate::r#gen::Family::Dyadic, npts);
    let inp = tri::mk_inputs(&mut rng, &pts);
    let gu = *rng.pick(&GUARANTEES);
    let Ok(Ok(dt)) = tri::build::<K, D>(&K::default(), &inp, gu, &Opts::default_like()) else { return };
    let pristine = dt.tds().clone();
    for f in super::c05::FAULTS.iter() {
        let mut t = pristine.clone();
        let applied = guard(|| super::c05::apply_fault(&mut t, f, &mut rng));
        let Ok(Some(desc)) = applied else { continue };
        let rp = json!({"property": P, "kind": "corrupted", "case_seed": cs.to_string(), "D": D, "kernel": kn.name(), "fault": f, "target": desc, "points": crate::common::pts_json(&pts)});
        verif::work_begin(Some(work_ceiling::<D>(inp.len() + D + 2, pristine.number_of_cells() + 2)));
        let r = guard(|| {
            let d2 = delaunay::core::delaunay_triangulation::DelaunayTriangulation::<K, i32, i32, D>::from_tds_with_topology_guarantee(t.clone(), K::default(), gu.to_lib());
            let _ = d2.tds().is_valid().is_ok();
            let _ = d2.tds().validate().is_ok();
            let _ = d2.as_triangulation().is_valid().is_ok();
            let _ = d2.as_triangulation().validate().is_ok();
            let _ = d2.validate().is_ok();
            let _ = d2.validation_report().is_ok();
            let _ = d2.is_valid().is_ok();
            let tr = d2.as_triangulation();
            let _ = tr.edges().count();
            let _ = tr.number_of_edges();
            let _ = tr.build_adjacency_index().is_ok();
            // (boundary_facets()/facets() document a panic on corrupted structure: not called here)
            for (vk, _) in d2.vertices() {
                let _ = tr.adjacent_cells(vk).count();
                let _ = tr.incident_edges(vk).count();
            }
            let _ = delaunay::topology::characteristics::euler::count_simplices(d2.tds()).map(|c| c.by_dim.len());
            let _ = delaunay::topology::characteristics::validation::validate_triangulation_euler(d2.tds()).map(|r| r.chi);
        });
        let _ = verif::work_end();
        out.count("corrupted/validator_rounds");
        if let Err(pi) = r {
            if is_work_limit(&pi) {
                out.violation(P, &format!("D{}/work-limit/validators-on-{}", D, f), pi.message.clone(), rp);
            } else {
                out.panic(P, &pi, &format!("validators/queries on complex corrupted by {}", f), rp);
            }
        }
    }
    out.nontrivial(&format!("corrupted|{}", cs));
}

/// State-independent part of the hostile-argument sweep (index / count parameters of functions
/// that involve no triangulation): once per process.
fn pure_case(out: &mut Out) {
    out.eval();
    if let Some((pi, what)) = super::c19_sweep::sweep_pure(out) {
        out.panic(P, &pi, &format!("hostile-argument sweep (state-independent part): {}", what), json!({"property": P, "kind": "pure", "case_seed": "0", "D": 3, "kernel": "fast", "sweep_call": what}));
    }
    out.nontrivial("pure");
}

fn run_kind(ctx: &Ctx, out: &mut Out, cs: u64, d: usize, kn: Kn, kind: &str) {
    if kind == "pure" {
        return pure_case(out);
    }
    // replayable marker for the CPU-time watchdog
    crate::common::hang::mark(&json!({"property": P, "kind": kind, "case_seed": cs.to_string(), "D": d, "kernel": kn.name(), "tier": if ctx.tier == Tier::Thorough { "thorough" } else { "quick" }}).to_string());
    macro_rules! go {
        ($f:ident) => {
            match (d, kn) {
                (2, Kn::Fast) => $f::<FastKernel<f64>, 2>(ctx, out, cs, kn),
                (3, Kn::Fast) => $f::<FastKernel<f64>, 3>(ctx, out, cs, kn),
                (4, Kn::Fast) => $f::<FastKernel<f64>, 4>(ctx, out, cs, kn),
                (5, Kn::Fast) => $f::<FastKernel<f64>, 5>(ctx, out, cs, kn),
                (2, Kn::Robust) => $f::<RobustKernel<f64>, 2>(ctx, out, cs, kn),
                (3, Kn::Robust) => $f::<RobustKernel<f64>, 3>(ctx, out, cs, kn),
                (4, Kn::Robust) => $f::<RobustKernel<f64>, 4>(ctx, out, cs, kn),
                _ => $f::<RobustKernel<f64>, 5>(ctx, out, cs, kn),
            }
        };
    }
    match kind {
        "construct" => go!(construct_case),
        "corrupted" => go!(corrupted_case),
        _ => go!(fuzz_history),
    }
}

/// Runs a slice of another monitor and keeps only what C19 is about: panics.
fn harvest(ctx: &Ctx, out: &mut Out, prop: &str, share_s: f64) {
    let mut sub_ctx = ctx.clone();
    sub_ctx.prop = prop.to_string();
    sub_ctx.start = std::time::Instant::now();
    sub_ctx.budget_s = share_s;
    sub_ctx.seed = ctx.seed ^ 0xC19;
    let mut sub = Out::default();
    progress(&format!("C19 harvesting panics from the {} workload (seed {}, shard {})", prop, sub_ctx.seed, sub_ctx.shard));
    let r = guard(|| {
        super::run(&sub_ctx, &mut sub);
    });
    if let Err(pi) = r {
        out.panic(P, &pi, &format!("monitor {} itself", prop), json!({"property": P, "kind": "harvest", "workload": prop}));
    }
    out.add(&format!("harvest/{}/evaluations", prop), sub.evaluations);
    out.add(&format!("harvest/{}/panics", prop), sub.panics.len() as u64);
    out.evaluations += sub.evaluations;
    for d in sub.distinct {
        out.distinct.insert(d);
    }
    for mut p in sub.panics {
        p.property = P.to_string();
        p.signature = format!("{}/via-{}", p.signature, prop);
        out.panics.push(p);
    }
    progress("");
}

pub fn run(ctx: &Ctx, out: &mut Out) {
    if let Some(doc) = &ctx.replay {
        if let (Some(cs), Some(d)) = (ctx.replay_seed(), doc["D"].as_u64()) {
            let kn = Kn::from_name(doc["kernel"].as_str().unwrap_or("fast")).unwrap_or(Kn::Fast);
            run_kind(ctx, out, cs, d as usize, kn, doc["kind"].as_str().unwrap_or("fuzz"));
        } else {
            out.inconclusive("bad replay document");
        }
        return;
    }
    pure_case(out);
    // half of the budget: own fuzz; other half: slices of the other monitors
    let own_budget = ctx.budget_s * 0.5;
    let cap = (if ctx.tier == Tier::Thorough { 200_000.0 } else { 3_000.0 } * ctx.scale) as u64;
    let mut i = 0u64;
    while i < cap && ctx.elapsed() < own_budget {
        let cs = ctx.case_seed(i);
        let d = super::c01::pick_dim_hist(ctx, cs >> 7);
        let kn = if (cs >> 3) & 1 == 0 { Kn::Fast } else { Kn::Robust };
        let kind = match i % 8 {
            0 | 1 => "construct",
            2 => "corrupted",
            _ => "fuzz",
        };
        run_kind(ctx, out, cs, d, kn, kind);
        i += 1;
    }
    let others = ["C01", "C02", "C03", "C04", "C06", "C07", "C08", "C10", "C15", "C13", "C16", "C09", "C11"];
    let remaining = (ctx.budget_s - ctx.elapsed()).max(2.0);
    // each shard takes a rotating subset so that one run of all shards covers all workloads
    let picks: Vec<&str> = (0..3).map(|k| others[((ctx.shard as usize) * 3 + k) % others.len()]).collect();
    for p in picks {
        harvest(ctx, out, p, remaining / 3.0);
    }
    let _ = mk_vertex::<i32, 2>;
    let _: Option<Dt<FastKernel<f64>, 2>> = None;
}
