//! C17 — insertion orderings, dedup policies and the Hilbert curve neither invent nor lose vertices.
//!
//! Oracles (all independent of the library's own arithmetic):
//! * Hilbert curve: complete enumeration of every grid cell for (D, bits) with D*bits <= 14
//!   (quick) / 20 (thorough): the map cell -> index must be a bijection onto 0..2^(D*bits) and
//!   cells with consecutive indices must be at L1 distance exactly 1. At larger bit depths a
//!   sampled consequence is checked: exactly one grid neighbour of a cell carries index+1 (-1).
//! * sort helpers: multiset equality of (id, coordinate bits), key order, stability.
//! * dedup helpers: sub-multiset of (UUID, coordinate bits, data); exact dedup: one survivor per
//!   coordinate class (+0 == -0, NaN == NaN); epsilon dedup: exact squared distances (dyadic
//!   arithmetic) against (0.999 eps)^2 and (1.001 eps)^2.
//! * crate-private orderings / policies: observed through batch construction; the vertex set of
//!   the result plus the skip statistics must account for every input.

use crate::api::mk_vertex;
use crate::common::{Ctx, Out, PanicInfo, Tier, bits, guard, pts_json};
use crate::exact::{self, Dy};
use crate::rng::Rng;
use delaunay::core::delaunay_triangulation::{ConstructionOptions, DedupPolicy, DelaunayTriangulation, InsertionOrderStrategy, RetryPolicy};
use delaunay::core::util::{
    dedup_vertices_epsilon, dedup_vertices_exact, filter_vertices_excluding, hilbert_index, hilbert_indices_prequantized, hilbert_quantize, hilbert_sort_by_stable,
    hilbert_sort_by_unstable, hilbert_sorted_indices,
};
use delaunay::core::vertex::Vertex;
use serde_json::{Value, json};
use std::cmp::Ordering;
use std::collections::{HashMap, HashSet, VecDeque};
use uuid::Uuid;

const P: &str = "C17";

macro_rules! d15 {
    ($d:expr, $f:ident, ($($a:expr),*)) => {
        match $d {
            1 => $f::<1>($($a),*),
            2 => $f::<2>($($a),*),
            3 => $f::<3>($($a),*),
            4 => $f::<4>($($a),*),
            5 => $f::<5>($($a),*),
            _ => panic!("unsupported dimension"),
        }
    };
}

/// One refutation found by a pure checker (signature suffix, description).
#[derive(Clone, Debug)]
struct Finding {
    sig: String,
    desc: String,
}
fn finding(sig: &str, desc: String) -> Finding {
    Finding { sig: sig.to_string(), desc }
}

// =============================================================================================
// Part A: the curve
// =============================================================================================

fn decode<const D: usize>(code: u32, nbits: u32) -> [u32; D] {
    let mask = (1u32 << nbits) - 1;
    let mut c = [0u32; D];
    for (j, x) in c.iter_mut().enumerate() {
        *x = (code >> (nbits * j as u32)) & mask;
    }
    c
}

fn l1<const D: usize>(a: &[u32; D], b: &[u32; D]) -> u64 {
    (0..D).map(|j| a[j].abs_diff(b[j]) as u64).sum()
}

struct CurveReport {
    cells: u64,
    steps: u64,
    findings: Vec<(Finding, Value)>,
}

/// Complete check of one (D, bits) grid. `index_of` maps a batch of cells to their indices.
/// Pure with respect to the library: the index function is a parameter, so the checker itself can
/// be exercised with deliberately wrong curves (see `selfcheck`).
fn check_curve<const D: usize>(nbits: u32, index_of: &mut dyn FnMut(&[[u32; D]]) -> Result<Vec<u128>, String>) -> CurveReport {
    let nb = D as u32 * nbits;
    assert!(nb <= 24, "exhaustive curve check limited to 2^24 cells");
    let total: usize = 1usize << nb;
    let mut inv: Vec<u32> = vec![u32::MAX; total];
    let mut rep = CurveReport { cells: 0, steps: 0, findings: Vec::new() };
    let (mut n_range, mut n_coll) = (0u64, 0u64);
    let chunk = 4096usize.min(total);
    let mut code = 0usize;
    while code < total {
        let hi = (code + chunk).min(total);
        let cells: Vec<[u32; D]> = (code..hi).map(|c| decode::<D>(c as u32, nbits)).collect();
        let v = match index_of(&cells) {
            Ok(v) => v,
            Err(e) => {
                rep.findings.push((finding("error", format!("index function failed on a valid grid D={} bits={}: {}", D, nbits, e)), json!({"first_cell": cells[0].to_vec()})));
                return rep;
            }
        };
        if v.len() != cells.len() {
            rep.findings.push((finding("length", format!("{} cells in, {} indices out", cells.len(), v.len())), json!({"first_cell": cells[0].to_vec()})));
            return rep;
        }
        for (k, &idx) in v.iter().enumerate() {
            rep.cells += 1;
            let c = (code + k) as u32;
            if idx >= total as u128 {
                n_range += 1;
                if n_range == 1 {
                    rep.findings.push((
                        finding("range", format!("cell {:?} has index {} outside 0..2^{}", cells[k], idx, nb)),
                        json!({"cell": cells[k].to_vec(), "index": idx.to_string()}),
                    ));
                }
                continue;
            }
            let slot = &mut inv[idx as usize];
            if *slot != u32::MAX {
                n_coll += 1;
                if n_coll == 1 {
                    let other = decode::<D>(*slot, nbits);
                    rep.findings.push((
                        finding("bijection", format!("cells {:?} and {:?} share Hilbert index {} (D={}, bits={})", other, cells[k], idx, D, nbits)),
                        json!({"cell_a": other.to_vec(), "cell_b": cells[k].to_vec(), "index": idx.to_string()}),
                    ));
                }
                continue;
            }
            *slot = c;
        }
        code = hi;
    }
    let missing = inv.iter().filter(|&&x| x == u32::MAX).count() as u64;
    if missing > 0 && n_coll == 0 && n_range == 0 {
        rep.findings.push((finding("bijection", format!("{} indices of 0..2^{} are never produced", missing, nb)), json!({"missing": missing})));
    }
    if let Some((f, _)) = rep.findings.iter_mut().find(|(f, _)| f.sig == "bijection" || f.sig == "range") {
        f.desc.push_str(&format!(" [collisions {}, out of range {}, unused indices {}]", n_coll, n_range, missing));
    }
    let mut n_adj = 0u64;
    for i in 0..total.saturating_sub(1) {
        let (a, b) = (inv[i], inv[i + 1]);
        if a == u32::MAX || b == u32::MAX {
            continue;
        }
        rep.steps += 1;
        let (ca, cb) = (decode::<D>(a, nbits), decode::<D>(b, nbits));
        if l1(&ca, &cb) != 1 {
            n_adj += 1;
            if n_adj == 1 {
                rep.findings.push((
                    finding("adjacency", format!("indices {} and {} belong to cells {:?} and {:?} at L1 distance {} (D={}, bits={})", i, i + 1, ca, cb, l1(&ca, &cb), D, nbits)),
                    json!({"index": i, "cell_a": ca.to_vec(), "cell_b": cb.to_vec()}),
                ));
            }
        }
    }
    if n_adj > 1 {
        if let Some((f, _)) = rep.findings.iter_mut().find(|(f, _)| f.sig == "adjacency") {
            f.desc.push_str(&format!(" [{} non-adjacent steps in total]", n_adj));
        }
    }
    rep
}

fn max_index(d: usize, nbits: u32) -> u128 {
    let nb = d as u32 * nbits;
    if nb >= 128 { u128::MAX } else { (1u128 << nb) - 1 }
}

fn exhaustive_pair<const D: usize>(nbits: u32, out: &mut Out) {
    let tag = format!("D{}b{}", D, nbits);
    let replay = json!({"property": P, "kind": "hilbert_exhaustive", "D": D, "bits": nbits, "function": "hilbert_indices_prequantized / hilbert_index"});
    let mut pinfo: Option<PanicInfo> = None;
    let mut float_mismatch: Option<(Finding, Value)> = None;
    let mut n_float = 0u64;
    let mut roundtrip_bad = 0u64;
    let side_max = ((1u32 << nbits) - 1) as f64;
    let bounds = (0.0f64, side_max);
    let mut index_of = |cells: &[[u32; D]]| -> Result<Vec<u128>, String> {
        let r = guard(|| hilbert_indices_prequantized(cells, nbits));
        let v = match r {
            Ok(Ok(v)) => v,
            Ok(Err(e)) => return Err(format!("hilbert_indices_prequantized returned Err({})", e)),
            Err(pi) => {
                let m = format!("panic: {}", pi.message);
                pinfo = Some(pi);
                return Err(m);
            }
        };
        // float path: the cell's own coordinates under bounds (0, 2^bits - 1) quantise to the cell
        let fl = guard(|| {
            let mut bad: Option<(Finding, Value)> = None;
            let mut rt = 0u64;
            for (k, c) in cells.iter().enumerate() {
                let mut x = [0.0f64; D];
                for j in 0..D {
                    x[j] = c[j] as f64;
                }
                let q = hilbert_quantize(&x, bounds, nbits);
                let i = hilbert_index(&x, bounds, nbits);
                match (q, i) {
                    (Ok(q), Ok(i)) => {
                        if q != *c {
                            rt += 1;
                        } else if k < v.len() && i != v[k] && bad.is_none() {
                            bad = Some((
                                finding("index_vs_prequantized", format!("hilbert_index({:?}, {:?}, {}) = {} but hilbert_indices_prequantized of its quantisation {:?} = {}", x, bounds, nbits, i, q, v[k])),
                                json!({"coords": x.to_vec(), "bits_hex": bits(&x), "bounds": [bounds.0, bounds.1], "cell": c.to_vec()}),
                            ));
                        }
                    }
                    (q, i) => {
                        if bad.is_none() {
                            bad = Some((
                                finding("unexpected_error", format!("valid parameters D={} bits={} rejected: quantize {:?}, index {:?}", D, nbits, q.err(), i.err())),
                                json!({"coords": x.to_vec(), "bits_hex": bits(&x), "bounds": [bounds.0, bounds.1]}),
                            ));
                        }
                    }
                }
            }
            (bad, rt)
        });
        match fl {
            Ok((bad, rt)) => {
                n_float += cells.len() as u64;
                roundtrip_bad += rt;
                if float_mismatch.is_none() {
                    float_mismatch = bad;
                }
            }
            Err(pi) => {
                let m = format!("panic: {}", pi.message);
                pinfo = Some(pi);
                return Err(m);
            }
        }
        Ok(v)
    };
    let rep = check_curve::<D>(nbits, &mut index_of);
    out.eval();
    out.nontrivial(&format!("hilbert/exhaustive/{}", tag));
    out.add("hilbert/exhaustive/cells_total", rep.cells);
    out.add(&format!("hilbert/exhaustive/{}_cells", tag), rep.cells);
    out.add("hilbert/exhaustive/steps_checked", rep.steps);
    out.add("hilbert/exhaustive/float_path_cells", n_float);
    if roundtrip_bad > 0 {
        out.add("hilbert/exhaustive/grid_point_not_quantised_to_itself", roundtrip_bad);
        out.inconclusive("hilbert_quantize did not map a grid point to its own cell (float path not comparable)");
    }
    if let Some(pi) = pinfo {
        out.panic(P, &pi, "hilbert_indices_prequantized/hilbert_index", replay.clone());
    }
    let complete = rep.findings.is_empty() && rep.cells == 1u64 << (D as u32 * nbits);
    for (f, w) in rep.findings {
        let mut r = replay.clone();
        r["witness"] = w;
        out.violation(P, &format!("hilbert/{}/{}", f.sig, tag), f.desc, r);
    }
    if let Some((f, w)) = float_mismatch {
        let mut r = replay.clone();
        r["witness"] = w;
        out.violation(P, &format!("hilbert/{}/{}", f.sig, tag), f.desc, r);
    }
    if complete {
        out.count("hilbert/exhaustive/pairs_fully_enumerated");
        out.count(&format!("hilbert/exhaustive/{}_done", tag));
    }
}

fn exhaustive_pairs(limit: u32) -> Vec<(usize, u32)> {
    let mut v = Vec::new();
    for d in 1..=5usize {
        let mut b = 1u32;
        while d as u32 * b <= limit {
            v.push((d, b));
            b += 1;
        }
    }
    v
}

fn exhaustive_phase(ctx: &Ctx, out: &mut Out) {
    let limit = if ctx.tier == Tier::Thorough { 20 } else { 14 };
    let pairs = exhaustive_pairs(limit);
    out.add("hilbert/exhaustive/pairs_in_tier", pairs.len() as u64);
    for (i, (d, b)) in pairs.iter().enumerate() {
        if (i as u64) % ctx.nshards.max(1) != ctx.shard {
            continue;
        }
        d15!(*d, exhaustive_pair, (*b, out));
    }
}

/// Sampled consequence of bijection + adjacency at bit depths that cannot be enumerated:
/// for a cell with index i, exactly one of its 2D grid neighbours has index i+1 (if i is not the
/// last index) and exactly one has index i-1 (if i > 0); all of them are distinct and in range.
fn sampled_curve<const D: usize>(rng: &mut Rng, out: &mut Out, forced: Option<(u32, [u32; D])>) {
    let maxbits = (128 / D as u32).min(31);
    let (nbits, cell) = match forced {
        Some(x) => x,
        None => {
            let nbits = if rng.chance(1, 4) { maxbits } else { 1 + rng.below(maxbits as u64) as u32 };
            let side = 1u64 << nbits;
            let mut c = [0u32; D];
            for x in c.iter_mut() {
                *x = match rng.usize(6) {
                    0 => 0,
                    1 => (side - 1) as u32,
                    2 => (side / 2) as u32,
                    3 => (side / 2).saturating_sub(1) as u32,
                    _ => rng.below(side) as u32,
                };
            }
            (nbits, c)
        }
    };
    let side = 1u64 << nbits;
    let mut cells: Vec<[u32; D]> = vec![cell];
    for j in 0..D {
        if cell[j] > 0 {
            let mut n = cell;
            n[j] -= 1;
            cells.push(n);
        }
        if (cell[j] as u64) + 1 < side {
            let mut n = cell;
            n[j] += 1;
            cells.push(n);
        }
    }
    let replay = json!({"property": P, "kind": "hilbert_sampled", "D": D, "bits": nbits, "cell": cell.to_vec(), "function": "hilbert_indices_prequantized"});
    out.eval();
    out.count(&format!("hilbert/sampled/D{}", D));
    out.nontrivial(&format!("hs|{}|{}|{:?}", D, nbits, cell));
    let v = match guard(|| hilbert_indices_prequantized(&cells, nbits)) {
        Ok(Ok(v)) => v,
        Ok(Err(e)) => {
            out.violation(P, &format!("hilbert/unexpected_error/D{}", D), format!("hilbert_indices_prequantized rejected valid parameters D={} bits={}: {}", D, nbits, e), replay);
            return;
        }
        Err(pi) => {
            out.panic(P, &pi, "hilbert_indices_prequantized", replay);
            return;
        }
    };
    if v.len() != cells.len() {
        out.violation(P, &format!("hilbert/sampled/length/D{}", D), format!("{} cells in, {} indices out", cells.len(), v.len()), replay);
        return;
    }
    let mx = max_index(D, nbits);
    if v.iter().any(|&i| i > mx) {
        out.violation(P, &format!("hilbert/sampled/range/D{}", D), format!("index beyond 2^{}-1 among {:?} for cells {:?}", D as u32 * nbits, v, cells), replay);
        return;
    }
    let set: HashSet<u128> = v.iter().copied().collect();
    if set.len() != v.len() {
        out.violation(P, &format!("hilbert/sampled/bijection/D{}", D), format!("distinct cells {:?} share an index: {:?} (bits={})", cells, v, nbits), replay);
        return;
    }
    let i0 = v[0];
    let succ = v[1..].iter().filter(|&&i| i0 < mx && i == i0 + 1).count();
    let pred = v[1..].iter().filter(|&&i| i0 > 0 && i == i0 - 1).count();
    let want_succ = usize::from(i0 < mx);
    let want_pred = usize::from(i0 > 0);
    if succ != want_succ || pred != want_pred {
        out.violation(
            P,
            &format!("hilbert/sampled/adjacency/D{}", D),
            format!("cell {:?} (bits={}) has index {}; grid neighbours carry indices {:?}: {} of them = index+1 (want {}), {} = index-1 (want {})", cell, nbits, i0, &v[1..], succ, want_succ, pred, want_pred),
            replay,
        );
    }
}

// =============================================================================================
// Part B: quantisation and the sort helpers on adversarial coordinate lists
// =============================================================================================

type Key<const D: usize> = (u128, [u32; D]);

fn same_bits<const D: usize>(a: &[f64; D], b: &[f64; D]) -> bool {
    (0..D).all(|j| a[j].to_bits() == b[j].to_bits())
}

/// Pure checker: `sorted` must be a permutation of `items` (ids 0..n, coordinates bit-identical)
/// ordered by `keys[id]`; if `stable`, equal keys keep ascending id.
fn check_sorted_items<const D: usize>(items: &[(usize, [f64; D])], sorted: &[(usize, [f64; D])], keys: Option<&[Key<D>]>, stable: bool) -> Vec<Finding> {
    let mut f = Vec::new();
    let n = items.len();
    let mut seen = vec![false; n];
    let mut perm_ok = sorted.len() == n;
    for (id, c) in sorted {
        if *id >= n || seen[*id] || !same_bits(c, &items[*id].1) {
            perm_ok = false;
            break;
        }
        seen[*id] = true;
    }
    if !perm_ok {
        f.push(finding("not_permutation", format!("output is not a permutation of the {} input items (ids out: {:?})", n, sorted.iter().map(|x| x.0).collect::<Vec<_>>())));
        return f;
    }
    if let Some(keys) = keys {
        for w in sorted.windows(2) {
            let (a, b) = (w[0].0, w[1].0);
            match keys[a].cmp(&keys[b]) {
                Ordering::Greater => {
                    f.push(finding("not_sorted", format!("item {} (key {:?}) precedes item {} (key {:?})", a, keys[a], b, keys[b])));
                    break;
                }
                Ordering::Equal if stable && a > b => {
                    f.push(finding("not_stable", format!("items {} and {} have equal key {:?} but were reordered", b, a, keys[a])));
                    break;
                }
                _ => {}
            }
        }
    }
    f
}

fn list_replay<const D: usize>(coords: &[[f64; D]], bounds: (f64, f64), nbits: u32, fam: &str, func: &str) -> Value {
    json!({
        "property": P, "kind": "hilbert_list", "D": D, "bits": nbits, "family": fam, "function": func,
        "bounds": {"x": [bounds.0, bounds.1], "bits": [format!("{:016x}", bounds.0.to_bits()), format!("{:016x}", bounds.1.to_bits())]},
        "coords": pts_json(coords),
    })
}

fn report<const D: usize>(out: &mut Out, prefix: &str, fs: Vec<Finding>, replay: &dyn Fn(&str) -> Value) {
    for f in fs {
        out.violation(P, &format!("{}/{}", prefix, f.sig), format!("{}: {}", prefix, f.desc), replay(prefix));
    }
    let _ = D;
}

fn run_hilbert_list<const D: usize>(coords: &[[f64; D]], bounds: (f64, f64), nbits: u32, fam: &str, out: &mut Out) {
    let n = coords.len();
    let valid = (1..=31).contains(&nbits) && (D as u32) * nbits <= 128;
    let rp = |func: &str| list_replay(coords, bounds, nbits, fam, func);
    out.eval();
    out.count(&format!("hilbert_list/D{}", D));
    out.count(&format!("hilbert_list/family/{}", fam));
    let distinct_pts: HashSet<[u64; D]> = coords.iter().map(|c| c.map(f64::to_bits)).collect();
    if distinct_pts.len() >= 2 {
        out.nontrivial(&format!("hl|{}|{}|{:016x}|{:016x}|{:?}", D, nbits, bounds.0.to_bits(), bounds.1.to_bits(), coords.iter().map(|c| c.map(f64::to_bits)).collect::<Vec<_>>()));
    }
    let items: Vec<(usize, [f64; D])> = coords.iter().copied().enumerate().collect();

    // --- keys through the public per-point functions ---
    let mut keys: Option<Vec<Key<D>>> = None;
    if valid {
        let r = guard(|| {
            let mut qs: Vec<[u32; D]> = Vec::with_capacity(n);
            let mut is: Vec<u128> = Vec::with_capacity(n);
            for c in coords {
                qs.push(hilbert_quantize(c, bounds, nbits).map_err(|e| format!("hilbert_quantize: {}", e))?);
                is.push(hilbert_index(c, bounds, nbits).map_err(|e| format!("hilbert_index: {}", e))?);
            }
            let pre = hilbert_indices_prequantized(&qs, nbits).map_err(|e| format!("hilbert_indices_prequantized: {}", e))?;
            Ok::<_, String>((qs, is, pre))
        });
        match r {
            Err(pi) => out.panic(P, &pi, "hilbert_quantize/hilbert_index", rp("hilbert_index")),
            Ok(Err(e)) => out.violation(P, "hilbert/unexpected_error/list", format!("valid parameters D={} bits={} rejected: {}", D, nbits, e), rp("hilbert_index")),
            Ok(Ok((qs, is, pre))) => {
                let maxq = (1u32 << nbits) - 1;
                let mx = max_index(D, nbits);
                let mut ok = pre.len() == n;
                if !ok {
                    out.violation(P, "hilbert_indices_prequantized/length", format!("{} cells in, {} indices out", n, pre.len()), rp("hilbert_indices_prequantized"));
                }
                for k in 0..n {
                    if !ok {
                        break;
                    }
                    if qs[k].iter().any(|&q| q > maxq) {
                        out.violation(P, "hilbert_quantize/out_of_range", format!("hilbert_quantize({:?}, {:?}, {}) = {:?} exceeds 2^bits-1 = {}", coords[k], bounds, nbits, qs[k], maxq), rp("hilbert_quantize"));
                        ok = false;
                    } else if is[k] != pre[k] {
                        out.violation(P, "hilbert/index_vs_prequantized/list", format!("hilbert_index({:?}) = {} but prequantized index of {:?} = {}", coords[k], is[k], qs[k], pre[k]), rp("hilbert_index"));
                        ok = false;
                    } else if is[k] > mx {
                        out.violation(P, "hilbert/index_out_of_range/list", format!("hilbert_index({:?}) = {} exceeds 2^{}-1", coords[k], is[k], D as u32 * nbits), rp("hilbert_index"));
                        ok = false;
                    }
                }
                if ok {
                    out.add("hilbert_list/index_consistency_checked_points", n as u64);
                    // equal index <=> equal cell on this list (sampled injectivity)
                    let mut by_idx: HashMap<u128, [u32; D]> = HashMap::new();
                    for k in 0..n {
                        if let Some(q0) = by_idx.insert(is[k], qs[k]) {
                            if q0 != qs[k] {
                                out.violation(P, "hilbert/bijection/list", format!("cells {:?} and {:?} share index {} (D={}, bits={})", q0, qs[k], is[k], D, nbits), rp("hilbert_index"));
                                ok = false;
                                break;
                            }
                        }
                    }
                }
                if ok {
                    quantize_checks(coords, bounds, nbits, &qs, out, &rp);
                    quantize_checks_f32(coords, bounds, nbits, out, &rp);
                    keys = Some((0..n).map(|k| (is[k], qs[k])).collect());
                }
            }
        }
    } else {
        out.count("hilbert_list/invalid_parameters_cases");
    }

    // --- stable sort ---
    let r = guard(|| {
        let mut it = items.clone();
        let r = hilbert_sort_by_stable(&mut it, bounds, nbits, |x: &(usize, [f64; D])| x.1).map_err(|e| e.to_string());
        (r, it)
    });
    match r {
        Err(pi) => out.panic(P, &pi, "hilbert_sort_by_stable", rp("hilbert_sort_by_stable")),
        Ok((res, it)) => {
            out.count(if res.is_ok() { "hilbert_sort_by_stable/ok" } else { "hilbert_sort_by_stable/err" });
            if valid && res.is_err() {
                out.violation(P, "hilbert/unexpected_error/sort_stable", format!("valid parameters D={} bits={} rejected: {:?}", D, nbits, res), rp("hilbert_sort_by_stable"));
            }
            let k = if res.is_ok() { keys.as_deref() } else { None };
            report::<D>(out, "hilbert_sort_by_stable", check_sorted_items(&items, &it, k, true), &rp);
        }
    }
    // --- unstable sort ---
    let r = guard(|| {
        let mut it = items.clone();
        let r = hilbert_sort_by_unstable(&mut it, bounds, nbits, |x: &(usize, [f64; D])| x.1).map_err(|e| e.to_string());
        (r, it)
    });
    match r {
        Err(pi) => out.panic(P, &pi, "hilbert_sort_by_unstable", rp("hilbert_sort_by_unstable")),
        Ok((res, it)) => {
            out.count(if res.is_ok() { "hilbert_sort_by_unstable/ok" } else { "hilbert_sort_by_unstable/err" });
            if valid && res.is_err() {
                out.violation(P, "hilbert/unexpected_error/sort_unstable", format!("valid parameters D={} bits={} rejected: {:?}", D, nbits, res), rp("hilbert_sort_by_unstable"));
            }
            let k = if res.is_ok() { keys.as_deref() } else { None };
            report::<D>(out, "hilbert_sort_by_unstable", check_sorted_items(&items, &it, k, false), &rp);
        }
    }
    // --- sorted indices ---
    match guard(|| hilbert_sorted_indices(coords, bounds, nbits).map_err(|e| e.to_string())) {
        Err(pi) => out.panic(P, &pi, "hilbert_sorted_indices", rp("hilbert_sorted_indices")),
        Ok(Err(e)) => {
            out.count("hilbert_sorted_indices/err");
            if valid {
                out.violation(P, "hilbert/unexpected_error/sorted_indices", format!("valid parameters D={} bits={} rejected: {}", D, nbits, e), rp("hilbert_sorted_indices"));
            }
        }
        Ok(Ok(order)) => {
            out.count("hilbert_sorted_indices/ok");
            let as_items: Vec<(usize, [f64; D])> = order.iter().map(|&i| (i, if i < n { coords[i] } else { [f64::NAN; D] })).collect();
            let fs = check_sorted_items(&items, &as_items, keys.as_deref(), false);
            let clean = fs.is_empty();
            report::<D>(out, "hilbert_sorted_indices", fs, &rp);
            if clean {
                if let Some(keys) = &keys {
                    // implementation detail (not documented for D > 0): ties keep input order
                    let ties_in_order = order.windows(2).all(|w| keys[w[0]] != keys[w[1]] || w[0] < w[1]);
                    out.count(if ties_in_order { "hilbert_sorted_indices/ties_in_input_order" } else { "hilbert_sorted_indices/ties_not_in_input_order(undocumented)" });
                }
            }
        }
    }
}

/// The same end-point / range / index contract for the `f32` instantiation (the crate's own Hilbert
/// ordering uses 31 or 25 bits, more than an f32 mantissa holds): bounds and coordinates are rounded
/// to f32, out-of-range coordinates clamp.
fn quantize_checks_f32<const D: usize>(coords: &[[f64; D]], bounds: (f64, f64), nbits: u32, out: &mut Out, rp: &dyn Fn(&str) -> Value) {
    let (lo, hi) = (bounds.0 as f32, bounds.1 as f32);
    let extent = hi - lo;
    if !(lo.is_finite() && hi.is_finite() && extent.is_finite() && extent > 0.0 && lo.abs() <= 1e30 && hi.abs() <= 1e30) {
        out.count("hilbert_quantize_f32/contract_not_applicable(bounds)");
        return;
    }
    let maxq = (1u32 << nbits) - 1;
    let pts: Vec<[f32; D]> = std::iter::once([lo; D]).chain(std::iter::once([hi; D])).chain(coords.iter().take(6).map(|c| c.map(|x| x as f32))).collect();
    let r = guard(|| pts.iter().map(|p| (hilbert_quantize(p, (lo, hi), nbits), hilbert_index(p, (lo, hi), nbits))).collect::<Vec<_>>());
    let rs = match r {
        Ok(v) => v,
        Err(pi) => {
            out.panic(P, &pi, "hilbert_quantize::<f32>", rp("hilbert_quantize"));
            return;
        }
    };
    out.count("hilbert_quantize_f32/checked");
    for (k, (q, i)) in rs.iter().enumerate() {
        let (Ok(q), Ok(i)) = (q, i) else { continue };
        if q.iter().any(|x| *x > maxq) {
            out.violation(P, "hilbert_quantize_f32/out_of_range", format!("hilbert_quantize::<f32>({:?}, ({:e}, {:e}), {}) = {:?} exceeds 2^bits-1 = {}", pts[k], lo, hi, nbits, q, maxq), rp("hilbert_quantize"));
            return;
        }
        if k == 0 && *q != [0u32; D] {
            out.violation(P, "hilbert_quantize_f32/min_not_zero", format!("hilbert_quantize::<f32>([{:e}; {}]) = {:?}, expected all 0 (bits {})", lo, D, q, nbits), rp("hilbert_quantize"));
            return;
        }
        if k == 1 && *q != [maxq; D] {
            out.violation(P, "hilbert_quantize_f32/max_not_top", format!("hilbert_quantize::<f32>([{:e}; {}]) = {:?}, expected all {} (bits {})", hi, D, q, maxq, nbits), rp("hilbert_quantize"));
            return;
        }
        if let Ok(pre) = hilbert_indices_prequantized(&[*q], nbits) {
            if pre.first() != Some(i) {
                out.violation(P, "hilbert_f32/index_vs_prequantized", format!("hilbert_index::<f32>({:?}) = {} but the prequantized index of its cell {:?} = {:?} (bits {})", pts[k], i, q, pre.first(), nbits), rp("hilbert_index"));
                return;
            }
        }
    }
}

/// Contract of `hilbert_quantize` as documented: result in [0, 2^bits), normalise with the scalar
/// bounds, clamp to [0,1]; hence (for finite, non-degenerate bounds and no intermediate overflow)
/// monotone per coordinate, min -> 0, max -> 2^bits - 1, out-of-range values clamp.
fn quantize_checks<const D: usize>(coords: &[[f64; D]], bounds: (f64, f64), nbits: u32, qs: &[[u32; D]], out: &mut Out, rp: &dyn Fn(&str) -> Value) {
    let (lo, hi) = bounds;
    let extent = hi - lo;
    if !(lo.is_finite() && hi.is_finite() && extent.is_finite() && extent > 0.0 && lo.abs() <= 1e300 && hi.abs() <= 1e300) {
        out.count("hilbert_quantize/contract_not_applicable(bounds)");
        return;
    }
    let maxq = (1u32 << nbits) - 1;
    let ends = guard(|| (hilbert_quantize(&[lo; D], bounds, nbits), hilbert_quantize(&[hi; D], bounds, nbits)));
    let (q_lo, q_hi) = match ends {
        Ok((Ok(a), Ok(b))) => (a, b),
        Ok(_) => return,
        Err(pi) => {
            out.panic(P, &pi, "hilbert_quantize", rp("hilbert_quantize"));
            return;
        }
    };
    if q_lo != [0u32; D] {
        out.violation(P, "hilbert_quantize/min_not_zero", format!("hilbert_quantize([{:e}; {}], {:?}, {}) = {:?}, expected all 0", lo, D, bounds, nbits, q_lo), rp("hilbert_quantize"));
        return;
    }
    if q_hi != [maxq; D] {
        out.violation(P, "hilbert_quantize/max_not_top", format!("hilbert_quantize([{:e}; {}], {:?}, {}) = {:?}, expected all {}", hi, D, bounds, nbits, q_hi, maxq), rp("hilbert_quantize"));
        return;
    }
    // monotonicity over the list extended by the two end points
    let mut checked = 0u64;
    for j in 0..D {
        // Points whose normalised value (c - min) / extent is not finite in f64 take the
        // implementation's stated "non-finite -> cell 0" fallback and are not judged.
        let judged = |c: f64| c.is_finite() && ((c - lo) / extent).is_finite();
        let skipped = coords.iter().zip(qs.iter()).filter(|(c, _)| c[j].is_finite() && !judged(c[j])).count() as u64;
        if skipped > 0 {
            out.add("hilbert_quantize/not_judged(normalisation overflows, falls back to cell 0)", skipped);
        }
        let mut col: Vec<(f64, u32)> = coords.iter().zip(qs.iter()).filter(|(c, _)| judged(c[j])).map(|(c, q)| (c[j], q[j])).collect();
        col.push((lo, 0));
        col.push((hi, maxq));
        col.sort_by(|a, b| a.0.partial_cmp(&b.0).unwrap_or(Ordering::Equal));
        for w in col.windows(2) {
            checked += 1;
            let bad = if w[0].0 == w[1].0 { w[0].1 != w[1].1 } else { w[0].1 > w[1].1 };
            if bad {
                out.violation(
                    P,
                    "hilbert_quantize/not_monotone",
                    format!("axis {}: {:e} -> cell {} but {:e} -> cell {} (bounds {:?}, bits {})", j, w[0].0, w[0].1, w[1].0, w[1].1, bounds, nbits),
                    rp("hilbert_quantize"),
                );
                return;
            }
        }
    }
    out.add("hilbert_quantize/monotone_pairs_checked", checked);
}

const EXTREMES: [f64; 14] = [0.0, -0.0, 1.0, -1.0, 1e300, -1e300, 1e-300, -1e-300, 5e-324, 1e150, -1e150, 1e-160, 0.5, 2.0];

fn gen_hilbert_list<const D: usize>(rng: &mut Rng) -> (Vec<[f64; D]>, (f64, f64), u32, &'static str) {
    let maxbits = (128 / D as u32).min(31);
    let mut nbits = match rng.usize(4) {
        0 => 1 + rng.below(3) as u32,
        1 => maxbits,
        _ => 1 + rng.below(maxbits as u64) as u32,
    };
    let n = match rng.usize(8) {
        0 => rng.usize(2),
        _ => 2 + rng.usize(48),
    };
    let fam: &'static str;
    let mut bounds = (0.0, 1.0);
    let mut pts: Vec<[f64; D]> = Vec::with_capacity(n);
    let mut each = |rng: &mut Rng, f: &mut dyn FnMut(&mut Rng) -> f64| {
        for _ in 0..n {
            let mut p = [0.0; D];
            for x in p.iter_mut() {
                *x = f(rng);
            }
            pts.push(p);
        }
    };
    match rng.usize(9) {
        0 => {
            fam = "grid_ties";
            nbits = 1 + rng.below(4.min(maxbits) as u64) as u32;
            let side = 1i64 << nbits;
            bounds = (0.0, (side - 1) as f64);
            each(rng, &mut |r| r.range_i64(0, side - 1) as f64);
        }
        1 => {
            fam = "unit_random";
            each(rng, &mut |r| r.f64());
        }
        2 => {
            fam = "out_of_range";
            each(rng, &mut |r| r.f64() * 3.0 - 1.0);
        }
        3 => {
            fam = "signed_zero_dups";
            bounds = (-1.0, 1.0);
            let vals = [0.0, -0.0, 0.5, -0.5, 1.0, -1.0, 5e-324, -5e-324, 1e-17];
            each(rng, &mut |r| *r.pick(&vals));
        }
        4 => {
            fam = "extreme";
            bounds = *rng.pick(&[(-1e300, 1e300), (0.0, 1e-300), (-1e-300, 1e300), (1e150, 1e300), (0.0, 5e-324), (-1e-160, 1e-160)]);
            each(rng, &mut |r| *r.pick(&EXTREMES));
        }
        5 => {
            fam = "degenerate_bounds";
            bounds = *rng.pick(&[(0.5, 0.5), (1.0, 0.0), (0.0, -0.0), (1e300, -1e300)]);
            each(rng, &mut |r| r.f64() * 2.0 - 0.5);
        }
        6 => {
            fam = "nonfinite";
            let vals = [f64::NAN, f64::INFINITY, f64::NEG_INFINITY, 0.0, -0.0, 0.25, 0.75, 1.0, f64::from_bits(0xfff8_0000_0000_0001)];
            each(rng, &mut |r| *r.pick(&vals));
        }
        7 => {
            fam = "constant_axis_dups";
            let base = rng.f64();
            let k = 1 + rng.usize(4);
            let pool: Vec<f64> = (0..k).map(|_| rng.f64()).collect();
            each(rng, &mut |r| *r.pick(&pool));
            for p in pts.iter_mut() {
                p[0] = base;
            }
        }
        _ => {
            fam = "invalid_parameters";
            nbits = *rng.pick(&[0u32, 32, 33, 64, u32::MAX, maxbits + 1]);
            each(rng, &mut |r| r.f64());
        }
    }
    (pts, bounds, nbits, fam)
}

// =============================================================================================
// Part C: dedup helpers
// =============================================================================================

#[derive(Clone, Debug, PartialEq)]
struct VRec<const D: usize> {
    uuid: Uuid,
    p: [f64; D],
    data: Option<i32>,
}

fn to_vertex<const D: usize>(r: &VRec<D>) -> Vertex<f64, i32, D> {
    mk_vertex::<i32, D>(r.p, r.uuid, r.data.map(i64::from))
}
fn from_vertex<const D: usize>(v: &Vertex<f64, i32, D>) -> VRec<D> {
    VRec { uuid: v.uuid(), p: *v.point().coords(), data: v.data }
}
fn vrec_json<const D: usize>(v: &[VRec<D>]) -> Value {
    Value::Array(v.iter().map(|r| json!({"x": r.p.to_vec(), "bits": bits(&r.p), "uuid": r.uuid.to_string(), "data": r.data})).collect())
}

/// Coordinate class under the library's documented equality (OrderedFloat: NaN == NaN, +0 == -0).
fn class_key<const D: usize>(p: &[f64; D]) -> [u64; D] {
    p.map(|x| if x.is_nan() { 0x7ff8_0000_0000_0000 } else if x == 0.0 { 0 } else { x.to_bits() })
}

/// Maps every output record to a distinct input record with identical UUID, coordinate bits and
/// data (earliest unused input first). Err = invention or duplication.
fn match_submultiset<const D: usize>(input: &[VRec<D>], output: &[VRec<D>]) -> Result<Vec<usize>, String> {
    let mut pool: HashMap<(u128, [u64; D], Option<i32>), VecDeque<usize>> = HashMap::new();
    for (i, r) in input.iter().enumerate() {
        pool.entry((r.uuid.as_u128(), r.p.map(f64::to_bits), r.data)).or_default().push_back(i);
    }
    let mut m = Vec::with_capacity(output.len());
    for (k, r) in output.iter().enumerate() {
        match pool.get_mut(&(r.uuid.as_u128(), r.p.map(f64::to_bits), r.data)).and_then(VecDeque::pop_front) {
            Some(i) => m.push(i),
            None => {
                let known = input.iter().any(|x| x.uuid == r.uuid);
                return Err(format!(
                    "output[{}] (uuid {}, coords {:?}, data {:?}) {}",
                    k,
                    r.uuid,
                    r.p,
                    r.data,
                    if known { "matches an input UUID but was altered or is returned more often than it was supplied" } else { "does not occur in the input" }
                ));
            }
        }
    }
    Ok(m)
}

fn check_exact<const D: usize>(input: &[VRec<D>], output: &[VRec<D>]) -> (Vec<Finding>, bool) {
    let mut f = Vec::new();
    let m = match match_submultiset(input, output) {
        Ok(m) => m,
        Err(e) => {
            f.push(finding("not_from_input", e));
            return (f, false);
        }
    };
    let mut seen: HashMap<[u64; D], usize> = HashMap::new();
    for (k, r) in output.iter().enumerate() {
        if let Some(prev) = seen.insert(class_key(&r.p), k) {
            f.push(finding("duplicate_kept", format!("outputs {} and {} have equal coordinate tuples {:?} / {:?}", prev, k, output[prev].p, r.p)));
            return (f, false);
        }
    }
    let mut first: HashMap<[u64; D], usize> = HashMap::new();
    for (i, r) in input.iter().enumerate() {
        first.entry(class_key(&r.p)).or_insert(i);
    }
    for (key, i) in &first {
        if !seen.contains_key(key) {
            f.push(finding("unique_dropped", format!("input {} with coordinates {:?} has no representative in the output ({} distinct tuples in, {} out)", i, input[*i].p, first.len(), output.len())));
            return (f, false);
        }
    }
    // documented detail, counted only: the representative is the first occurrence
    let first_kept = m.iter().zip(output.iter()).all(|(&i, r)| first[&class_key(&r.p)] == i);
    (f, first_kept)
}

#[derive(Default)]
struct DistStats {
    fast: u64,
    exact: u64,
}

/// Exact comparison of |a-b|^2 with thr^2 (thr finite, >= 0). f64 shortcut only when the
/// rounded values are separated by far more than the rounding error of the f64 evaluation.
fn d2_cmp<const D: usize>(a: &[f64; D], b: &[f64; D], thr: f64, st: &mut DistStats) -> Ordering {
    let mut d2f = 0.0f64;
    for j in 0..D {
        let d = a[j] - b[j];
        d2f += d * d;
    }
    let t2f = thr * thr;
    if d2f.is_finite() && t2f.is_finite() && d2f < 1e280 && t2f < 1e280 && (d2f - t2f).abs() > 1e-9 * d2f.max(t2f) + 1e-290 {
        st.fast += 1;
        return d2f.partial_cmp(&t2f).unwrap();
    }
    st.exact += 1;
    let t = Dy::from_f64(thr);
    exact::dist2(a, b).cmp(&t.mul(&t))
}

fn eps_regime<const D: usize>(input: &[VRec<D>], eps: f64) -> &'static str {
    let e2 = eps * eps;
    if eps > 0.0 && e2 < 1e-290 {
        "eps_sq_underflow"
    } else if !e2.is_finite() || eps > 1e150 || input.iter().any(|v| v.p.iter().any(|x| x.abs() > 1e150)) {
        "overflow_range"
    } else {
        "normal"
    }
}

/// Epsilon dedup judged with a 0.1 % margin on either side of the tolerance: survivors closer
/// than 0.999 eps, or a dropped vertex farther than 1.001 eps from every survivor, refute.
fn check_epsilon<const D: usize>(input: &[VRec<D>], output: &[VRec<D>], eps: f64, st: &mut DistStats) -> Vec<Finding> {
    let mut f = Vec::new();
    let m = match match_submultiset(input, output) {
        Ok(m) => m,
        Err(e) => {
            f.push(finding("not_from_input", e));
            return f;
        }
    };
    if input.iter().any(|r| r.p.iter().any(|x| !x.is_finite())) || !eps.is_finite() || eps < 0.0 {
        return f; // distances undefined: only the sub-multiset clause is judged
    }
    let near = 0.999 * eps;
    let far = 1.001 * eps;
    if near > 0.0 {
        'o: for a in 0..output.len() {
            for b in a + 1..output.len() {
                if d2_cmp(&output[a].p, &output[b].p, near, st) == Ordering::Less {
                    let l2 = exact::dist2(&output[a].p, &output[b].p).log2_abs() / 2.0;
                    f.push(finding("survivors_too_close", if l2 == f64::NEG_INFINITY {
                        format!("survivors {:?} and {:?} coincide (distance 0) although eps = {:e} > 0", output[a].p, output[b].p, eps)
                    } else {
                        format!("survivors {:?} and {:?} are at exact distance 2^{:.3} (~1e{:.2}) < 0.999 * eps (eps = {:e})", output[a].p, output[b].p, l2, l2 * std::f64::consts::LOG10_2, eps)
                    }));
                    break 'o;
                }
            }
        }
    }
    if far.is_finite() {
        let mut used = vec![false; input.len()];
        for &i in &m {
            used[i] = true;
        }
        for (i, r) in input.iter().enumerate() {
            if used[i] {
                continue;
            }
            let covered = output.iter().any(|s| d2_cmp(&r.p, &s.p, far, st) != Ordering::Greater);
            if !covered {
                f.push(finding("dropped_far_from_survivors", format!("input {} at {:?} was dropped but no survivor lies within 1.001 * eps (eps = {:e}, {} survivors)", i, r.p, eps, output.len())));
                break;
            }
        }
    }
    f
}

fn check_filter<const D: usize>(input: &[VRec<D>], reference: &[VRec<D>], output: &[VRec<D>]) -> (Vec<Finding>, bool) {
    let mut f = Vec::new();
    let m = match match_submultiset(input, output) {
        Ok(m) => m,
        Err(e) => {
            f.push(finding("not_from_input", e));
            return (f, false);
        }
    };
    let excl: HashSet<[u64; D]> = reference.iter().map(|r| class_key(&r.p)).collect();
    let expected: Vec<usize> = (0..input.len()).filter(|&i| !excl.contains(&class_key(&input[i].p))).collect();
    let mut got = m.clone();
    got.sort_unstable();
    if got != expected {
        let kept_excluded = got.iter().find(|i| !expected.contains(i));
        let lost = expected.iter().find(|i| !got.contains(i));
        f.push(finding(
            "wrong_result",
            format!("expected the {} inputs not matching a reference, got {}; excluded-but-kept input: {:?}, kept-but-missing input: {:?}", expected.len(), got.len(), kept_excluded.map(|&i| input[i].p), lost.map(|&i| input[i].p)),
        ));
        return (f, false);
    }
    (f, m == expected)
}

fn dedup_replay<const D: usize>(func: &str, input: &[VRec<D>], reference: Option<&[VRec<D>]>, eps: Option<f64>, fam: &str) -> Value {
    json!({
        "property": P, "kind": "dedup", "D": D, "function": func, "family": fam,
        "tolerance": eps, "tolerance_bits": eps.map(|e| format!("{:016x}", e.to_bits())),
        "vertices": vrec_json(input), "reference": reference.map(vrec_json),
    })
}

fn ident_list<const D: usize>(tag: &str, input: &[VRec<D>], extra: u64) -> String {
    format!("{}|{}|{:x}|{:?}", tag, D, extra, input.iter().map(|r| r.p.map(f64::to_bits)).collect::<Vec<_>>())
}

fn nontrivial_list<const D: usize>(input: &[VRec<D>]) -> bool {
    let classes: HashSet<[u64; D]> = input.iter().map(|r| class_key(&r.p)).collect();
    classes.len() >= 2
}

fn run_dedup_exact<const D: usize>(input: &[VRec<D>], fam: &str, out: &mut Out) {
    out.eval();
    out.count(&format!("dedup_exact/D{}", D));
    out.count(&format!("dedup/family/{}", fam));
    if nontrivial_list(input) {
        out.nontrivial(&ident_list("de", input, 0));
    }
    let verts: Vec<Vertex<f64, i32, D>> = input.iter().map(to_vertex).collect();
    match guard(|| dedup_vertices_exact(&verts)) {
        Err(pi) => out.panic(P, &pi, "dedup_vertices_exact", dedup_replay("dedup_vertices_exact", input, None, None, fam)),
        Ok(res) => {
            let output: Vec<VRec<D>> = res.iter().map(from_vertex).collect();
            out.add("dedup_exact/vertices_in", input.len() as u64);
            out.add("dedup_exact/vertices_dropped", (input.len().saturating_sub(output.len())) as u64);
            let (fs, first_kept) = check_exact(input, &output);
            if fs.is_empty() {
                out.count(if first_kept { "dedup_exact/first_occurrence_kept" } else { "dedup_exact/first_occurrence_NOT_kept(documented detail)" });
            }
            for f in fs {
                out.violation(P, &format!("dedup_exact/{}", f.sig), format!("dedup_vertices_exact: {}", f.desc), dedup_replay("dedup_vertices_exact", input, None, None, fam));
            }
        }
    }
}

fn run_dedup_epsilon<const D: usize>(input: &[VRec<D>], eps: f64, fam: &str, out: &mut Out, st: &mut DistStats) {
    out.eval();
    let regime = eps_regime(input, eps);
    out.count(&format!("dedup_epsilon/D{}", D));
    out.count(&format!("dedup_epsilon/regime/{}", regime));
    if nontrivial_list(input) {
        out.nontrivial(&ident_list("dp", input, eps.to_bits()));
    }
    let verts: Vec<Vertex<f64, i32, D>> = input.iter().map(to_vertex).collect();
    match guard(|| dedup_vertices_epsilon(&verts, eps)) {
        Err(pi) => out.panic(P, &pi, "dedup_vertices_epsilon", dedup_replay("dedup_vertices_epsilon", input, None, Some(eps), fam)),
        Ok(res) => {
            let output: Vec<VRec<D>> = res.iter().map(from_vertex).collect();
            out.add("dedup_epsilon/vertices_in", input.len() as u64);
            out.add("dedup_epsilon/vertices_dropped", (input.len().saturating_sub(output.len())) as u64);
            for f in check_epsilon(input, &output, eps, st) {
                let sig = if regime == "normal" || f.sig == "not_from_input" { format!("dedup_epsilon/{}", f.sig) } else { format!("dedup_epsilon/{}/{}", f.sig, regime) };
                out.violation(P, &sig, format!("dedup_vertices_epsilon (regime {}): {}", regime, f.desc), dedup_replay("dedup_vertices_epsilon", input, None, Some(eps), fam));
            }
        }
    }
}

fn run_filter<const D: usize>(input: &[VRec<D>], reference: &[VRec<D>], fam: &str, out: &mut Out) {
    out.eval();
    out.count(&format!("filter_excluding/D{}", D));
    if nontrivial_list(input) && !reference.is_empty() {
        out.nontrivial(&format!("{}#{}", ident_list("fx", input, reference.len() as u64), ident_list("ref", reference, 0)));
    }
    let verts: Vec<Vertex<f64, i32, D>> = input.iter().map(to_vertex).collect();
    let refs: Vec<Vertex<f64, i32, D>> = reference.iter().map(to_vertex).collect();
    match guard(|| filter_vertices_excluding(&verts, &refs)) {
        Err(pi) => out.panic(P, &pi, "filter_vertices_excluding", dedup_replay("filter_vertices_excluding", input, Some(reference), None, fam)),
        Ok(res) => {
            let output: Vec<VRec<D>> = res.iter().map(from_vertex).collect();
            out.add("filter_excluding/vertices_excluded", (input.len().saturating_sub(output.len())) as u64);
            let (fs, in_order) = check_filter(input, reference, &output);
            if fs.is_empty() {
                out.count(if in_order { "filter_excluding/input_order_preserved" } else { "filter_excluding/input_order_NOT_preserved(undocumented)" });
            }
            for f in fs {
                out.violation(P, &format!("filter_excluding/{}", f.sig), format!("filter_vertices_excluding: {}", f.desc), dedup_replay("filter_vertices_excluding", input, Some(reference), None, fam));
            }
        }
    }
}

fn rec<const D: usize>(rng: &mut Rng, p: [f64; D], k: usize) -> VRec<D> {
    VRec { uuid: rng.uuid(), p, data: if rng.chance(1, 5) { None } else { Some(k as i32 - 7) } }
}

/// Adversarial vertex lists for the dedup helpers: (list, epsilon, family, finite?)
fn gen_dedup_list<const D: usize>(rng: &mut Rng) -> (Vec<VRec<D>>, f64, &'static str) {
    let mut pts: Vec<[f64; D]> = Vec::new();
    let fam: &'static str;
    let eps: f64;
    let n = 2 + rng.usize(38);
    match rng.usize(10) {
        0 => {
            fam = "dyadic_dups";
            let m = 1 + rng.range_i64(1, 4);
            for _ in 0..n {
                let mut p = [0.0; D];
                for x in p.iter_mut() {
                    *x = rng.range_i64(0, m) as f64 / 4.0;
                }
                pts.push(p);
            }
            eps = *rng.pick(&[0.0, 0.25, 0.3, 0.5, 1e-10, 0.75, 0.2500000000000001]);
        }
        1 => {
            fam = "signed_zeros";
            let vals = [0.0, -0.0, 1.0, -1.0, 5e-324, -5e-324];
            for _ in 0..n {
                let mut p = [0.0; D];
                for x in p.iter_mut() {
                    *x = *rng.pick(&vals);
                }
                pts.push(p);
            }
            eps = *rng.pick(&[0.0, 1e-10, 1.0, 0.5, 1.5]);
        }
        2 => {
            fam = "clusters";
            let s = 2f64.powi(rng.range_i64(-20, 20) as i32);
            eps = s * *rng.pick(&[1e-3, 0.01, 0.1, 0.37]);
            let nc = 1 + rng.usize(5);
            let centres: Vec<[f64; D]> = (0..nc)
                .map(|_| {
                    let mut c = [0.0; D];
                    for x in c.iter_mut() {
                        *x = (rng.f64() * 8.0 - 4.0) * s;
                    }
                    c
                })
                .collect();
            let steps = [0.0, 0.3, 0.6, 0.9, 0.9985, 0.9995, 1.0, 1.0005, 1.0015, 1.1, 2.5];
            for _ in 0..n {
                let mut p = *rng.pick(&centres);
                let u = *rng.pick(&steps);
                if rng.bool() {
                    let j = rng.usize(D);
                    p[j] += u * eps * if rng.bool() { 1.0 } else { -1.0 };
                } else {
                    let mut dir = [0.0; D];
                    let mut nn = 0.0;
                    for x in dir.iter_mut() {
                        *x = rng.f64() * 2.0 - 1.0;
                        nn += *x * *x;
                    }
                    let nn = nn.sqrt().max(1e-9);
                    for j in 0..D {
                        p[j] += dir[j] / nn * u * eps;
                    }
                }
                pts.push(p);
            }
        }
        3 => {
            fam = "chain";
            eps = 2f64.powi(rng.range_i64(-30, 4) as i32);
            let step = eps * *rng.pick(&[0.25, 0.5, 0.75, 1.0, 1.25, 0.999, 1.001]);
            let j = rng.usize(D);
            let start = rng.range_i64(-4, 4) as f64 * eps;
            let mut order: Vec<usize> = (0..n).collect();
            if rng.bool() {
                rng.shuffle(&mut order);
            }
            for i in order {
                let mut p = [start; D];
                p[j] = start + i as f64 * step;
                pts.push(p);
            }
        }
        4 => {
            fam = "random53";
            for _ in 0..n {
                let mut p = [0.0; D];
                for x in p.iter_mut() {
                    *x = rng.f64() * 2.0 - 1.0;
                }
                pts.push(p);
            }
            eps = *rng.pick(&[1e-3, 0.05, 0.2, 0.5, 1.0]);
        }
        5 => {
            fam = "extreme_coords";
            let vals = [1e300, -1e300, 1e-300, 5e-324, 1e150, -1e150, 1.0, 0.0, -0.0, 1e-160, 1.0000000000000002e300, 1e200, 1.0000000000000002e200];
            for _ in 0..n {
                let mut p = [0.0; D];
                for x in p.iter_mut() {
                    *x = *rng.pick(&vals);
                }
                pts.push(p);
            }
            eps = *rng.pick(&[1.0, 1e-10, 1e290, 1e190, 1e140, 1e-300, 0.0]);
        }
        6 => {
            fam = "tiny_scale";
            let s = *rng.pick(&[1e-200, 1e-160, 1e-100, 1e-140]);
            for _ in 0..n {
                let mut p = [0.0; D];
                for x in p.iter_mut() {
                    *x = rng.range_i64(-3, 3) as f64 * s;
                }
                pts.push(p);
            }
            eps = s * *rng.pick(&[0.5, 1.5, 3.5]);
        }
        7 => {
            fam = "nonfinite";
            let vals = [f64::NAN, f64::from_bits(0xfff8_0000_0000_0001), f64::INFINITY, f64::NEG_INFINITY, 0.0, -0.0, 1.0];
            for _ in 0..n {
                let mut p = [0.0; D];
                for x in p.iter_mut() {
                    *x = *rng.pick(&vals);
                }
                pts.push(p);
            }
            eps = 0.5;
        }
        8 => {
            fam = "single_or_constant";
            let c = {
                let mut p = [0.0; D];
                for x in p.iter_mut() {
                    *x = rng.f64();
                }
                p
            };
            let k = *rng.pick(&[0usize, 1, 2, 7]);
            for _ in 0..k {
                pts.push(c);
            }
            eps = *rng.pick(&[0.0, 1e-10, 0.1]);
        }
        _ => {
            fam = "lattice_boundary";
            // integer lattice scaled by a power of two, epsilon exactly a lattice distance
            let s = 2f64.powi(rng.range_i64(-10, 10) as i32);
            for _ in 0..n {
                let mut p = [0.0; D];
                for x in p.iter_mut() {
                    *x = rng.range_i64(-3, 3) as f64 * s;
                }
                pts.push(p);
            }
            eps = s * *rng.pick(&[1.0, 2.0, 5.0, 1.0000000000000002, 0.9999999999999999]);
        }
    }
    let list = pts.into_iter().enumerate().map(|(k, p)| rec(rng, p, k)).collect();
    (list, eps, fam)
}

fn gen_reference<const D: usize>(rng: &mut Rng, input: &[VRec<D>]) -> Vec<VRec<D>> {
    let mut r: Vec<VRec<D>> = Vec::new();
    let k = rng.usize(5);
    for i in 0..k {
        if !input.is_empty() && rng.chance(3, 4) {
            let mut p = rng.pick(input).p;
            if rng.bool() {
                // flip the sign of zeros: still the same coordinate class
                for x in p.iter_mut() {
                    if *x == 0.0 {
                        *x = -*x;
                    }
                }
            }
            r.push(rec(rng, p, i));
        } else {
            let mut p = [0.0; D];
            for x in p.iter_mut() {
                *x = rng.f64() + 10.0;
            }
            r.push(rec(rng, p, i));
        }
    }
    r
}

fn dedup_case<const D: usize>(rng: &mut Rng, out: &mut Out, st: &mut DistStats) {
    let (list, eps, fam) = gen_dedup_list::<D>(rng);
    run_dedup_exact(&list, fam, out);
    if fam != "nonfinite" {
        run_dedup_epsilon(&list, eps, fam, out, st);
    }
    let reference = gen_reference(rng, &list);
    run_filter(&list, &reference, fam, out);
}

// =============================================================================================
// Part D: crate-private orderings and dedup policies, observed through batch construction
// =============================================================================================

const ORDERS: [(&str, InsertionOrderStrategy); 4] =
    [("input", InsertionOrderStrategy::Input), ("lexicographic", InsertionOrderStrategy::Lexicographic), ("morton", InsertionOrderStrategy::Morton), ("hilbert", InsertionOrderStrategy::Hilbert)];

fn order_by_name(s: &str) -> Option<InsertionOrderStrategy> {
    ORDERS.iter().find(|(n, _)| *n == s).map(|(_, o)| *o)
}

#[derive(Clone, Copy, Debug, PartialEq)]
enum Pol {
    Off,
    Exact,
    Eps(f64),
}
impl Pol {
    fn name(self) -> &'static str {
        match self {
            Pol::Off => "off",
            Pol::Exact => "exact",
            Pol::Eps(_) => "epsilon",
        }
    }
    fn lib(self) -> DedupPolicy {
        match self {
            Pol::Off => DedupPolicy::Off,
            Pol::Exact => DedupPolicy::Exact,
            Pol::Eps(t) => DedupPolicy::Epsilon { tolerance: t },
        }
    }
}

/// What one successful construction exposes.
struct Observed<const D: usize> {
    verts: Vec<(Uuid, [f64; D])>,
    number_of_vertices: usize,
    inserted: usize,
    skipped: usize,
    skip_samples: Vec<Uuid>,
}

/// Pure checker for one successful construction.
fn check_construct<const D: usize>(input: &[VRec<D>], pol: Pol, ob: &Observed<D>, st: &mut DistStats) -> (Vec<Finding>, bool) {
    let mut f = Vec::new();
    let by_uuid: HashMap<Uuid, usize> = input.iter().enumerate().map(|(i, r)| (r.uuid, i)).collect();
    // scale for the perturbation allowance
    let mut diam = 0.0f64;
    for a in input {
        for b in input {
            let d: f64 = (0..D).map(|j| (a.p[j] - b.p[j]).powi(2)).sum::<f64>().sqrt();
            diam = diam.max(d);
        }
    }
    let allow = 1e-7 * diam.max(1.0);
    let mut present: HashSet<usize> = HashSet::new();
    for (u, p) in &ob.verts {
        let Some(&i) = by_uuid.get(u) else {
            f.push(finding("vertex_not_from_input", format!("triangulation vertex {} at {:?} has a UUID that is not among the {} inputs", u, p, input.len())));
            return (f, false);
        };
        if !present.insert(i) {
            f.push(finding("duplicate_uuid", format!("UUID {} (input {}) occurs twice among the triangulation vertices", u, i)));
            return (f, false);
        }
        let q = &input[i].p;
        if !(0..D).all(|j| p[j].to_bits() == q[j].to_bits() || (p[j] - q[j]).abs() <= allow) {
            f.push(finding("coords_changed", format!("input {} was supplied at {:?} but the triangulation stores {:?} (allowance {:e})", i, q, p, allow)));
            return (f, false);
        }
    }
    if ob.number_of_vertices != ob.verts.len() {
        f.push(finding("vertex_count_mismatch", format!("number_of_vertices() = {} but vertices() yields {}", ob.number_of_vertices, ob.verts.len())));
        return (f, false);
    }
    if ob.inserted != ob.number_of_vertices {
        f.push(finding("inserted_mismatch", format!("statistics report {} inserted vertices, the triangulation has {}", ob.inserted, ob.number_of_vertices)));
        return (f, false);
    }
    let classes: HashSet<[u64; D]> = input.iter().map(|r| class_key(&r.p)).collect();
    let accounted = ob.inserted + ob.skipped;
    match pol {
        Pol::Off => {
            if accounted != input.len() {
                f.push(finding("unaccounted_vertices", format!("{} inputs, but inserted {} + skipped {} = {}", input.len(), ob.inserted, ob.skipped, accounted)));
            }
        }
        Pol::Exact => {
            if accounted != classes.len() {
                f.push(finding("unaccounted_vertices", format!("{} distinct coordinate tuples among {} inputs, but inserted {} + skipped {} = {}", classes.len(), input.len(), ob.inserted, ob.skipped, accounted)));
            }
        }
        Pol::Eps(_) => {
            if accounted > input.len() || (accounted == 0 && !input.is_empty()) {
                f.push(finding("unaccounted_vertices", format!("{} inputs, inserted {} + skipped {} = {}", input.len(), ob.inserted, ob.skipped, accounted)));
            }
        }
    }
    if !f.is_empty() {
        return (f, false);
    }
    // Full survivor set (= what the ordering stage handed to the insertion loop), available when
    // every skipped vertex was sampled.
    if ob.skip_samples.len() != ob.skipped {
        return (f, false);
    }
    let mut surv: Vec<usize> = present.iter().copied().collect();
    for u in &ob.skip_samples {
        match by_uuid.get(u) {
            Some(&i) if !present.contains(&i) && !surv[present.len()..].contains(&i) => surv.push(i),
            Some(&i) => {
                f.push(finding("skipped_and_present", format!("input {} (UUID {}) is reported as skipped but is also a vertex of the result / skipped twice", i, u)));
                return (f, false);
            }
            None => {
                f.push(finding("skipped_not_from_input", format!("skip sample UUID {} is not among the inputs", u)));
                return (f, false);
            }
        }
    }
    surv.sort_unstable();
    let out_recs: Vec<VRec<D>> = surv.iter().map(|&i| input[i].clone()).collect();
    match pol {
        Pol::Off => {
            if surv.len() != input.len() {
                let missing = (0..input.len()).find(|i| !surv.contains(i));
                f.push(finding("ordering_lost_vertex", format!("input {:?} is neither a vertex of the result nor reported as skipped", missing.map(|i| (i, input[i].p)))));
            }
        }
        Pol::Exact => {
            for x in check_exact(input, &out_recs).0 {
                f.push(finding(&format!("policy_exact/{}", x.sig), x.desc));
            }
        }
        Pol::Eps(t) => {
            for x in check_epsilon(input, &out_recs, t, st) {
                f.push(finding(&format!("policy_epsilon/{}", x.sig), x.desc));
            }
        }
    }
    (f, true)
}

fn construct_replay<const D: usize>(input: &[VRec<D>], order: &str, pol: Pol, fam: &str) -> Value {
    let tol = if let Pol::Eps(t) = pol { Some(t) } else { None };
    json!({
        "property": P, "kind": "construct", "D": D, "function": "DelaunayTriangulation::new_with_options_and_construction_statistics",
        "order": order, "policy": pol.name(), "tolerance": tol, "tolerance_bits": tol.map(|t| format!("{:016x}", t.to_bits())),
        "retry_policy": "Disabled", "family": fam, "vertices": vrec_json(input),
    })
}

fn run_construct<const D: usize>(input: &[VRec<D>], order: &str, pol: Pol, fam: &str, out: &mut Out, st: &mut DistStats) {
    let Some(strategy) = order_by_name(order) else {
        out.inconclusive("unknown ordering name");
        return;
    };
    out.eval();
    let tag = format!("construct/{}/{}", order, pol.name());
    out.count(&format!("construct/D{}/cases", D));
    out.nontrivial(&format!("{}|{}|{}", tag, D, ident_list("c", input, if let Pol::Eps(t) = pol { t.to_bits() } else { 0 })));
    let verts: Vec<Vertex<f64, (), D>> = input.iter().map(|r| mk_vertex::<(), D>(r.p, r.uuid, None)).collect();
    let options = ConstructionOptions::default().with_insertion_order(strategy).with_dedup_policy(pol.lib()).with_retry_policy(RetryPolicy::Disabled);
    let r = guard(|| {
        DelaunayTriangulation::new_with_options_and_construction_statistics(&verts, options).map(|(dt, stats)| Observed::<D> {
            verts: dt.vertices().map(|(_, v)| (v.uuid(), *v.point().coords())).collect(),
            number_of_vertices: dt.number_of_vertices(),
            inserted: stats.inserted,
            skipped: stats.total_skipped(),
            skip_samples: stats.skip_samples.iter().map(|s| s.uuid).collect(),
        }).map_err(|e| e.to_string())
    });
    match r {
        Err(pi) => out.panic(P, &pi, "new_with_options_and_construction_statistics", construct_replay(input, order, pol, fam)),
        Ok(Err(_)) => out.count(&format!("{}/construction_err(not judged)", tag)),
        Ok(Ok(ob)) => {
            out.count(&format!("{}/ok", tag));
            out.add("construct/vertices_accounted", (ob.inserted + ob.skipped) as u64);
            out.add("construct/vertices_skipped_by_insertion", ob.skipped as u64);
            let removed_by_policy = input.len().saturating_sub(ob.inserted + ob.skipped);
            out.add(&format!("construct/removed_by_policy_{}", pol.name()), removed_by_policy as u64);
            let (fs, full) = check_construct(input, pol, &ob, st);
            out.count(if full { "construct/full_survivor_set_checked" } else { "construct/count_only_checked" });
            for f in fs {
                out.violation(P, &format!("construct/{}/{}/{}", order, pol.name(), f.sig), format!("{} (D={}, {} inputs): {}", tag, D, input.len(), f.desc), construct_replay(input, order, pol, fam));
            }
        }
    }
}

fn gen_construct_points<const D: usize>(rng: &mut Rng) -> (Vec<VRec<D>>, &'static str) {
    let n = 6 + rng.usize(20);
    let mut pts: Vec<[f64; D]> = Vec::with_capacity(n + 6);
    let lattice = |rng: &mut Rng, m: i64| {
        let mut p = [0.0; D];
        for x in p.iter_mut() {
            *x = rng.range_i64(0, m - 1) as f64 / m as f64;
        }
        p
    };
    let fam: &'static str = match rng.usize(6) {
        0 | 1 => {
            for _ in 0..n {
                pts.push(lattice(rng, 1024));
            }
            "dyadic_random"
        }
        2 => {
            for _ in 0..n {
                pts.push(lattice(rng, 1024));
            }
            for _ in 0..1 + rng.usize(4) {
                let p = *rng.pick(&pts);
                pts.push(p);
            }
            rng.shuffle(&mut pts);
            "exact_duplicates"
        }
        3 => {
            for _ in 0..n {
                let mut p = lattice(rng, 1024);
                if rng.chance(1, 3) {
                    p[rng.usize(D)] = 0.0;
                }
                pts.push(p);
            }
            for _ in 0..1 + rng.usize(3) {
                let mut p = *rng.pick(&pts);
                for x in p.iter_mut() {
                    if *x == 0.0 {
                        *x = -0.0;
                    }
                }
                pts.push(p);
            }
            rng.shuffle(&mut pts);
            "signed_zero_duplicates"
        }
        4 => {
            for _ in 0..n {
                pts.push(lattice(rng, 1024));
            }
            for _ in 0..1 + rng.usize(4) {
                let mut p = *rng.pick(&pts);
                p[rng.usize(D)] += rng.range_i64(1, 8) as f64 / 1048576.0;
                pts.push(p);
            }
            rng.shuffle(&mut pts);
            "near_duplicates"
        }
        _ => {
            for _ in 0..n {
                pts.push(lattice(rng, 8));
            }
            "coarse_grid_ties"
        }
    };
    (pts.into_iter().enumerate().map(|(k, p)| VRec { uuid: rng.uuid(), p, data: Some(k as i32) }).collect(), fam)
}

fn construct_case<const D: usize>(rng: &mut Rng, out: &mut Out, st: &mut DistStats, all_combos: bool) {
    let (input, fam) = gen_construct_points::<D>(rng);
    out.count(&format!("construct/family/{}", fam));
    let mut input = input;
    let mut tol = *rng.pick(&[1.0 / 256.0 + 1.0 / 8192.0, 1e-9, 0.05, 1.0 / 1048576.0 * 4.5]);
    // Coordinate / tolerance ratio regimes of the batch dedup: below 2^53 the hash grid serves the
    // batch, from 2^53 the quantised buckets do, and a vertex whose ratio reaches 2^63 makes the
    // quantised path hand the rest of the stream over to the quadratic scan.
    match rng.usize(6) {
        0 => {
            // whole input scaled into the quantised-bucket regime
            tol = *rng.pick(&[1e-10, 1e-9, 1e-12]);
            let target = tol * 2f64.powi(54 + rng.usize(8) as i32);
            let k = target.log2().ceil() as i32;
            for r in input.iter_mut() {
                for x in r.p.iter_mut() {
                    *x *= 2f64.powi(k);
                }
            }
            out.count("construct/regime/quantised");
        }
        1 => {
            // a few far outliers (ratio >= 2^63) somewhere in the stream, one of them with a twin inside
            // the tolerance: mid-stream fallback to the quadratic scan
            tol = *rng.pick(&[1e-10, 1e-9, 1e-12]);
            let far = tol * 2f64.powi(63 + rng.usize(4) as i32);
            let n_out = 1 + rng.usize(3);
            for k in 0..n_out {
                let mut p = input[rng.usize(input.len())].p;
                let ax = rng.usize(D);
                p[ax] = far * (1.0 + k as f64) * if rng.bool() { 1.0 } else { -1.0 };
                let at = rng.usize(input.len() + 1);
                let data = Some(input.len() as i32);
                input.insert(at, VRec { uuid: rng.uuid(), p, data });
                if k == 0 && rng.bool() {
                    let at2 = rng.usize(input.len() + 1);
                    let data = Some(input.len() as i32);
                    input.insert(at2, VRec { uuid: rng.uuid(), p, data });
                }
            }
            out.count("construct/regime/fallback-outliers");
        }
        _ => out.count("construct/regime/hash-grid"),
    }
    let pols = [Pol::Off, Pol::Exact, Pol::Eps(tol)];
    if all_combos {
        for (oname, _) in ORDERS.iter() {
            for pol in pols {
                run_construct(&input, oname, pol, fam, out, st);
            }
        }
    } else {
        let (oname, _) = *rng.pick(&ORDERS);
        let pol = *rng.pick(&pols);
        run_construct(&input, oname, pol, fam, out, st);
    }
}

// =============================================================================================
// Self-check: every pure checker must reject a deliberately wrong answer
// =============================================================================================

fn morton2(c: &[u32; 2], nbits: u32) -> u128 {
    let mut i = 0u128;
    for b in (0..nbits).rev() {
        i = (i << 1) | ((c[0] >> b) & 1) as u128;
        i = (i << 1) | ((c[1] >> b) & 1) as u128;
    }
    i
}

fn selfcheck(out: &mut Out) {
    let mut failed: Vec<&str> = Vec::new();
    let mut expect = |name: &'static str, ok: bool, out: &mut Out| {
        out.count(if ok { "selfcheck/detected" } else { "selfcheck/MISSED" });
        if !ok {
            failed.push(name);
        }
    };
    // curve: Z-order is a bijection but not continuous; a clamped curve is not injective;
    // the genuine boustrophedon scan is accepted.
    let r = check_curve::<2>(3, &mut |cells| Ok(cells.iter().map(|c| morton2(c, 3)).collect()));
    expect("curve: z-order must fail adjacency only", r.findings.iter().any(|(f, _)| f.sig == "adjacency") && !r.findings.iter().any(|(f, _)| f.sig == "bijection"), out);
    let r = check_curve::<2>(3, &mut |cells| Ok(cells.iter().map(|c| morton2(c, 3).min(62)).collect()));
    expect("curve: collision must fail bijection", r.findings.iter().any(|(f, _)| f.sig == "bijection"), out);
    let r = check_curve::<2>(3, &mut |cells| Ok(cells.iter().map(|c| morton2(c, 3) + 1).collect()));
    expect("curve: shifted range must fail", r.findings.iter().any(|(f, _)| f.sig == "range"), out);
    let r = check_curve::<2>(3, &mut |cells| Ok(cells.iter().map(|c| (c[1] * 8 + if c[1] % 2 == 0 { c[0] } else { 7 - c[0] }) as u128).collect()));
    expect("curve: snake scan must pass", r.findings.is_empty() && r.cells == 64 && r.steps == 63, out);

    // sort checkers
    let items: Vec<(usize, [f64; 1])> = vec![(0, [0.5]), (1, [0.25]), (2, [0.5])];
    let keys: Vec<Key<1>> = vec![(2, [2]), (1, [1]), (2, [2])];
    expect("sort: correct stable order passes", check_sorted_items(&items, &[items[1], items[0], items[2]], Some(&keys), true).is_empty(), out);
    expect("sort: instability detected", check_sorted_items(&items, &[items[1], items[2], items[0]], Some(&keys), true).iter().any(|f| f.sig == "not_stable"), out);
    expect("sort: instability tolerated for the unstable helper", check_sorted_items(&items, &[items[1], items[2], items[0]], Some(&keys), false).is_empty(), out);
    expect("sort: disorder detected", check_sorted_items(&items, &[items[0], items[1], items[2]], Some(&keys), false).iter().any(|f| f.sig == "not_sorted"), out);
    expect("sort: lost item detected", check_sorted_items(&items, &[items[1], items[0], items[0]], Some(&keys), false).iter().any(|f| f.sig == "not_permutation"), out);
    expect("sort: altered coordinate detected", check_sorted_items(&items, &[items[1], (0, [-0.5]), items[2]], Some(&keys), false).iter().any(|f| f.sig == "not_permutation"), out);

    // dedup checkers
    let mut rng = Rng::new(0xC17);
    let mk = |rng: &mut Rng, p: [f64; 2], k: usize| VRec::<2> { uuid: rng.uuid(), p, data: Some(k as i32) };
    let input = vec![mk(&mut rng, [0.0, 0.0], 0), mk(&mut rng, [-0.0, 0.0], 1), mk(&mut rng, [1.0, 0.0], 2), mk(&mut rng, [1.05, 0.0], 3), mk(&mut rng, [3.0, 0.0], 4)];
    let pick = |ix: &[usize]| ix.iter().map(|&i| input[i].clone()).collect::<Vec<_>>();
    expect("exact: correct answer passes", check_exact(&input, &pick(&[0, 2, 3, 4])).0.is_empty(), out);
    expect("exact: signed-zero duplicate kept", check_exact(&input, &pick(&[0, 1, 2, 3, 4])).0.iter().any(|f| f.sig == "duplicate_kept"), out);
    expect("exact: unique dropped", check_exact(&input, &pick(&[0, 2, 4])).0.iter().any(|f| f.sig == "unique_dropped"), out);
    expect("exact: same vertex twice", check_exact(&input, &pick(&[0, 2, 2, 3, 4])).0.iter().any(|f| f.sig == "not_from_input"), out);
    let mut invented = pick(&[0, 2, 3, 4]);
    invented[1].p[1] = 1e-300;
    expect("exact: altered coordinate", check_exact(&input, &invented).0.iter().any(|f| f.sig == "not_from_input"), out);
    let mut st = DistStats::default();
    expect("epsilon: correct answer passes", check_epsilon(&input, &pick(&[0, 2, 4]), 0.1, &mut st).is_empty(), out);
    expect("epsilon: close survivors detected", check_epsilon(&input, &pick(&[0, 2, 3, 4]), 0.1, &mut st).iter().any(|f| f.sig == "survivors_too_close"), out);
    expect("epsilon: far drop detected", check_epsilon(&input, &pick(&[0, 2]), 0.1, &mut st).iter().any(|f| f.sig == "dropped_far_from_survivors"), out);
    expect("epsilon: boundary distance tolerated", check_epsilon(&input, &pick(&[0, 2, 3, 4]), 0.05, &mut st).is_empty(), out);
    let tiny = vec![mk(&mut rng, [1e-200, 0.0], 0), mk(&mut rng, [1e-200, 0.0], 1)];
    expect("epsilon: exact path below f64 range", check_epsilon(&tiny, &tiny, 3e-200, &mut st).iter().any(|f| f.sig == "survivors_too_close") && st.exact > 0, out);
    expect("filter: correct answer passes", check_filter(&input, &pick(&[1]), &pick(&[2, 3, 4])).0.is_empty(), out);
    expect("filter: excluded vertex kept", check_filter(&input, &pick(&[1]), &pick(&[0, 2, 3, 4])).0.iter().any(|f| f.sig == "wrong_result"), out);
    expect("filter: vertex lost", check_filter(&input, &pick(&[1]), &pick(&[2, 4])).0.iter().any(|f| f.sig == "wrong_result"), out);

    // construction checker
    let ob = |ix: &[usize], inserted: usize, skipped: usize, samples: &[usize]| Observed::<2> {
        verts: ix.iter().map(|&i| (input[i].uuid, input[i].p)).collect(),
        number_of_vertices: ix.len(),
        inserted,
        skipped,
        skip_samples: samples.iter().map(|&i| input[i].uuid).collect(),
    };
    expect("construct: off, all accounted", check_construct(&input, Pol::Off, &ob(&[0, 2, 3, 4], 4, 1, &[1]), &mut st).0.is_empty(), out);
    expect("construct: off, vertex lost", check_construct(&input, Pol::Off, &ob(&[0, 2, 4], 3, 1, &[1]), &mut st).0.iter().any(|f| f.sig == "unaccounted_vertices"), out);
    expect("construct: off, wrong vertex reported skipped", check_construct(&input, Pol::Off, &ob(&[0, 2, 3, 4], 4, 1, &[0]), &mut st).0.iter().any(|f| f.sig == "skipped_and_present"), out);
    expect("construct: exact, one per class", check_construct(&input, Pol::Exact, &ob(&[1, 2, 3, 4], 4, 0, &[]), &mut st).0.is_empty(), out);
    expect("construct: exact, class lost", check_construct(&input, Pol::Exact, &ob(&[1, 2, 3], 3, 0, &[]), &mut st).0.iter().any(|f| f.sig == "unaccounted_vertices"), out);
    expect("construct: exact, duplicate class kept", check_construct(&input, Pol::Exact, &ob(&[0, 1, 2, 3], 4, 0, &[]), &mut st).0.iter().any(|f| f.sig.starts_with("policy_exact/")), out);
    expect("construct: epsilon, survivors too close", check_construct(&input, Pol::Eps(0.1), &ob(&[0, 2, 3, 4], 4, 0, &[]), &mut st).0.iter().any(|f| f.sig == "policy_epsilon/survivors_too_close"), out);
    expect("construct: inserted mismatch", check_construct(&input, Pol::Off, &ob(&[0, 2, 3, 4], 5, 0, &[]), &mut st).0.iter().any(|f| f.sig == "inserted_mismatch"), out);
    let mut moved = ob(&[0, 1, 2, 3, 4], 5, 0, &[]);
    moved.verts[2].1[0] += 1e-3;
    expect("construct: moved vertex", check_construct(&input, Pol::Off, &moved, &mut st).0.iter().any(|f| f.sig == "coords_changed"), out);
    let mut foreign = ob(&[0, 1, 2, 3, 4], 5, 0, &[]);
    foreign.verts[0].0 = rng.uuid();
    expect("construct: foreign uuid", check_construct(&input, Pol::Off, &foreign, &mut st).0.iter().any(|f| f.sig == "vertex_not_from_input"), out);

    if !failed.is_empty() {
        out.notes.push(format!("HARNESS-ERROR C17 selfcheck: checker failed to behave as expected on: {:?}", failed));
        out.inconclusive("C17 selfcheck failed");
    }
}

// =============================================================================================
// Replay
// =============================================================================================

fn parse_pt<const D: usize>(v: &Value) -> Option<[f64; D]> {
    let b = v.get("bits")?.as_array()?;
    if b.len() != D {
        return None;
    }
    let mut p = [0.0; D];
    for (i, x) in b.iter().enumerate() {
        p[i] = f64::from_bits(u64::from_str_radix(x.as_str()?, 16).ok()?);
    }
    Some(p)
}
fn parse_f64_bits(v: &Value) -> Option<f64> {
    Some(f64::from_bits(u64::from_str_radix(v.as_str()?, 16).ok()?))
}
fn parse_vrecs<const D: usize>(v: &Value) -> Option<Vec<VRec<D>>> {
    v.as_array()?
        .iter()
        .map(|r| Some(VRec { uuid: Uuid::parse_str(r.get("uuid")?.as_str()?).ok()?, p: parse_pt::<D>(r)?, data: r.get("data").and_then(Value::as_i64).map(|d| d as i32) }))
        .collect()
}

fn replay_d<const D: usize>(doc: &Value, out: &mut Out) {
    let mut st = DistStats::default();
    let ok: Option<()> = (|| {
        match doc["kind"].as_str()? {
            "hilbert_exhaustive" => {
                let b = doc["bits"].as_u64()? as u32;
                if b == 0 || D as u32 * b > 24 {
                    return None;
                }
                exhaustive_pair::<D>(b, out);
            }
            "hilbert_sampled" => {
                let b = doc["bits"].as_u64()? as u32;
                let c = doc["cell"].as_array()?;
                if c.len() != D || b == 0 || b > 31 {
                    return None;
                }
                let mut cell = [0u32; D];
                for (j, x) in c.iter().enumerate() {
                    cell[j] = x.as_u64()? as u32;
                }
                let mut rng = Rng::new(0);
                sampled_curve::<D>(&mut rng, out, Some((b, cell)));
            }
            "hilbert_list" => {
                let b = doc["bits"].as_u64()? as u32;
                let bb = doc["bounds"]["bits"].as_array()?;
                let bounds = (parse_f64_bits(&bb[0])?, parse_f64_bits(&bb[1])?);
                let coords: Vec<[f64; D]> = doc["coords"].as_array()?.iter().map(parse_pt::<D>).collect::<Option<_>>()?;
                run_hilbert_list(&coords, bounds, b, doc["family"].as_str().unwrap_or("replay"), out);
            }
            "dedup" => {
                let input = parse_vrecs::<D>(&doc["vertices"])?;
                let fam = doc["family"].as_str().unwrap_or("replay");
                match doc["function"].as_str()? {
                    "dedup_vertices_exact" => run_dedup_exact(&input, fam, out),
                    "dedup_vertices_epsilon" => run_dedup_epsilon(&input, parse_f64_bits(&doc["tolerance_bits"])?, fam, out, &mut st),
                    "filter_vertices_excluding" => run_filter(&input, &parse_vrecs::<D>(&doc["reference"])?, fam, out),
                    _ => return None,
                }
            }
            "construct" => {
                let input = parse_vrecs::<D>(&doc["vertices"])?;
                let pol = match doc["policy"].as_str()? {
                    "off" => Pol::Off,
                    "exact" => Pol::Exact,
                    "epsilon" => Pol::Eps(parse_f64_bits(&doc["tolerance_bits"])?),
                    _ => return None,
                };
                run_construct(&input, doc["order"].as_str()?, pol, doc["family"].as_str().unwrap_or("replay"), out, &mut st);
            }
            _ => return None,
        }
        Some(())
    })();
    if ok.is_none() {
        out.inconclusive("bad replay document");
    }
    out.add("distance_comparisons/f64_shortcut", st.fast);
    out.add("distance_comparisons/exact", st.exact);
}

// =============================================================================================
// Entry point
// =============================================================================================

pub fn run(ctx: &Ctx, out: &mut Out) {
    out.exhaustive = Some(false); // curve sub-spaces are complete; lists and constructions are sampled
    if let Some(doc) = &ctx.replay {
        match doc["D"].as_u64() {
            Some(d @ 1..=5) => d15!(d, replay_d, (doc, out)),
            _ => out.inconclusive("bad replay document"),
        }
        return;
    }
    selfcheck(out);
    exhaustive_phase(ctx, out);
    out.add("wall_ms/after_exhaustive", (ctx.elapsed() * 1000.0) as u64);

    let mut st = DistStats::default();
    let thorough = ctx.tier == Tier::Thorough;
    let cap_rounds = ((if thorough { 40_000.0 } else { 1_500.0 }) * ctx.scale) as u64;
    let mut round = 0u64;
    while round < cap_rounds && !ctx.out_of_time() {
        // Hilbert lists and sampled curve cells, all dimensions
        for d in 1..=5usize {
            for k in 0..4u64 {
                let mut rng = Rng::new(ctx.case_seed((1u64 << 40) | (round * 64 + d as u64 * 8 + k)));
                fn hl<const D: usize>(rng: &mut Rng, out: &mut Out, first: bool) {
                    let (coords, bounds, nbits, fam) = gen_hilbert_list::<D>(rng);
                    if first && D == 2 {
                        out.sample(json!({"kind": "hilbert_list", "D": D, "bits": nbits, "bounds": [bounds.0, bounds.1], "family": fam, "n": coords.len(), "first_points": coords.iter().take(3).map(|c| c.to_vec()).collect::<Vec<_>>()}));
                    }
                    run_hilbert_list(&coords, bounds, nbits, fam, out);
                    for _ in 0..4 {
                        sampled_curve::<D>(rng, out, None);
                    }
                }
                d15!(d, hl, (&mut rng, out, round == 0 && k == 0));
            }
        }
        if ctx.out_of_time() {
            break;
        }
        // dedup helpers, all dimensions
        for d in 1..=5usize {
            for k in 0..3u64 {
                let mut rng = Rng::new(ctx.case_seed((2u64 << 40) | (round * 64 + d as u64 * 8 + k)));
                d15!(d, dedup_case, (&mut rng, out, &mut st));
            }
        }
        if ctx.out_of_time() {
            break;
        }
        // constructions: D = 2 and 3, every ordering x every policy on the same point set
        {
            let mut rng = Rng::new(ctx.case_seed((3u64 << 40) | round));
            if round % 2 == 0 {
                construct_case::<2>(&mut rng, out, &mut st, true);
            } else {
                construct_case::<3>(&mut rng, out, &mut st, true);
            }
        }
        round += 1;
    }
    if ctx.out_of_time() {
        out.count("random/stopped_by_budget");
    }
    out.add("random/rounds", round);
    out.add("distance_comparisons/f64_shortcut", st.fast);
    out.add("distance_comparisons/exact", st.exact);
    out.sample(json!({
        "exhaustive_subspaces": format!("every cell of [0,2^bits)^D for all (D,bits) with D in 1..=5 and D*bits <= {} assigned to this shard (see hilbert/exhaustive/*_done)", if thorough { 20 } else { 14 }),
        "sampled": "Hilbert lists (ties, signed zeros, extremes, non-finite, degenerate bounds, invalid bits), dedup lists (D=1..5), constructions (D=2,3; 4 orderings x Off/Exact/Epsilon)"
    }));
}
