//! C17 — insertion orderings, dedup policies and the Hilbert curve neither invent nor lose vertices.
//!
//! Oracles (all independent of the library's own arithmetic):
//! * Hilbert curve: complete enumeration of every grid cell for (D, bits) with D*bits <= 14
//!   (quick) / 20 (thorough): the map cell -> index must be a bijection onto 0..2^(D*bits) and
//!   cells with consecutive indices must be at L1 distance exactly 1. At larger bit depths a
//!   sampled consequence is checked: exactly one grid neighbour of a cell carries index+1 (-1).
//! * sort helpers: multiset equality of (id, coordinate bits), key order, stability.
//! * dedup helpers: sub-multiset of (UUID, coordinate bits, data); exact dedup: one survivor per
//!   coordinate class (+0 == -0, NaN == NaN); epsilon dedup: exact squared distances (dyadic
//!   arithmetic) against (0.999 eps)^2 and (1.001 eps)^2.
//! * crate-private orderings / policies: observed through batch construction; the vertex set of
//!   the result plus the skip statistics must account for every input.

use crate::api::mk_vertex;
use crate::common::{Ctx, Out, PanicInfo, Tier, bits, guard, pts_json};
use crate::exact::{self, Dy};
use crate::rng::Rng;
use delaunay::core::delaunay_triangulation::{ConstructionOptions, DedupPolicy, DelaunayTriangulation, InsertionOrderStrategy, RetryPolicy};
use delaunay::core::util::{
    dedup_vertices_epsilon, dedup_vertices_exact, filter_vertices_excluding, hilbert_index, hilbert_indices_prequantized, hilbert_quantize, hilbert_sort_by_stable,
    hilbert_sort_by_unstable, hilbert_sorted_indices,
};
use delaunay::core::vertex::Vertex;
use serde_json::{Value, json};
use std::cmp::Ordering;
use std::collections::{HashMap, HashSet, VecDeque};
use uuid::Uuid;

const P: &str = "C17";

macro_rules! d15 {
    ($d:expr, $f:ident, ($($a:expr),*)) => {
        match $d {
            1 => $f::<1>($($a),*),
            2 => $f::<2>($($a),*),
            3 => $f::<3>($($a),*),
            4 => $f::<4>($($a),*),
            5 => $f::<5>($($a),*),
            _ => panic!("unsupported dimension"),
        }
    };
}

/// One refutation found by a pure checker (signature suffix, description).
#[derive(Clone, Debug)]
struct Finding {
    sig: String,
    desc: String,
}
fn finding(sig: &str, desc: String) -> Finding {
    Finding { sig: sig.to_string(), desc }
}

// =============================================================================================
// Part A: the curve
// =============================================================================================

fn decode<const D: usize>(code: u32, nbits: u32) -> [u32; D] {
    let mask = (1u32 << nbits) - 1;
    let mut c = [0u32; D];
    for (j, x) in c.iter_mut().enumerate() {
        *x = (code >> (nbits * j as u32)) & mask;
    }
    c
}

fn l1<const D: usize>(a: &[u32; D], b: &[u32; D]) -> u64 {
    (0..D).map(|j| a[j].abs_diff(b[j]) as u64).sum()
}

struct CurveReport {
    cells: u64,
    steps: u64,
    findings: Vec<(Finding, Value)>,
}

/// Complete check of one (D, bits) grid. `index_of` maps a batch of cells to their indices.
/// Pure with respect to the library: the index function is a parameter, so the checker itself can
/// be exercised with deliberately wrong curves (see `selfcheck`).
fn check_curve<const D: usize>(nbits: u32, index_of: &mut dyn FnMut(&[[u32; D]]) -> Result<Vec<u128>, String>) -> CurveReport {
    let nb = D as u32 * nbits;
    assert!(nb <= 24, "exhaustive curve check limited to 2^24 cells");
    let total: usize = 1usize << nb;
    let mut inv: Vec<u32> = vec![u32::MAX; total];
    let mut rep = CurveReport { cells: 0, steps: 0, findings: Vec::new() };
    let (mut n_range, mut n_coll) = (0u64, 0u64);
    let chunk = 4096usize.min(total);
    let mut code = 0usize;
    while code < total {
        let hi = (code + chunk).min(total);
        let cells: Vec<[u32; D]> = (code..hi).map(|c| decode::<D>(c as u32, nbits)).collect();
        let v = match index_of(&cells) {
            Ok(v) => v,
            Err(e) => {
                rep.findings.push((finding("error", format!("index function failed on a valid grid D={} bits={}: {}", D, nbits, e)), json!({"first_cell": cells[0].to_vec()})));
                return rep;
            }
        };
        if v.len() != cells.len() {
            rep.findings.push((finding("length", format!("{} cells in, {} indices out", cells.len(), v.len())), json!({"first_cell": cells[0].to_vec()})));
            return rep;
        }
        for (k, &idx) in v.iter().enumerate() {
            rep.cells += 1;
            let c = (code + k) as u32;
            if idx >= total as u128 {
                n_range += 1;
                if n_range == 1 {
                    rep.findings.push((
                        finding("range", format!("cell {:?} has index {} outside 0..2^{}", cells[k], idx, nb)),
                        json!({"cell": cells[k].to_vec(), "index": idx.to_string()}),
                    ));
                }
                continue;
            }
            let slot = &mut inv[idx as usize];
            if *slot != u32::MAX {
                n_coll += 1;
                if n_coll == 1 {
                    let other = decode::<D>(*slot, nbits);
                    rep.findings.push((
                        finding("bijection", format!("cells {:?} and {:?} share Hilbert index {} (D={}, bits={})", other, cells[k], idx, D, nbits)),
                        json!({"cell_a": other.to_vec(), "cell_b": cells[k].to_vec(), "index": idx.to_string()}),
                    ));
                }
                continue;
            }
            *slot = c;
        }
        code = hi;
    }
    let missing = inv.iter().filter(|&&x| x == u32::MAX).count() as u64;
    if missing > 0 && n_coll == 0 && n_range == 0 {
        rep.findings.push((finding("bijection", format!("{} indices of 0..2^{} are never produced", missing, nb)), json!({"missing": missing})));
    }
    if let Some((f, _)) = rep.findings.iter_mut().find(|(f, _)| f.sig == "bijection" || f.sig == "range") {
        f.desc.push_str(&format!(" [collisions {}, out of range {}, unused indices {}]", n_coll, n_range, missing));
    }
    let mut n_adj = 0u64;
    for i in 0..total.saturating_sub(1) {
        let (a, b) = (inv[i], inv[i + 1]);
        if a == u32::MAX || b == u32::MAX {
            continue;
        }
        rep.steps += 1;
        let (ca, cb) = (decode::<D>(a, nbits), decode::<D>(b, nbits));
        if l1(&ca, &cb) != 1 {
            n_adj += 1;
            if n_adj == 1 {
                rep.findings.push((
                    finding("adjacency", format!("indices {} and {} belong to cells {:?} and {:?} at L1 distance {} (D={}, bits={})", i, i + 1, ca, cb, l1(&ca, &cb), D, nbits)),
                    json!({"index": i, "cell_a": ca.to_vec(), "cell_b": cb.to_vec()}),
                ));
            }
        }
    }
    if n_adj > 1 {
        if let Some((f, _)) = rep.findings.iter_mut().find(|(f, _)| f.sig == "adjacency") {
            f.desc.push_str(&format!(" [{} non-adjacent steps in total]", n_adj));
        }
    }
    rep
}

fn max_index(d: usize, nbits: u32) -> u128 {
    let nb = d as u32 * nbits;
    if nb >= 128 { u128::MAX } else { (1u128 << nb) - 1 }
}

fn exhaustive_pair<const D: usize>(nbits: u32, out: &mut Out) {
    let tag = format!("D{}b{}", D, nbits);
    let replay = json!({"property": P, "kind": "hilbert_exhaustive", "D": D, "bits": nbits, "function": "hilbert_indices_prequantized / hilbert_index"});
    let mut pinfo: Option<PanicInfo> = None;
    let mut float_mismatch: Option<(Finding, Value)> = None;
    let mut n_float = 0u64;
    let mut roundtrip_bad = 0u64;
    let side_max = ((1u32 << nbits) - 1) as f64;
    let bounds = (0.0f64, side_max);
    let mut index_of = |cells: &[[u32; D]]| -> Result<Vec<u128>, String> {
        let r = guard(|| hilbert_indices_prequantized(cells, nbits));
        let v = match r {
            Ok(Ok(v)) => v,
            Ok(Err(e)) => return Err(format!("hilbert_indices_prequantized returned Err({})", e)),
            Err(pi) => {
                let m = format!("panic: {}", pi.message);
                pinfo = Some(pi);
                return Err(m);
            }
        };
        // float path: the cell's own coordinates under bounds (0, 2^bits - 1) quantise to the cell
        let fl = guard(|| {
            let mut bad: Option<(Finding, Value)> = None;
            let mut rt = 0u64;
            for (k, c) in cells.iter().enumerate() {
                let mut x = [0.0f64; D];
                for j in 0..D {
                    x[j] = c[j] as f64;
                }
                let q = hilbert_quantize(&x, bounds, nbits);
                let i = hilbert_index(&x, bounds, nbits);
                match (q, i) {
                    (Ok(q), Ok(i)) => {
                        if q != *c {
                            rt += 1;
                        } else if k < v.len() && i != v[k] && bad.is_none() {
                            bad = Some((
                                finding("index_vs_prequantized", format!("hilbert_index({:?}, {:?}, {}) = {} but hilbert_indices_prequantized of its quantisation {:?} = {}", x, bounds, nbits, i, q, v[k])),
                                json!({"coords": x.to_vec(), "bits_hex": bits(&x), "bounds": [bounds.0, bounds.1], "cell": c.to_vec()}),
                            ));
                        }
                    }
                    (q, i) => {
                        if bad.is_none() {
                            bad = Some((
                                finding("unexpected_error", format!("valid parameters D={} bits={} rejected: quantize {:?}, index {:?}", D, nbits, q.err(), i.err())),
                                json!({"coords": x.to_vec(), "bits_hex": bits(&x), "bounds": [bounds.0, bounds.1]}),
                            ));
                        }
                    }
                }
            }
            (bad, rt)
        });
        match fl {
            Ok((bad, rt)) => {
                n_float += cells.len() as u64;
                roundtrip_bad += rt;
                if float_mismatch.is_none() {
                    float_mismatch = bad;
                }
            }
            Err(pi) => {
                let m = format!("panic: {}", pi.message);
                pinfo = Some(pi);
                return Err(m);
            }
        }
        Ok(v)
    };
    let rep = check_curve::<D>(nbits, &mut index_of);
    out.eval();
    out.nontrivial(&format!("hilbert/exhaustive/{}", tag));
    out.add("hilbert/exhaustive/cells_total", rep.cells);
    out.add(&format!("hilbert/exhaustive/{}_cells", tag), rep.cells);
    out.add("hilbert/exhaustive/steps_checked", rep.steps);
    out.add("hilbert/exhaustive/float_path_cells", n_float);
    if roundtrip_bad > 0 {
        out.add("hilbert/exhaustive/grid_point_not_quantised_to_itself", roundtrip_bad);
        out.inconclusive("hilbert_quantize did not map a grid point to its own cell (float path not comparable)");
    }
    if let Some(pi) = pinfo {
        out.panic(P, &pi, "hilbert_indices_prequantized/hilbert_index", replay.clone());
    }
    let complete = rep.findings.is_empty() && rep.cells == 1u64 << (D as u32 * nbits);
    for (f, w) in rep.findings {
        let mut r = replay.clone();
        r["witness"] = w;
        out.violation(P, &format!("hilbert/{}/{}", f.sig, tag), f.desc, r);
    }
    if let Some((f, w)) = float_mismatch {
        let mut r = replay.clone();
        r["witness"] = w;
        out.violation(P, &format!("hilbert/{}/{}", f.sig, tag), f.desc, r);
    }
    if complete {
        out.count("hilbert/exhaustive/pairs_fully_enumerated");
        out.count(&format!("hilbert/exhaustive/{}_done", tag));
    }
}

fn exhaustive_pairs(limit: u32) -> Vec<(usize, u32)> {
    let mut v = Vec::new();
    for d in 1..=5usize {
        let mut b = 1u32;
        while d as u32 * b <= limit {
            v.push((d, b));
            b += 1;
        }
    }
    v
}

fn exhaustive_phase(ctx: &Ctx, out: &mut Out) {
    let limit = if ctx.tier == Tier::Thorough { 20 } else { 14 };
    let pairs = exhaustive_pairs(limit);
    out.add("hilbert/exhaustive/pairs_in_tier", pairs.len() as u64);
    for (i, (d, b)) in pairs.iter().enumerate() {
        if (i as u64) % ctx.nshards.max(1) != ctx.shard {
            continue;
        }
        d15!(*d, exhaustive_pair, (*b, out));
    }
}

/// Sampled consequence of bijection + adjacency at bit depths that cannot be enumerated:
/// for a cell with index i, exactly one of its 2D grid neighbours has index i+1 (if i is not the
/// last index) and exactly one has index i-1 (if i > 0); all of them are distinct and in range.
fn sampled_curve<const D: usize>(rng: &mut Rng, out: &mut Out, forced: Option<(u32, [u32; D])>) {
    let maxbits = (128 / D as u32).min(31);
    let (nbits, cell) = match forced {
        Some(x) => x,
        None => {
            let nbits = if rng.chance(1, 4) { maxbits } else { 1 + rng.below(maxbits as u64) as u32 };
            let side = 1u64 << nbits;
            let mut c = [0u32; D];
            for x in c.iter_mut() {
                *x = match rng.usize(6) {
                    0 => 0,
                    1 => (side - 1) as u32,
                    2 => (side / 2) as u32,
                    3 => (side / 2).saturating_sub(1) as u32,
                    _ => rng.below(side) as u32,
                };
            }
            (nbits, c)
        }
    };
    let side = 1u64 << nbits;
    let mut cells: Vec<[u32; D]> = vec![cell];
    for j in 0..D {
        if cell[j] > 0 {
            let mut n = cell;
            n[j] -= 1;
            cells.push(n);
        }
        if (cell[j] as u64) + 1 < side {
            let mut n = cell;
            n[j] += 1;
            cells.push(n);
        }
    }
    let replay = json!({"property": P, "kind": "hilbert_sampled", "D": D, "bits": nbits, "cell": cell.to_vec(), "function": "hilbert_indices_prequantized"});
    out.eval();
    out.count(&format!("hilbert/sampled/D{}", D));
    out.nontrivial(&format!("hs|{}|{}|{:?}", D, nbits, cell));
    let v = match guard(|| hilbert_indices_prequantized(&cells, nbits)) {
        Ok(Ok(v)) => v,
        Ok(Err(e)) => {
            out.violation(P, &format!("hilbert/unexpected_error/D{}", D), format!("hilbert_indices_prequantized rejected valid parameters D={} bits={}: {}", D, nbits, e), replay);
            return;
        }
        Err(pi) => {
            out.panic(P, &pi, "hilbert_indices_prequantized", replay);
            return;
        }
    };
    if v.len() != cells.len() {
        out.violation(P, &format!("hilbert/sampled/length/D{}", D), format!("{} cells in, {} indices out", cells.len(), v.len()), replay);
        return;
    }
    let mx = max_index(D, nbits);
    if v.iter().any(|&i| i > mx) {
        out.violation(P, &format!("hilbert/sampled/range/D{}", D), format!("index beyond 2^{}-1 among {:?} for cells {:?}", D as u32 * nbits, v, cells), replay);
        return;
    }
    let set: HashSet<u128> = v.iter().copied().collect();
    if set.len() != v.len() {
        out.violation(P, &format!("hilbert/sampled/bijection/D{}", D), format!("distinct cells {:?} share an index: {:?} (bits={})", cells, v, nbits), replay);
        return;
    }
    let i0 = v[0];
    let succ = v[1..].iter().filter(|&&i| i0 < mx && i == i0 + 1).count();
    let pred = v[1..].iter().filter(|&&i| i0 > 0 && i == i0 - 1).count();
    let want_succ = usize::from(i0 < mx);
    let want_pred = usize::from(i0 > 0);
    if succ != want_succ || pred != want_pred {
        out.violation(
            P,
            &format!("hilbert/sampled/adjacency/D{}", D),
            format!("cell {:?} (bits={}) has index {}; grid neighbours carry indices {:?}: {} of them = index+1 (want {}), {} = index-1 (want {})", cell, nbits, i0, &v[1..], succ, want_succ, pred, want_pred),
            replay,
        );
    }
}

// =============================================================================================
// Part B: quantisation and the sort helpers on adversarial coordinate lists
// =============================================================================================

type Key<const D: usize> = (u128, [u32; D]);

fn same_bits<const D: usize>(a: &[f64; D], b: &[f64; D]) -> bool {
    (0..D).all(|j| a[j].to_bits() == b[j].to_bits())
}

/// Pure checker: `sorted` must be a permutation of `items` (ids 0..n, coordinates bit-identical)
/// ordered by `keys[id]`; if `stable`, equal keys keep ascending id.
fn check_sorted_items<const D: usize>(items: &[(usize, [f64; D])], sorted: &[(usize, [f64; D])], keys: Option<&[Key<D>]>, stable: bool) -> Vec<Finding> {
    let mut f = Vec::new();
    let n = items.len();
    let mut seen = vec![false; n];
    let mut perm_ok = sorted.len() == n;
    for (id, c) in sorted {
        if *id >= n || seen[*id] || !same_bits(c, &items[*id].1) {
            perm_ok = false;
            break;
        }
        seen[*id] = true;
    }
    if !perm_ok {
        f.push(finding("not_permutation", format!("output is not a permutation of the {} input items (ids out: {:?})", n, sorted.iter().map(|x| x.0).collect::<Vec<_>>())));
        return f;
    }
    if let Some(keys) = keys {
        for w in sorted.windows(2) {
            let (a, b) = (w[0].0, w[1].0);
            match keys[a].cmp(&keys[b]) {
                Ordering::Greater => {
                    f.push(finding("not_sorted", format!("item {} (key {:?}) precedes item {} (key {:?})", a, keys[a], b, keys[b])));
                    break;
                }
                Ordering::Equal if stable && a > b => {
                    f.push(finding("not_stable", format!("items {} and {} have equal key {:?} but were reordered", b, a, keys[a])));
                    break;
                }
                _ => {}
            }
        }
    }
    f
}

fn list_replay<const D: usize>(coords: &[[f64; D]], bounds: (f64, f64), nbits: u32, fam: &str, func: &str) -> Value {
    json!({
        "property": P, "kind": "hilbert_list", "D": D, "bits": nbits, "family": fam, "function": func,
        "bounds": {"x": [bounds.0, bounds.1], "bits": [format!("{:016x}", bounds.0.to_bits()), format!("{:016x}", bounds.1.to_bits())]},
        "coords": pts_json(coords),
    })
}

fn report<const D: usize>(out: &mut Out, prefix: &str, fs: Vec<Finding>, replay: &dyn Fn(&str) -> Value) {
    for f in fs {
        out.violation(P, &format!("{}/{}", prefix, f.sig), format!("{}: {}", prefix, f.desc), replay(prefix));
    }
    let _ = D;
}

fn run_hilbert_list<const D: usize>(coords: &[[f64; D]], bounds: (f64, f64), nbits: u32, fam: &str, out: &mut Out) {
    let n = coords.len();
    let valid = (1..=31).contains(&nbits) && (D as u32) * nbits <= 128;
    let rp = |func: &str| list_replay(coords, bounds, nbits, fam, func);
    out.eval();
    out.count(&format!("hilbert_list/D{}/{}", D, fam));
    let distinct_pts: HashSet<[u64; D]> = coords.iter().map(|c| c.map(f64::to_bits)).collect();
    if distinct_pts.len() >= 2 {
        out.nontrivial(&format!("hl|{}|{}|{:016x}|{:016x}|{:?}", D, nbits, bounds.0.to_bits(), bounds.1.to_bits(), coords.iter().map(|c| c.map(f64::to_bits)).collect::<Vec<_>>()));
    }
    let items: Vec<(usize, [f64; D])> = coords.iter().copied().enumerate().collect();

    // --- keys through the public per-point functions ---
    let mut keys: Option<Vec<Key<D>>> = None;
    if valid {
        let r = guard(|| {
            let mut qs: Vec<[u32; D]> = Vec::with_capacity(n);
            let mut is: Vec<u128> = Vec::with_capacity(n);
            for c in coords {
                qs.push(hilbert_quantize(c, bounds, nbits).map_err(|e| format!("hilbert_quantize: {}", e))?);
                is.push(hilbert_index(c, bounds, nbits).map_err(|e| format!("hilbert_index: {}", e))?);
            }
            let pre = hilbert_indices_prequantized(&qs, nbits).map_err(|e| format!("hilbert_indices_prequantized: {}", e))?;
            Ok::<_, String>((qs, is, pre))
        });
        match r {
            Err(pi) => out.panic(P, &pi, "hilbert_quantize/hilbert_index", rp("hilbert_index")),
            Ok(Err(e)) => out.violation(P, "hilbert/unexpected_error/list", format!("valid parameters D={} bits={} rejected: {}", D, nbits, e), rp("hilbert_index")),
            Ok(Ok((qs, is, pre))) => {
                let maxq = (1u32 << nbits) - 1;
                let mx = max_index(D, nbits);
                let mut ok = pre.len() == n;
                if !ok {
                    out.violation(P, "hilbert_indices_prequantized/length", format!("{} cells in, {} indices out", n, pre.len()), rp("hilbert_indices_prequantized"));
                }
                for k in 0..n {
                    if !ok {
                        break;
                    }
                    if qs[k].iter().any(|&q| q > maxq) {
                        out.violation(P, "hilbert_quantize/out_of_range", format!("hilbert_quantize({:?}, {:?}, {}) = {:?} exceeds 2^bits-1 = {}", coords[k], bounds, nbits, qs[k], maxq), rp("hilbert_quantize"));
                        ok = false;
                    } else if is[k] != pre[k] {
                        out.violation(P, "hilbert/index_vs_prequantized/list", format!("hilbert_index({:?}) = {} but prequantized index of {:?} = {}", coords[k], is[k], qs[k], pre[k]), rp("hilbert_index"));
                        ok = false;
                    } else if is[k] > mx {
                        out.violation(P, "hilbert/index_out_of_range/list", format!("hilbert_index({:?}) = {} exceeds 2^{}-1", coords[k], is[k], D as u32 * nbits), rp("hilbert_index"));
                        ok = false;
                    }
                }
                if ok {
                    out.add("hilbert_list/index_consistency_checked_points", n as u64);
                    // equal index <=> equal cell on this list (sampled injectivity)
                    let mut by_idx: HashMap<u128, [u32; D]> = HashMap::new();
                    for k in 0..n {
                        if let Some(q0) = by_idx.insert(is[k], qs[k]) {
                            if q0 != qs[k] {
                                out.violation(P, "hilbert/bijection/list", format!("cells {:?} and {:?} share index {} (D={}, bits={})", q0, qs[k], is[k], D, nbits), rp("hilbert_index"));
                                ok = false;
                                break;
                            }
                        }
                    }
                }
                if ok {
                    quantize_checks(coords, bounds, nbits, &qs, out, &rp);
                    keys = Some((0..n).map(|k| (is[k], qs[k])).collect());
                }
            }
        }
    } else {
        out.count("hilbert_list/invalid_parameters_cases");
    }

    // --- stable sort ---
    let r = guard(|| {
        let mut it = items.clone();
        let r = hilbert_sort_by_stable(&mut it, bounds, nbits, |x: &(usize, [f64; D])| x.1).map_err(|e| e.to_string());
        (r, it)
    });
    match r {
        Err(pi) => out.panic(P, &pi, "hilbert_sort_by_stable", rp("hilbert_sort_by_stable")),
        Ok((res, it)) => {
            out.count(if res.is_ok() { "hilbert_sort_by_stable/ok" } else { "hilbert_sort_by_stable/err" });
            if valid && res.is_err() {
                out.violation(P, "hilbert/unexpected_error/sort_stable", format!("valid parameters D={} bits={} rejected: {:?}", D, nbits, res), rp("hilbert_sort_by_stable"));
            }
            let k = if res.is_ok() { keys.as_deref() } else { None };
            report::<D>(out, "hilbert_sort_by_stable", check_sorted_items(&items, &it, k, true), &rp);
        }
    }
    // --- unstable sort ---
    let r = guard(|| {
        let mut it = items.clone();
        let r = hilbert_sort_by_unstable(&mut it, bounds, nbits, |x: &(usize, [f64; D])| x.1).map_err(|e| e.to_string());
        (r, it)
    });
    match r {
        Err(pi) => out.panic(P, &pi, "hilbert_sort_by_unstable", rp("hilbert_sort_by_unstable")),
        Ok((res, it)) => {
            out.count(if res.is_ok() { "hilbert_sort_by_unstable/ok" } else { "hilbert_sort_by_unstable/err" });
            if valid && res.is_err() {
                out.violation(P, "hilbert/unexpected_error/sort_unstable", format!("valid parameters D={} bits={} rejected: {:?}", D, nbits, res), rp("hilbert_sort_by_unstable"));
            }
            let k = if res.is_ok() { keys.as_deref() } else { None };
            report::<D>(out, "hilbert_sort_by_unstable", check_sorted_items(&items, &it, k, false), &rp);
        }
    }
    // --- sorted indices ---
    match guard(|| hilbert_sorted_indices(coords, bounds, nbits).map_err(|e| e.to_string())) {
        Err(pi) => out.panic(P, &pi, "hilbert_sorted_indices", rp("hilbert_sorted_indices")),
        Ok(Err(e)) => {
            out.count("hilbert_sorted_indices/err");
            if valid {
                out.violation(P, "hilbert/unexpected_error/sorted_indices", format!("valid parameters D={} bits={} rejected: {}", D, nbits, e), rp("hilbert_sorted_indices"));
            }
        }
        Ok(Ok(order)) => {
            out.count("hilbert_sorted_indices/ok");
            let as_items: Vec<(usize, [f64; D])> = order.iter().map(|&i| (i, if i < n { coords[i] } else { [f64::NAN; D] })).collect();
            let fs = check_sorted_items(&items, &as_items, keys.as_deref(), false);
            let clean = fs.is_empty();
            report::<D>(out, "hilbert_sorted_indices", fs, &rp);
            if clean {
                if let Some(keys) = &keys {
                    // implementation detail (not documented for D > 0): ties keep input order
                    let ties_in_order = order.windows(2).all(|w| keys[w[0]] != keys[w[1]] || w[0] < w[1]);
                    out.count(if ties_in_order { "hilbert_sorted_indices/ties_in_input_order" } else { "hilbert_sorted_indices/ties_not_in_input_order(undocumented)" });
                }
            }
        }
    }
}

/// Contract of `hilbert_quantize` as documented: result in [0, 2^bits), normalise with the scalar
/// bounds, clamp to [0,1]; hence (for finite, non-degenerate bounds and no intermediate overflow)
/// monotone per coordinate, min -> 0, max -> 2^bits - 1, out-of-range values clamp.
fn quantize_checks<const D: usize>(coords: &[[f64; D]], bounds: (f64, f64), nbits: u32, qs: &[[u32; D]], out: &mut Out, rp: &dyn Fn(&str) -> Value) {
    let (lo, hi) = bounds;
    let extent = hi - lo;
    if !(lo.is_finite() && hi.is_finite() && extent.is_finite() && extent > 0.0 && lo.abs() <= 1e300 && hi.abs() <= 1e300) {
        out.count("hilbert_quantize/contract_not_applicable(bounds)");
        return;
    }
    let maxq = (1u32 << nbits) - 1;
    let ends = guard(|| (hilbert_quantize(&[lo; D], bounds, nbits), hilbert_quantize(&[hi; D], bounds, nbits)));
    let (q_lo, q_hi) = match ends {
        Ok((Ok(a), Ok(b))) => (a, b),
        Ok(_) => return,
        Err(pi) => {
            out.panic(P, &pi, "hilbert_quantize", rp("hilbert_quantize"));
            return;
        }
    };
    if q_lo != [0u32; D] {
        out.violation(P, "hilbert_quantize/min_not_zero", format!("hilbert_quantize([{:e}; {}], {:?}, {}) = {:?}, expected all 0", lo, D, bounds, nbits, q_lo), rp("hilbert_quantize"));
        return;
    }
    if q_hi != [maxq; D] {
        out.violation(P, "hilbert_quantize/max_not_top", format!("hilbert_quantize([{:e}; {}], {:?}, {}) = {:?}, expected all {}", hi, D, bounds, nbits, q_hi, maxq), rp("hilbert_quantize"));
        return;
    }
    // monotonicity over the list extended by the two end points
    let mut checked = 0u64;
    for j in 0..D {
        let mut col: Vec<(f64, u32)> = coords.iter().zip(qs.iter()).filter(|(c, _)| c[j].is_finite() && c[j].abs() <= 1e307).map(|(c, q)| (c[j], q[j])).collect();
        col.push((lo, 0));
        col.push((hi, maxq));
        col.sort_by(|a, b| a.0.partial_cmp(&b.0).unwrap_or(Ordering::Equal));
        for w in col.windows(2) {
            checked += 1;
            let bad = if w[0].0 == w[1].0 { w[0].1 != w[1].1 } else { w[0].1 > w[1].1 };
            if bad {
                out.violation(
                    P,
                    "hilbert_quantize/not_monotone",
                    format!("axis {}: {:e} -> cell {} but {:e} -> cell {} (bounds {:?}, bits {})", j, w[0].0, w[0].1, w[1].0, w[1].1, bounds, nbits),
                    rp("hilbert_quantize"),
                );
                return;
            }
        }
    }
    out.add("hilbert_quantize/monotone_pairs_checked", checked);
}

const EXTREMES: [f64; 14] = [0.0, -0.0, 1.0, -1.0, 1e300, -1e300, 1e-300, -1e-300, 5e-324, 1e150, -1e150, 1e-160, 0.5, 2.0];

fn gen_hilbert_list<const D: usize>(rng: &mut Rng) -> (Vec<[f64; D]>, (f64, f64), u32, &'static str) {
    let maxbits = (128 / D as u32).min(31);
    let mut nbits = match rng.usize(4) {
        0 => 1 + rng.below(3) as u32,
        1 => maxbits,
        _ => 1 + rng.below(maxbits as u64) as u32,
    };
    let n = match rng.usize(8) {
        0 => rng.usize(2),
        _ => 2 + rng.usize(48),
    };
    let fam: &'static str;
    let mut bounds = (0.0, 1.0);
    let mut pts: Vec<[f64; D]> = Vec::with_capacity(n);
    let mut each = |rng: &mut Rng, f: &mut dyn FnMut(&mut Rng) -> f64| {
        for _ in 0..n {
            let mut p = [0.0; D];
            for x in p.iter_mut() {
                *x = f(rng);
            }
            pts.push(p);
        }
    };
    match rng.usize(9) {
        0 => {
            fam = "grid_ties";
            nbits = 1 + rng.below(4.min(maxbits) as u64) as u32;
            let side = 1i64 << nbits;
            bounds = (0.0, (side - 1) as f64);
            each(rng, &mut |r| r.range_i64(0, side - 1) as f64);
        }
        1 => {
            fam = "unit_random";
            each(rng, &mut |r| r.f64());
        }
        2 => {
            fam = "out_of_range";
            each(rng, &mut |r| r.f64() * 3.0 - 1.0);
        }
        3 => {
            fam = "signed_zero_dups";
            bounds = (-1.0, 1.0);
            let vals = [0.0, -0.0, 0.5, -0.5, 1.0, -1.0, 5e-324, -5e-324, 1e-17];
            each(rng, &mut |r| *r.pick(&vals));
        }
        4 => {
            fam = "extreme";
            bounds = *rng.pick(&[(-1e300, 1e300), (0.0, 1e-300), (-1e-300, 1e300), (1e150, 1e300), (0.0, 5e-324), (-1e-160, 1e-160)]);
            each(rng, &mut |r| *r.pick(&EXTREMES));
        }
        5 => {
            fam = "degenerate_bounds";
            bounds = *rng.pick(&[(0.5, 0.5), (1.0, 0.0), (0.0, -0.0), (1e300, -1e300)]);
            each(rng, &mut |r| r.f64() * 2.0 - 0.5);
        }
        6 => {
            fam = "nonfinite";
            let vals = [f64::NAN, f64::INFINITY, f64::NEG_INFINITY, 0.0, -0.0, 0.25, 0.75, 1.0, f64::from_bits(0xfff8_0000_0000_0001)];
            each(rng, &mut |r| *r.pick(&vals));
        }
        7 => {
            fam = "constant_axis_dups";
            let base = rng.f64();
            let k = 1 + rng.usize(4);
            let pool: Vec<f64> = (0..k).map(|_| rng.f64()).collect();
            each(rng, &mut |r| *r.pick(&pool));
            for p in pts.iter_mut() {
                p[0] = base;
            }
        }
        _ => {
            fam = "invalid_parameters";
            nbits = *rng.pick(&[0u32, 32, 33, 64, u32::MAX, maxbits + 1]);
            each(rng, &mut |r| r.f64());
        }
    }
    (pts, bounds, nbits, fam)
}
