//! C03 — failed or skipped mutations leave the triangulation exactly as it was.
//!
//! (i) natural failures inside generated histories; (ii) forced failures: every failpoint site a
//! call passes is armed in turn on a fresh clone (H1 hooks); after any failed/skipped call the
//! full observable state must equal the state before, and a short probe sequence must behave
//! identically on the object and on a twin that never saw the failed call.

use super::c02::start_dt;
use crate::api::{Kn, config_of};
use crate::common::{Ctx, Out, Tier};
use crate::fingerprint::{self, FullPrint};
use crate::hist::{self, Memory, Mix, Op, Res};
use crate::model::RefModel;
use crate::rng::Rng;
use crate::tri::Dt;
use delaunay::geometry::kernel::{FastKernel, Kernel, RobustKernel};
use delaunay::verif;
use serde_json::{Value, json};

const P: &str = "C03";

fn print_of<K, const D: usize>(dt: &Dt<K, D>) -> (RefModel<D>, FullPrint)
where
    K: Kernel<D, Scalar = f64>,
{
    let m = RefModel::from_dt(dt);
    // incident_cell is a derived hint ("some incident cell"), not part of the compared state
    let fp = fingerprint::full(&m, &config_of(dt), false);
    (m, fp)
}

/// Probe operations used for the behavioural twin test, derived from the pre-state only.
fn probes<const D: usize>(rng: &mut Rng, m: &RefModel<D>, mem: &Memory<D>) -> Vec<Op<D>> {
    let mut v = Vec::new();
    if let Some(x) = m.verts.first() {
        v.push(Op::Insert { p: x.p, uuid: rng.uuid(), data: Some(1), how: "probe-duplicate" });
    }
    if m.verts.len() > 1 {
        let x = &m.verts[m.verts.len() - 1];
        let mut p = x.p;
        p[0] += 0.4e-10;
        v.push(Op::Insert { p, uuid: rng.uuid(), data: Some(2), how: "probe-near-duplicate" });
    }
    let (p, _) = hist::point_for(rng, m, mem);
    v.push(Op::InsertStats { p, uuid: rng.uuid(), data: Some(3), how: "probe-insert" });
    if let Some(x) = m.verts.get(m.verts.len() / 2) {
        v.push(Op::Remove { uuid: x.uuid, p: x.p, how: "probe-remove" });
    }
    v
}

/// Twin test: `a` saw the failed call, `b` is a clone taken before it. Both must react to the
/// probe sequence identically (result class, vertex table, cells as vertex-UUID sets).
fn twin_diverges<K, const D: usize>(a: &Dt<K, D>, b: &Dt<K, D>, probes: &[Op<D>]) -> Option<String>
where
    K: Kernel<D, Scalar = f64>,
{
    let mut a = a.clone();
    let mut b = b.clone();
    for (i, op) in probes.iter().enumerate() {
        let ra = hist::apply(&mut a, op);
        let rb = hist::apply(&mut b, op);
        let (la, lb) = match (&ra, &rb) {
            (Ok(x), Ok(y)) => (x.label(), y.label()),
            (Err(_), Err(_)) => return None,
            _ => return Some(format!("probe {} ({}): one side panicked", i, op.how())),
        };
        if la != lb {
            return Some(format!("probe {} ({} {}): object answers {} but the twin answers {}", i, op.kind(), op.how(), la, lb));
        }
        let ma = RefModel::from_dt(&a);
        let mb = RefModel::from_dt(&b);
        if ma.vertex_table() != mb.vertex_table() {
            return Some(format!("probe {} ({} {}): vertex tables differ afterwards", i, op.kind(), op.how()));
        }
        if ma.cells_as_uuids() != mb.cells_as_uuids() {
            return Some(format!("probe {} ({} {}): cell sets differ afterwards", i, op.kind(), op.how()));
        }
    }
    None
}

fn history<K, const D: usize>(ctx: &Ctx, out: &mut Out, cs: u64, kn: Kn)
where
    K: Kernel<D, Scalar = f64>,
{
    let mut rng = Rng::new(cs);
    let thorough = ctx.tier == Tier::Thorough;
    out.eval();
    let Some((mut dt, mut mem, start)) = start_dt::<K, D>(&mut rng, thorough, out) else { return };
    let init: Vec<Op<D>> = vec![Op::SetValidationPolicy(rng.usize(4) as u8), Op::SetRepairPolicy(rng.usize(4) as u8), Op::SetCheckPolicy(rng.usize(3) as u8)];
    for op in &init {
        let _ = hist::apply(&mut dt, op);
    }
    let len = if thorough { 20 + rng.usize(60) } else { 8 + rng.usize(24) };
    let len = if D >= 4 { len / 2 + 3 } else { len };
    let base = json!({"property": P, "case_seed": cs.to_string(), "D": D, "kernel": kn.name(), "start": start, "initial_policies": init.iter().map(|o| o.to_json()).collect::<Vec<_>>()});
    let mix = Mix { insert: 5, insert_stats: 3, remove: 3, flips: 6, repair: 3, policy: 1, misc: 1 };
    let mut log: Vec<Value> = Vec::new();
    let mut nontrivial = false;
    let occ_cap: u64 = if thorough { 3 } else { 2 };
    for step in 0..len {
        if ctx.elapsed() > ctx.budget_s * 1.3 {
            out.count("history_cut_by_budget");
            break;
        }
        let (pre_m, pre_fp) = print_of(&dt);
        if pre_m.verts.len() > D + 2 {
            nontrivial = true;
        }
        let op = if mem.script.is_empty() { hist::next_op(&mut rng, &pre_m, &mem, &mix) } else { mem.script.remove(0) };
        let log_snapshot = log.clone();
        let mk_rp = |extra: Value| {
            let mut rp = base.clone();
            rp["history"] = json!(log_snapshot);
            rp["step"] = json!(step);
            rp["op"] = op.to_json();
            rp["detail"] = extra;
            rp
        };
        let probe_ops = probes(&mut rng, &pre_m, &mem);
        if op.is_mutation() {
            // ---- trace pass: which failpoint sites does this call pass? ----
            let mut c = dt.clone();
            verif::trace_start();
            let traced = hist::apply(&mut c, &op);
            let sites = verif::trace_take();
            if traced.is_err() {
                // a panic: reported by the real application below
            }
            let mut seen: std::collections::BTreeMap<&'static str, u64> = std::collections::BTreeMap::new();
            for s in &sites {
                *seen.entry(*s).or_insert(0) += 1;
            }
            out.add("failpoints/site_passes", sites.len() as u64);
            for (site, n) in seen {
                for occ in 0..n.min(occ_cap) {
                    let mut f = dt.clone();
                    let fired_before = verif::fired_count();
                    verif::arm(site, occ);
                    let r = hist::apply(&mut f, &op);
                    let never_reached = verif::disarm();
                    let fired = verif::fired_count() > fired_before;
                    out.count("failpoints/armed");
                    if never_reached || !fired {
                        out.count("failpoints/not_reached");
                        continue;
                    }
                    out.count(&format!("failpoints/fired/{}", site));
                    let r = match r {
                        Ok(r) => r,
                        Err(pi) => {
                            out.panic(P, &pi, &format!("{} with failpoint {}", op.kind(), site), mk_rp(json!({"failpoint": site, "occurrence": occ})));
                            continue;
                        }
                    };
                    if !r.failed_or_skipped() {
                        // the library absorbed the injected failure (retry / fallback): no claim
                        out.count(&format!("failpoints/absorbed/{}", site));
                        continue;
                    }
                    out.count(&format!("forced/{}/{}", op.kind(), r.label()));
                    let (_, post_fp) = print_of(&f);
                    if post_fp != pre_fp {
                        out.violation(
                            P,
                            &format!("D{}/{}/forced/{}/state-changed", D, op.kind(), site),
                            format!("{} failed with {} (failure injected at {} occurrence {}) but the state changed: {}", op.kind(), r.label(), site, occ, fingerprint::first_diff(&pre_fp, &post_fp)),
                            mk_rp(json!({"failpoint": site, "occurrence": occ, "result": r.label()})),
                        );
                    } else if let Some(why) = twin_diverges(&f, &dt, &probe_ops) {
                        out.violation(
                            P,
                            &format!("D{}/{}/forced/{}/twin-diverged", D, op.kind(), site),
                            format!("after {} failed with {} (failure injected at {}), later operations behave differently: {}", op.kind(), r.label(), site, why),
                            mk_rp(json!({"failpoint": site, "occurrence": occ, "result": r.label()})),
                        );
                    } else {
                        out.count("forced/unchanged_and_twin_agrees");
                    }
                }
            }
        }
        // ---- the real application (natural outcome) ----
        let twin = dt.clone();
        let res = hist::apply(&mut dt, &op);
        let res = match res {
            Ok(r) => r,
            Err(pi) => {
                out.panic(P, &pi, op.kind(), mk_rp(json!(null)));
                break;
            }
        };
        let mut entry = op.to_json();
        entry["result"] = json!(res.label());
        log.push(entry);
        out.count(&format!("op/{}/{}", op.kind(), res.label()));
        let (post_m, post_fp) = print_of(&dt);
        for c in &pre_m.cells {
            if !post_m.cidx.contains_key(&c.key) && mem.stale_cells.len() < 64 {
                mem.stale_cells.push(c.key);
            }
        }
        for v in &pre_m.verts {
            if !post_m.vidx.contains_key(&v.key) {
                if mem.stale_vertices.len() < 64 {
                    mem.stale_vertices.push(v.key);
                }
                if mem.removed.len() < 64 {
                    mem.removed.push((v.uuid, v.p));
                }
            }
        }
        if op.is_mutation() && res.failed_or_skipped() {
            let class = if let Res::Err { class, .. } = &res { class.replace(' ', "-") } else { res.label() };
            out.count(&format!("natural/{}/{}", op.kind(), class));
            if post_fp != pre_fp {
                out.violation(
                    P,
                    &format!("D{}/{}/natural/{}/state-changed", D, op.kind(), class),
                    format!("{} ({}) returned {} but the state changed: {}", op.kind(), op.how(), res.label(), fingerprint::first_diff(&pre_fp, &post_fp)),
                    mk_rp(json!({"result": res.label(), "error": if let Res::Err { error, .. } = &res { error.clone() } else { String::new() }})),
                );
                break;
            } else if let Some(why) = twin_diverges(&dt, &twin, &probe_ops) {
                out.violation(
                    P,
                    &format!("D{}/{}/natural/{}/twin-diverged", D, op.kind(), class),
                    format!("after {} ({}) returned {}, later operations behave differently: {}", op.kind(), op.how(), res.label(), why),
                    mk_rp(json!({"result": res.label()})),
                );
                break;
            } else {
                out.count("natural/unchanged_and_twin_agrees");
            }
        }
    }
    if nontrivial {
        out.nontrivial(&format!("{}|{}", cs, log.len()));
    }
    out.add("steps", log.len() as u64);
    if out.samples.len() < 3 && log.len() > 5 {
        out.sample(json!({"D": D, "kernel": kn.name(), "start": start["start"], "ops": log.iter().take(10).cloned().collect::<Vec<_>>(), "total_ops": log.len()}));
    }
}

pub fn run_case(ctx: &Ctx, out: &mut Out, cs: u64, d: usize, kn: Kn) {
    match (d, kn) {
        (2, Kn::Fast) => history::<FastKernel<f64>, 2>(ctx, out, cs, kn),
        (3, Kn::Fast) => history::<FastKernel<f64>, 3>(ctx, out, cs, kn),
        (4, Kn::Fast) => history::<FastKernel<f64>, 4>(ctx, out, cs, kn),
        (5, Kn::Fast) => history::<FastKernel<f64>, 5>(ctx, out, cs, kn),
        (2, Kn::Robust) => history::<RobustKernel<f64>, 2>(ctx, out, cs, kn),
        (3, Kn::Robust) => history::<RobustKernel<f64>, 3>(ctx, out, cs, kn),
        (4, Kn::Robust) => history::<RobustKernel<f64>, 4>(ctx, out, cs, kn),
        _ => history::<RobustKernel<f64>, 5>(ctx, out, cs, kn),
    }
}

pub fn run(ctx: &Ctx, out: &mut Out) {
    if let Some(doc) = &ctx.replay {
        if let (Some(cs), Some(d)) = (ctx.replay_seed(), doc["D"].as_u64()) {
            let kn = Kn::from_name(doc["kernel"].as_str().unwrap_or("fast")).unwrap_or(Kn::Fast);
            run_case(ctx, out, cs, d as usize, kn);
        } else {
            out.inconclusive("bad replay document");
        }
        return;
    }
    let cap = (if ctx.tier == Tier::Thorough { 100_000.0 } else { 1_500.0 } * ctx.scale) as u64;
    let mut i = 0u64;
    while i < cap && !ctx.out_of_time() {
        let cs = ctx.case_seed(i);
        let d = super::c01::pick_dim_hist(ctx, cs >> 7);
        let kn = if (cs >> 3) & 1 == 0 { Kn::Fast } else { Kn::Robust };
        run_case(ctx, out, cs, d, kn);
        i += 1;
    }
}
