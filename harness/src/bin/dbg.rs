use delaunay::core::delaunay_triangulation::*;
use delaunay::core::util::find_delaunay_violations;
use delaunay::geometry::kernel::*;
use delaunay::geometry::point::Point;
use delaunay::geometry::traits::coordinate::Coordinate;
use delaunay::geometry::predicates::insphere;
use dverif::api::mk_vertex;
use dverif::model::RefModel;
use dverif::refcheck;
use dverif::rng::Rng;

fn main() {
    let pts: Vec<[f64; 3]> = vec![[1.0, 2.0, 0.0], [1.0, 0.0, 0.0], [0.0, 2.0, 1.0], [1.0, 1.0, 1.0], [0.0, 1.0, 1.0], [0.0, 1.0, 0.0], [2.0, 0.0, 1.0], [1.0, 2.0, 1.0], [1.0, 1.0, 2.0], [2.0, 2.0, 2.0], [2.0, 1.0, 0.0]];
    let mut rng = Rng::new(1);
    let verts: Vec<_> = pts.iter().map(|p| mk_vertex::<(), 3>(*p, rng.uuid(), None)).collect();
    let opts = ConstructionOptions::default().with_insertion_order(InsertionOrderStrategy::Input).with_initial_simplex_strategy(InitialSimplexStrategy::Balanced).with_retry_policy(RetryPolicy::Disabled);
    let dt = DelaunayTriangulation::<FastKernel<f64>, (), (), 3>::with_topology_guarantee_and_options(&FastKernel::new(), &verts, delaunay::core::triangulation::TopologyGuarantee::PLManifoldStrict, opts);
    match dt {
        Err(e) => println!("Err {e}"),
        Ok(dt) => {
            println!("is_valid {:?}", dt.is_valid().is_ok());
            println!("validate {:?}", dt.validate().map_err(|e| e.to_string()));
            println!("find_delaunay_violations {:?}", find_delaunay_violations(dt.tds(), None).map(|v| v.len()));
            let m = RefModel::from_dt(&dt);
            let d = refcheck::check_delaunay(&m);
            println!("exact violations {}", d.violations.len());
            for (ci, vi) in d.violations.iter().take(3) {
                let cp = m.cell_points(&m.cells[*ci]).unwrap();
                let ps: Vec<Point<f64, 3>> = cp.iter().map(|p| Point::new(*p)).collect();
                println!("cell {:?} v {:?} lib insphere {:?} kind {}", cp, m.verts[*vi].p, insphere(&ps, Point::new(m.verts[*vi].p)), dverif::tri::witness_kind(&m, *ci, *vi));
            }
            for v in &m.verts { println!("v {:?}", v.p); }
        }
    }
}
