//! dverif <Cxx> --tier quick|thorough --seed S --shard I --nshards N --budget SECS --out FILE [--replay FILE]
use dverif::common::{Ctx, Out, Tier, install_panic_hook};
use std::time::Instant;

fn main() {
    let args: Vec<String> = std::env::args().collect();
    if args.len() < 2 {
        eprintln!("usage: dverif <Cxx> [--tier T] [--seed S] [--shard I] [--nshards N] [--budget SECS] [--out FILE] [--replay FILE]");
        std::process::exit(2);
    }
    let prop = args[1].clone();
    let mut tier = Tier::Quick;
    let mut seed = 1u64;
    let mut shard = 0u64;
    let mut nshards = 1u64;
    let mut budget = 60.0f64;
    let mut outp: Option<String> = None;
    let mut replay: Option<serde_json::Value> = None;
    let mut scale = 1.0f64;
    let mut i = 2;
    while i < args.len() {
        let a = args[i].as_str();
        let v = args.get(i + 1).cloned().unwrap_or_default();
        match a {
            "--tier" => tier = if v == "thorough" { Tier::Thorough } else { Tier::Quick },
            "--seed" => seed = v.parse().unwrap_or(1),
            "--shard" => shard = v.parse().unwrap_or(0),
            "--nshards" => nshards = v.parse().unwrap_or(1),
            "--budget" => budget = v.parse().unwrap_or(60.0),
            "--scale" => scale = v.parse().unwrap_or(1.0),
            "--out" => outp = Some(v),
            "--replay" => {
                let txt = std::fs::read_to_string(&v).unwrap_or_else(|e| {
                    eprintln!("cannot read replay file {}: {}", v, e);
                    std::process::exit(2);
                });
                replay = Some(serde_json::from_str(&txt).unwrap_or_else(|e| {
                    eprintln!("bad replay file: {}", e);
                    std::process::exit(2);
                }));
            }
            _ => {
                eprintln!("unknown argument {}", a);
                std::process::exit(2);
            }
        }
        i += 2;
    }
    install_panic_hook();
    let profile = if cfg!(debug_assertions) { "relassert" } else { "release" };
    let ctx = Ctx { prop: prop.clone(), tier, seed, shard, nshards, profile: profile.to_string(), budget_s: budget, start: Instant::now(), replay, scale };
    let mut out = Out::default();
    // CPU-time watchdog (see common::hang): generous; one guarded call on these small inputs takes
    // milliseconds to seconds (tens of seconds with debug assertions in D >= 4)
    // (observed maxima for one call: 57 s in the quick tier, ~12 min wall on a fully loaded machine for a
    // D >= 4 insertion with debug assertions in the thorough tier)
    let cpu_limit = if tier == Tier::Thorough { 2400.0 } else { 400.0 };
    dverif::common::hang::start(outp.clone(), prop.clone(), cpu_limit);
    delaunay::verif::ticks_enable(true);
    if !dverif::props::run(&ctx, &mut out) {
        eprintln!("unknown property {}", prop);
        std::process::exit(2);
    }
    out.merge_ticks();
    let ex = dverif::exact::STATS.with(|s| s.borrow().clone());
    out.add("exact/dets", ex.dets);
    out.add("exact/fast_path", ex.fast_path);
    out.add("exact/big_path", ex.big_path);
    out.add("exact/cross_checked", ex.cross_checked);
    let js = out.to_json(&ctx);
    let txt = serde_json::to_string(&js).unwrap();
    match outp {
        Some(p) => std::fs::write(&p, txt).unwrap(),
        None => println!("{}", txt),
    }
}
