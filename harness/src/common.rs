//! Shared runner plumbing: context, result accumulation, panic capture, JSON output.

use crate::fingerprint::digest;
use serde_json::{Value, json};
use std::collections::{BTreeMap, HashSet};
use std::panic::{AssertUnwindSafe, catch_unwind};
use std::time::Instant;

#[derive(Clone, Copy, Debug, PartialEq, Eq)]
pub enum Tier {
    Quick,
    Thorough,
}

#[derive(Clone, Debug)]
pub struct Ctx {
    pub prop: String,
    pub tier: Tier,
    pub seed: u64,
    pub shard: u64,
    pub nshards: u64,
    pub profile: String,
    /// wall-clock budget for this shard in seconds (generation stops when exceeded)
    pub budget_s: f64,
    pub start: Instant,
    /// replay: run exactly this case seed (and optional kind) instead of generating
    pub replay: Option<Value>,
    /// multiplier on case counts (thorough tier and env override)
    pub scale: f64,
}

impl Ctx {
    pub fn elapsed(&self) -> f64 {
        self.start.elapsed().as_secs_f64()
    }
    pub fn out_of_time(&self) -> bool {
        self.elapsed() > self.budget_s
    }
    pub fn is_debug_profile(&self) -> bool {
        cfg!(debug_assertions)
    }
    /// Seed of the n-th case of this shard.
    pub fn case_seed(&self, n: u64) -> u64 {
        let mut x = self.seed ^ 0xA5A5_5A5A_DEAD_BEEF;
        x = x.wrapping_mul(0x9E3779B97F4A7C15).wrapping_add(self.shard.wrapping_mul(0xD1B54A32D192ED03));
        x ^= n.wrapping_mul(0x94D049BB133111EB);
        crate::rng::splitmix(&mut x)
    }
    pub fn replay_seed(&self) -> Option<u64> {
        self.replay.as_ref().and_then(|r| r.get("case_seed")).and_then(|v| v.as_str()).and_then(|s| s.parse::<u64>().ok())
    }
}

#[derive(Clone, Debug)]
pub struct Violation {
    pub property: String,
    /// stable signature used for known-finding matching
    pub signature: String,
    pub description: String,
    /// self-contained replay document
    pub replay: Value,
}

#[derive(Default)]
pub struct Out {
    pub evaluations: u64,
    pub distinct: HashSet<u64>,
    pub violations: Vec<Violation>,
    pub panics: Vec<Violation>,
    pub inconclusive: u64,
    pub inconclusive_reasons: BTreeMap<String, u64>,
    pub samples: Vec<Value>,
    pub counters: BTreeMap<String, u64>,
    pub notes: Vec<String>,
    pub exhaustive: Option<bool>,
}

impl Out {
    pub fn count(&mut self, key: &str) {
        *self.counters.entry(key.to_string()).or_insert(0) += 1;
    }
    pub fn add(&mut self, key: &str, n: u64) {
        *self.counters.entry(key.to_string()).or_insert(0) += n;
    }
    pub fn max(&mut self, key: &str, n: u64) {
        let e = self.counters.entry(key.to_string()).or_insert(0);
        if n > *e {
            *e = n;
        }
    }
    pub fn eval(&mut self) {
        self.evaluations += 1;
    }
    pub fn nontrivial(&mut self, identity: &str) {
        self.distinct.insert(digest(identity));
    }
    pub fn sample(&mut self, v: Value) {
        if self.samples.len() < 4 {
            self.samples.push(v);
        }
    }
    pub fn inconclusive(&mut self, why: &str) {
        self.inconclusive += 1;
        *self.inconclusive_reasons.entry(why.to_string()).or_insert(0) += 1;
    }
    pub fn violation(&mut self, property: &str, signature: &str, description: String, replay: Value) {
        // keep the list bounded; identical signatures beyond 20 are only counted
        let same = self.violations.iter().filter(|v| v.signature == signature).count();
        self.count(&format!("violations/{}", signature));
        if same < 20 {
            self.violations.push(Violation { property: property.to_string(), signature: signature.to_string(), description, replay });
        }
    }
    pub fn panic(&mut self, property: &str, info: &PanicInfo, context: &str, replay: Value) {
        let sig = format!("panic/{}", info.location_short());
        let same = self.panics.iter().filter(|v| v.signature == sig).count();
        self.count("panics");
        if same < 10 {
            self.panics.push(Violation {
                property: property.to_string(),
                signature: sig,
                description: format!("panic in {}: {} at {}", context, info.message, info.location),
                replay,
            });
        }
    }
    pub fn merge_ticks(&mut self) {
        for (site, n) in delaunay::verif::ticks_snapshot() {
            self.add(&format!("path/{}", site), n);
        }
    }
    pub fn to_json(&self, ctx: &Ctx) -> Value {
        let viol = |v: &Violation| json!({"property": v.property, "signature": v.signature, "description": v.description, "replay": v.replay});
        json!({
            "property": ctx.prop,
            "shard": ctx.shard,
            "profile": ctx.profile,
            "evaluations": self.evaluations,
            "distinct": self.distinct.iter().map(|d| format!("{:016x}", d)).collect::<Vec<_>>(),
            "violations": self.violations.iter().map(viol).collect::<Vec<_>>(),
            "panics": self.panics.iter().map(viol).collect::<Vec<_>>(),
            "inconclusive": self.inconclusive,
            "inconclusive_reasons": self.inconclusive_reasons,
            "samples": self.samples,
            "counters": self.counters,
            "notes": self.notes,
            "exhaustive": self.exhaustive,
            "wall_s": ctx.elapsed(),
        })
    }
}

// ---------------------------------------------------------------------------------------------
// panic capture
// ---------------------------------------------------------------------------------------------

#[derive(Clone, Debug)]
pub struct PanicInfo {
    pub message: String,
    pub location: String,
}

impl PanicInfo {
    pub fn location_short(&self) -> String {
        // strip the line/column so that signatures survive small edits
        let l = self.location.split(':').next().unwrap_or("").to_string();
        l.rsplit("/repo/").next().unwrap_or(&l).to_string()
    }
}

thread_local! {
    static LAST_PANIC: std::cell::RefCell<Option<PanicInfo>> = const { std::cell::RefCell::new(None) };
    static GUARD_DEPTH: std::cell::Cell<u32> = const { std::cell::Cell::new(0) };
}

pub fn install_panic_hook() {
    let default = std::panic::take_hook();
    std::panic::set_hook(Box::new(move |info| {
        let msg = if let Some(s) = info.payload().downcast_ref::<&str>() {
            (*s).to_string()
        } else if let Some(s) = info.payload().downcast_ref::<String>() {
            s.clone()
        } else {
            "<non-string panic payload>".to_string()
        };
        let loc = info.location().map(|l| format!("{}:{}:{}", l.file(), l.line(), l.column())).unwrap_or_default();
        let inside = GUARD_DEPTH.with(|d| d.get()) > 0;
        LAST_PANIC.with(|p| *p.borrow_mut() = Some(PanicInfo { message: msg, location: loc }));
        if !inside {
            default(info);
        }
    }));
}

/// Bounded-work watchdog in *CPU time* (load independent, unlike wall-clock): every entry to and exit
/// from `guard` advances an epoch; a watchdog thread reads the CPU time of the process from
/// /proc/self/stat and, when one epoch has consumed more than the limit, writes `<out>.hang.json`
/// (marker = the last `hang::mark` text, a replay document when the monitor provides one) and ends
/// the process with exit code 3. The driver turns that into a violation for C19 (which claims bounded
/// work) and into an inconclusive shard for every other property.
pub mod hang {
    use std::sync::Mutex;
    use std::sync::atomic::{AtomicU64, Ordering};
    pub static EPOCH: AtomicU64 = AtomicU64::new(0);
    static MARK: Mutex<String> = Mutex::new(String::new());

    #[inline]
    pub fn bump() {
        EPOCH.fetch_add(1, Ordering::Relaxed);
    }
    /// Records what is about to run (shown in the report; JSON text becomes the replay document).
    pub fn mark(s: &str) {
        if let Ok(mut m) = MARK.lock() {
            m.clear();
            m.push_str(s);
        }
        bump();
    }
    fn cpu_seconds() -> Option<f64> {
        let st = std::fs::read_to_string("/proc/self/stat").ok()?;
        let rest = &st[st.rfind(')')? + 1..];
        let f: Vec<&str> = rest.split_whitespace().collect();
        // after the command name: state is field 3, utime 14, stime 15
        let ut: f64 = f.get(11)?.parse().ok()?;
        let stt: f64 = f.get(12)?.parse().ok()?;
        Some((ut + stt) / 100.0)
    }
    pub fn start(out_path: Option<String>, prop: String, limit_cpu_s: f64) {
        std::thread::spawn(move || {
            let mut last = EPOCH.load(Ordering::Relaxed);
            let mut cpu0 = cpu_seconds();
            loop {
                std::thread::sleep(std::time::Duration::from_millis(1000));
                let e = EPOCH.load(Ordering::Relaxed);
                let c = cpu_seconds();
                if e != last {
                    last = e;
                    cpu0 = c;
                    continue;
                }
                if let (Some(a), Some(b)) = (cpu0, c) {
                    if b - a > limit_cpu_s {
                        let mark = MARK.lock().map(|m| m.clone()).unwrap_or_default();
                        let replay: serde_json::Value = serde_json::from_str(&mark).unwrap_or_else(|_| serde_json::json!({"marker": mark}));
                        let doc = serde_json::json!({
                            "property": prop,
                            "signature": "bounded-work/no-return-within-cpu-budget",
                            "description": format!("a library call (or the oracle evaluation right after it) has consumed {:.0} CPU-seconds without returning (limit {:.0}); last marker: {}", b - a, limit_cpu_s, mark.chars().take(600).collect::<String>()),
                            "replay": replay,
                        });
                        if let Some(p) = &out_path {
                            let _ = std::fs::write(format!("{}.hang.json", p), serde_json::to_string(&doc).unwrap_or_default());
                        }
                        eprintln!("hang watchdog: {}", doc["description"]);
                        std::process::exit(3);
                    }
                }
            }
        });
    }
}

/// Runs `f`, converting a panic into `Err(PanicInfo)`.
pub fn guard<T>(f: impl FnOnce() -> T) -> Result<T, PanicInfo> {
    hang::bump();
    GUARD_DEPTH.with(|d| d.set(d.get() + 1));
    let r = catch_unwind(AssertUnwindSafe(f));
    GUARD_DEPTH.with(|d| d.set(d.get() - 1));
    hang::bump();
    match r {
        Ok(v) => Ok(v),
        Err(_) => Err(LAST_PANIC.with(|p| p.borrow_mut().take()).unwrap_or(PanicInfo { message: "<unknown>".into(), location: String::new() })),
    }
}

pub fn bits<const D: usize>(p: &[f64; D]) -> Vec<String> {
    p.iter().map(|x| format!("{:016x}", x.to_bits())).collect()
}

pub fn pts_json<const D: usize>(pts: &[[f64; D]]) -> Value {
    Value::Array(pts.iter().map(|p| json!({"x": p.to_vec(), "bits": bits(p)})).collect())
}
