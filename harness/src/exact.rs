//! Exact arithmetic used by every oracle: sign-magnitude big integers, dyadic rationals
//! (`m * 2^e`, which represent every finite f64 exactly) and division-free determinants.
//!
//! Trusted base of the geometric oracles. It is cross-checked (a) internally: the i128 fast
//! path against the bigint path, and (b) externally: `oracle_py/recheck.py` re-decides logged
//! determinant signs with python's `fractions.Fraction`.

use std::cmp::Ordering;

// ---------------------------------------------------------------------------------------------
// BigInt
// ---------------------------------------------------------------------------------------------

#[derive(Clone, Debug, PartialEq, Eq, Default)]
pub struct BigInt {
    neg: bool,
    mag: Vec<u32>, // little endian, no trailing zero limbs; zero == empty (neg == false)
}

fn mag_trim(v: &mut Vec<u32>) {
    while v.last() == Some(&0) {
        v.pop();
    }
}
fn mag_cmp(a: &[u32], b: &[u32]) -> Ordering {
    if a.len() != b.len() {
        return a.len().cmp(&b.len());
    }
    for i in (0..a.len()).rev() {
        if a[i] != b[i] {
            return a[i].cmp(&b[i]);
        }
    }
    Ordering::Equal
}
fn mag_add(a: &[u32], b: &[u32]) -> Vec<u32> {
    let (a, b) = if a.len() >= b.len() { (a, b) } else { (b, a) };
    let mut out = Vec::with_capacity(a.len() + 1);
    let mut carry = 0u64;
    for i in 0..a.len() {
        let s = a[i] as u64 + if i < b.len() { b[i] as u64 } else { 0 } + carry;
        out.push(s as u32);
        carry = s >> 32;
    }
    if carry != 0 {
        out.push(carry as u32);
    }
    out
}
/// a - b, requires a >= b
fn mag_sub(a: &[u32], b: &[u32]) -> Vec<u32> {
    let mut out = Vec::with_capacity(a.len());
    let mut borrow = 0i64;
    for i in 0..a.len() {
        let mut d = a[i] as i64 - borrow - if i < b.len() { b[i] as i64 } else { 0 };
        if d < 0 {
            d += 1 << 32;
            borrow = 1;
        } else {
            borrow = 0;
        }
        out.push(d as u32);
    }
    debug_assert_eq!(borrow, 0);
    mag_trim(&mut out);
    out
}
fn mag_mul(a: &[u32], b: &[u32]) -> Vec<u32> {
    if a.is_empty() || b.is_empty() {
        return Vec::new();
    }
    let mut out = vec![0u32; a.len() + b.len()];
    for i in 0..a.len() {
        let mut carry = 0u64;
        let ai = a[i] as u64;
        for j in 0..b.len() {
            let t = ai * b[j] as u64 + out[i + j] as u64 + carry;
            out[i + j] = t as u32;
            carry = t >> 32;
        }
        let mut k = i + b.len();
        while carry != 0 {
            let t = out[k] as u64 + carry;
            out[k] = t as u32;
            carry = t >> 32;
            k += 1;
        }
    }
    mag_trim(&mut out);
    out
}

impl BigInt {
    pub fn zero() -> Self {
        Self::default()
    }
    pub fn from_i128(x: i128) -> Self {
        let neg = x < 0;
        let mut u = x.unsigned_abs();
        let mut mag = Vec::new();
        while u != 0 {
            mag.push(u as u32);
            u >>= 32;
        }
        Self { neg, mag }
    }
    pub fn from_u64(x: u64) -> Self {
        Self::from_i128(x as i128)
    }
    pub fn is_zero(&self) -> bool {
        self.mag.is_empty()
    }
    pub fn sign(&self) -> i32 {
        if self.mag.is_empty() {
            0
        } else if self.neg {
            -1
        } else {
            1
        }
    }
    pub fn neg(&self) -> Self {
        if self.is_zero() {
            self.clone()
        } else {
            Self { neg: !self.neg, mag: self.mag.clone() }
        }
    }
    pub fn abs(&self) -> Self {
        Self { neg: false, mag: self.mag.clone() }
    }
    pub fn add(&self, o: &Self) -> Self {
        if self.neg == o.neg {
            let mag = mag_add(&self.mag, &o.mag);
            return Self { neg: self.neg && !mag.is_empty(), mag };
        }
        match mag_cmp(&self.mag, &o.mag) {
            Ordering::Equal => Self::zero(),
            Ordering::Greater => Self { neg: self.neg, mag: mag_sub(&self.mag, &o.mag) },
            Ordering::Less => Self { neg: o.neg, mag: mag_sub(&o.mag, &self.mag) },
        }
    }
    pub fn sub(&self, o: &Self) -> Self {
        self.add(&o.neg())
    }
    pub fn mul(&self, o: &Self) -> Self {
        let mag = mag_mul(&self.mag, &o.mag);
        let neg = !mag.is_empty() && (self.neg != o.neg);
        Self { neg, mag }
    }
    pub fn shl(&self, bits: u64) -> Self {
        if self.is_zero() || bits == 0 {
            return self.clone();
        }
        let limbs = (bits / 32) as usize;
        let sh = (bits % 32) as u32;
        let mut mag = vec![0u32; limbs];
        if sh == 0 {
            mag.extend_from_slice(&self.mag);
        } else {
            let mut carry = 0u32;
            for &l in &self.mag {
                mag.push((l << sh) | carry);
                carry = l >> (32 - sh);
            }
            if carry != 0 {
                mag.push(carry);
            }
        }
        Self { neg: self.neg, mag }
    }
    /// Number of trailing zero bits (0 for zero).
    pub fn trailing_zeros(&self) -> u64 {
        let mut n = 0u64;
        for &l in &self.mag {
            if l == 0 {
                n += 32;
            } else {
                return n + l.trailing_zeros() as u64;
            }
        }
        0
    }
    pub fn shr(&self, bits: u64) -> Self {
        // arithmetic on magnitude (truncation toward zero); only used with exact shifts
        let limbs = (bits / 32) as usize;
        let sh = (bits % 32) as u32;
        if limbs >= self.mag.len() {
            return Self::zero();
        }
        let src = &self.mag[limbs..];
        let mut mag = Vec::with_capacity(src.len());
        if sh == 0 {
            mag.extend_from_slice(src);
        } else {
            for i in 0..src.len() {
                let hi = if i + 1 < src.len() { src[i + 1] << (32 - sh) } else { 0 };
                mag.push((src[i] >> sh) | hi);
            }
        }
        mag_trim(&mut mag);
        let neg = self.neg && !mag.is_empty();
        Self { neg, mag }
    }
    pub fn bit_length(&self) -> u64 {
        match self.mag.last() {
            None => 0,
            Some(&l) => (self.mag.len() as u64 - 1) * 32 + (32 - l.leading_zeros() as u64),
        }
    }
    pub fn cmp(&self, o: &Self) -> Ordering {
        match (self.sign(), o.sign()) {
            (a, b) if a != b => a.cmp(&b),
            (0, _) => Ordering::Equal,
            (1, _) => mag_cmp(&self.mag, &o.mag),
            _ => mag_cmp(&o.mag, &self.mag),
        }
    }
    pub fn to_i128(&self) -> Option<i128> {
        if self.mag.len() > 4 {
            return None;
        }
        let mut u: u128 = 0;
        for (i, &l) in self.mag.iter().enumerate() {
            u |= (l as u128) << (32 * i);
        }
        if self.neg {
            if u <= (i128::MAX as u128) + 1 {
                Some((u as i128).wrapping_neg())
            } else {
                None
            }
        } else if u <= i128::MAX as u128 {
            Some(u as i128)
        } else {
            None
        }
    }
    /// (mantissa in [0.5,1) with sign, binary exponent): value ~= m * 2^e (truncated to 64 bits).
    pub fn to_frexp(&self) -> (f64, i64) {
        if self.is_zero() {
            return (0.0, 0);
        }
        let bl = self.bit_length();
        let top: u64 = if bl <= 64 {
            let mut u = 0u64;
            for (i, &l) in self.mag.iter().enumerate() {
                u |= (l as u64) << (32 * i);
            }
            u << (64 - bl)
        } else {
            let s = self.shr(bl - 64);
            let mut u = 0u64;
            for (i, &l) in s.mag.iter().enumerate().take(2) {
                u |= (l as u64) << (32 * i);
            }
            u
        };
        let m = (top as f64) / 18446744073709551616.0; // 2^64
        (if self.neg { -m } else { m }, bl as i64)
    }
    pub fn to_hex(&self) -> String {
        if self.is_zero() {
            return "0".into();
        }
        let mut s = String::new();
        if self.neg {
            s.push('-');
        }
        s.push_str("0x");
        let mut first = true;
        for &l in self.mag.iter().rev() {
            if first {
                s.push_str(&format!("{:x}", l));
                first = false;
            } else {
                s.push_str(&format!("{:08x}", l));
            }
        }
        s
    }
}

// ---------------------------------------------------------------------------------------------
// Dyadic numbers  m * 2^e
// ---------------------------------------------------------------------------------------------

#[derive(Clone, Debug)]
pub struct Dy {
    pub m: BigInt,
    pub e: i64,
}

impl Dy {
    pub fn zero() -> Self {
        Self { m: BigInt::zero(), e: 0 }
    }
    pub fn one() -> Self {
        Self { m: BigInt::from_i128(1), e: 0 }
    }
    pub fn from_i64(x: i64) -> Self {
        Self { m: BigInt::from_i128(x as i128), e: 0 }
    }
    /// Exact conversion of a finite f64. Panics on NaN/inf (callers filter those).
    pub fn from_f64(x: f64) -> Self {
        assert!(x.is_finite(), "Dy::from_f64 on non-finite value");
        if x == 0.0 {
            return Self::zero();
        }
        let bits = x.to_bits();
        let neg = (bits >> 63) != 0;
        let exp = ((bits >> 52) & 0x7ff) as i64;
        let frac = bits & ((1u64 << 52) - 1);
        let (mant, e) = if exp == 0 { (frac, -1074) } else { (frac | (1u64 << 52), exp - 1075) };
        let tz = mant.trailing_zeros() as i64;
        let mant = mant >> tz;
        let m = BigInt::from_i128(if neg { -(mant as i128) } else { mant as i128 });
        Self { m, e: e + tz }
    }
    pub fn sign(&self) -> i32 {
        self.m.sign()
    }
    pub fn is_zero(&self) -> bool {
        self.m.is_zero()
    }
    pub fn neg(&self) -> Self {
        Self { m: self.m.neg(), e: self.e }
    }
    pub fn abs(&self) -> Self {
        Self { m: self.m.abs(), e: self.e }
    }
    fn align(a: &Self, b: &Self) -> (BigInt, BigInt, i64) {
        if a.is_zero() {
            return (BigInt::zero(), b.m.clone(), b.e);
        }
        if b.is_zero() {
            return (a.m.clone(), BigInt::zero(), a.e);
        }
        let e = a.e.min(b.e);
        (a.m.shl((a.e - e) as u64), b.m.shl((b.e - e) as u64), e)
    }
    pub fn add(&self, o: &Self) -> Self {
        let (a, b, e) = Self::align(self, o);
        Self { m: a.add(&b), e }
    }
    pub fn sub(&self, o: &Self) -> Self {
        let (a, b, e) = Self::align(self, o);
        Self { m: a.sub(&b), e }
    }
    pub fn mul(&self, o: &Self) -> Self {
        if self.is_zero() || o.is_zero() {
            return Self::zero();
        }
        Self { m: self.m.mul(&o.m), e: self.e + o.e }
    }
    pub fn mul_pow2(&self, k: i64) -> Self {
        if self.is_zero() {
            return Self::zero();
        }
        Self { m: self.m.clone(), e: self.e + k }
    }
    pub fn cmp(&self, o: &Self) -> Ordering {
        let (a, b, _) = Self::align(self, o);
        a.cmp(&b)
    }
    pub fn cmp_f64(&self, x: f64) -> Ordering {
        self.cmp(&Self::from_f64(x))
    }
    pub fn gt(&self, o: &Self) -> bool {
        self.cmp(o) == Ordering::Greater
    }
    pub fn lt(&self, o: &Self) -> bool {
        self.cmp(o) == Ordering::Less
    }
    pub fn le(&self, o: &Self) -> bool {
        self.cmp(o) != Ordering::Greater
    }
    pub fn ge(&self, o: &Self) -> bool {
        self.cmp(o) != Ordering::Less
    }
    /// Nearest-ish f64 (truncated mantissa); +-inf / 0 when out of range.
    pub fn approx(&self) -> f64 {
        let (m, be) = self.m.to_frexp();
        if m == 0.0 {
            return 0.0;
        }
        let e = be + self.e;
        if e > 1030 {
            return if m < 0.0 { f64::NEG_INFINITY } else { f64::INFINITY };
        }
        if e < -1100 {
            return 0.0;
        }
        // m * 2^e in two steps to avoid premature overflow/underflow
        let h = e / 2;
        m * 2f64.powi(h as i32) * 2f64.powi((e - h) as i32)
    }
    /// log2 |x| (approximately); -inf for zero.
    pub fn log2_abs(&self) -> f64 {
        let (m, be) = self.m.to_frexp();
        if m == 0.0 {
            return f64::NEG_INFINITY;
        }
        m.abs().log2() + (be + self.e) as f64
    }
    /// Exact f64 if representable.
    pub fn to_f64_exact(&self) -> Option<f64> {
        let a = self.approx();
        if a.is_finite() && self.cmp_f64(a) == Ordering::Equal { Some(a) } else { None }
    }
    pub fn normalized(&self) -> Self {
        if self.is_zero() {
            return Self::zero();
        }
        let tz = self.m.trailing_zeros();
        Self { m: self.m.shr(tz), e: self.e + tz as i64 }
    }
    pub fn to_string_hex(&self) -> String {
        let n = self.normalized();
        format!("{}*2^{}", n.m.to_hex(), n.e)
    }
}

// ---------------------------------------------------------------------------------------------
// Determinants (division free, subset dynamic programming = Laplace expansion along rows)
// ---------------------------------------------------------------------------------------------

/// Counters for the self-check evidence.
#[derive(Default, Clone, Debug)]
pub struct ExactStats {
    pub dets: u64,
    pub fast_path: u64,
    pub big_path: u64,
    pub cross_checked: u64,
}

thread_local! {
    pub static STATS: std::cell::RefCell<ExactStats> = std::cell::RefCell::new(ExactStats::default());
    static CROSS_CTR: std::cell::Cell<u64> = const { std::cell::Cell::new(0) };
}

fn det_i128(a: &[Vec<i128>]) -> Option<i128> {
    let n = a.len();
    if n == 0 {
        return Some(1);
    }
    // f[mask] = det of the submatrix using rows 0..popcount(mask) and the columns in mask
    let full = 1usize << n;
    let mut f: Vec<i128> = vec![0; full];
    f[0] = 1;
    for mask in 1..full {
        let r = (mask as u32).count_ones() as usize - 1; // row index being added
        let mut acc: i128 = 0;
        // expand along row r: columns c in mask, sign by position of c within mask
        let mut pos = 0usize; // index of column c among the columns of mask (ascending)
        for c in 0..n {
            if mask & (1 << c) == 0 {
                continue;
            }
            let sub = f[mask & !(1 << c)];
            let e = a[r][c];
            if sub != 0 && e != 0 {
                let t = e.checked_mul(sub)?;
                // row r is the last row of the (r+1)x(r+1) minor: cofactor sign (-1)^(r+pos)
                if (r + pos) % 2 == 0 {
                    acc = acc.checked_add(t)?;
                } else {
                    acc = acc.checked_sub(t)?;
                }
            }
            pos += 1;
        }
        f[mask] = acc;
    }
    Some(f[full - 1])
}

fn det_big(a: &[Vec<BigInt>]) -> BigInt {
    let n = a.len();
    if n == 0 {
        return BigInt::from_i128(1);
    }
    let full = 1usize << n;
    let mut f: Vec<BigInt> = vec![BigInt::zero(); full];
    f[0] = BigInt::from_i128(1);
    for mask in 1..full {
        let r = (mask as u32).count_ones() as usize - 1;
        let mut acc = BigInt::zero();
        let mut pos = 0usize;
        for c in 0..n {
            if mask & (1 << c) == 0 {
                continue;
            }
            let sub = &f[mask & !(1 << c)];
            let e = &a[r][c];
            if !sub.is_zero() && !e.is_zero() {
                let t = e.mul(sub);
                if (r + pos) % 2 == 0 {
                    acc = acc.add(&t);
                } else {
                    acc = acc.sub(&t);
                }
            }
            pos += 1;
        }
        f[mask] = acc;
    }
    f[full - 1].clone()
}

/// Exact determinant of a square matrix of dyadic numbers.
pub fn det(rows: &[Vec<Dy>]) -> Dy {
    let n = rows.len();
    for r in rows {
        assert_eq!(r.len(), n, "det: matrix must be square");
    }
    if n == 0 {
        return Dy::one();
    }
    // scale every column to integers with its own exponent
    let mut col_e = vec![i64::MAX; n];
    for r in rows {
        for (c, x) in r.iter().enumerate() {
            if !x.is_zero() {
                col_e[c] = col_e[c].min(x.e);
            }
        }
    }
    let mut total_e: i64 = 0;
    for c in 0..n {
        if col_e[c] == i64::MAX {
            return Dy::zero(); // zero column
        }
        total_e += col_e[c];
    }
    let ints: Vec<Vec<BigInt>> = rows
        .iter()
        .map(|r| {
            r.iter()
                .enumerate()
                .map(|(c, x)| if x.is_zero() { BigInt::zero() } else { x.m.shl((x.e - col_e[c]) as u64) })
                .collect()
        })
        .collect();
    STATS.with(|s| s.borrow_mut().dets += 1);
    // fast path
    let small: Option<Vec<Vec<i128>>> = ints
        .iter()
        .map(|r| r.iter().map(|x| x.to_i128().filter(|v| v.unsigned_abs() < (1u128 << 100))).collect::<Option<Vec<i128>>>())
        .collect();
    if let Some(small) = small {
        if let Some(d) = det_i128(&small) {
            STATS.with(|s| s.borrow_mut().fast_path += 1);
            // periodic cross-check against the bigint path
            let k = CROSS_CTR.with(|c| {
                let v = c.get();
                c.set(v + 1);
                v
            });
            if k % 257 == 0 {
                let b = det_big(&ints);
                STATS.with(|s| s.borrow_mut().cross_checked += 1);
                if b.to_i128() != Some(d) {
                    eprintln!("HARNESS-ERROR exact: i128 and bigint determinants disagree");
                    std::process::exit(2);
                }
            }
            return Dy { m: BigInt::from_i128(d), e: total_e };
        }
    }
    STATS.with(|s| s.borrow_mut().big_path += 1);
    Dy { m: det_big(&ints), e: total_e }
}

pub fn dyv<const D: usize>(p: &[f64; D]) -> Vec<Dy> {
    p.iter().map(|&x| Dy::from_f64(x)).collect()
}

/// Exact determinant of the orientation matrix `[x_1 .. x_D 1]` (rows = the D+1 points).
pub fn orient_det<const D: usize>(pts: &[[f64; D]]) -> Dy {
    assert_eq!(pts.len(), D + 1);
    let rows: Vec<Vec<Dy>> = pts
        .iter()
        .map(|p| {
            let mut r = dyv(p);
            r.push(Dy::one());
            r
        })
        .collect();
    det(&rows)
}

/// Orientation determinant for points of dynamic dimension (k+1 points in R^k).
pub fn orient_det_dyn(pts: &[Vec<f64>]) -> Dy {
    let k = pts.len() - 1;
    let rows: Vec<Vec<Dy>> = pts
        .iter()
        .map(|p| {
            assert_eq!(p.len(), k);
            let mut r: Vec<Dy> = p.iter().map(|&x| Dy::from_f64(x)).collect();
            r.push(Dy::one());
            r
        })
        .collect();
    det(&rows)
}

/// Exact in-sphere determinant of the documented matrix `[x, |x|^2, 1]` (simplex rows, then the
/// test point), computed through the translation-invariant lifted form:
/// `det_in = (-1)^(D+1) * det [[q_i, |q_i|^2], [t, |t|^2]]`, `q_i = p_i - p_0`, `t = test - p_0`.
///
/// Geometry: with `A = [q_i]`, `det_L = det(A) * (|t - c|^2 - R^2)`, and
/// `det_or = (-1)^D det(A)`, hence `det_in * det_or > 0  <=>  test strictly inside`.
pub fn insphere_det<const D: usize>(simplex: &[[f64; D]], test: &[f64; D]) -> Dy {
    assert_eq!(simplex.len(), D + 1);
    let p0 = dyv(&simplex[0]);
    let mut rows: Vec<Vec<Dy>> = Vec::with_capacity(D + 1);
    let rel = |p: &[f64; D]| -> Vec<Dy> {
        let mut r: Vec<Dy> = Vec::with_capacity(D + 1);
        let mut n2 = Dy::zero();
        for j in 0..D {
            let q = Dy::from_f64(p[j]).sub(&p0[j]);
            n2 = n2.add(&q.mul(&q));
            r.push(q);
        }
        r.push(n2);
        r
    };
    for p in simplex.iter().skip(1) {
        rows.push(rel(p));
    }
    rows.push(rel(test));
    let dl = det(&rows);
    if (D + 1) % 2 == 0 { dl } else { dl.neg() }
}

/// +1 strictly inside, -1 strictly outside, 0 on the sphere; `None` if the simplex is exactly flat.
pub fn insphere_sign<const D: usize>(simplex: &[[f64; D]], test: &[f64; D]) -> Option<i32> {
    let o = orient_det(simplex).sign();
    if o == 0 {
        return None;
    }
    Some(insphere_det(simplex, test).sign() * o)
}

/// Exact squared Euclidean distance.
pub fn dist2<const D: usize>(a: &[f64; D], b: &[f64; D]) -> Dy {
    let mut s = Dy::zero();
    for j in 0..D {
        let d = Dy::from_f64(a[j]).sub(&Dy::from_f64(b[j]));
        s = s.add(&d.mul(&d));
    }
    s
}

// ---------------------------------------------------------------------------------------------
// The documented tolerance band and the forward-error allowance
// ---------------------------------------------------------------------------------------------

/// `tol(M) = 1e-15 + 1e-12 * max_i sum_j |M_ij|` over all columns except a trailing all-ones
/// column (geometry/matrix.rs `adaptive_tolerance`, base tolerance `f64::default_tolerance()`).
/// Evaluated in f64 on the documented matrix for `orientation`: `[x, 1]`.
pub fn tol_orient<const D: usize>(pts: &[[f64; D]]) -> f64 {
    let mut mx = 0.0f64;
    for p in pts {
        let s: f64 = p.iter().map(|x| x.abs()).sum();
        mx = mx.max(s);
    }
    1e-12f64.mul_add(mx, 1e-15)
}

/// Same for the documented in-sphere matrix `[x, |x|^2, 1]`.
pub fn tol_insphere<const D: usize>(simplex: &[[f64; D]], test: &[f64; D]) -> f64 {
    let mut mx = 0.0f64;
    for p in simplex.iter().chain(std::iter::once(test)) {
        let s: f64 = p.iter().map(|x| x.abs()).sum::<f64>() + p.iter().map(|x| x * x).sum::<f64>();
        mx = mx.max(s);
    }
    1e-12f64.mul_add(mx, 1e-15)
}

const U: f64 = 1.1102230246251565e-16; // unit roundoff

/// A-priori allowance for the rounding error of an LU-with-partial-pivoting determinant of an
/// n x n matrix whose column 2-norms are `col_norms`: growth factor <= 2^(n-1), backward error
/// gamma_n ~ n*u per entry relative to |L||U|, determinant perturbation bounded through
/// Hadamard's inequality. Deliberately generous (n^2 * 2^n * u * prod ||col||).
pub fn lu_error_allowance(col_norms: &[f64]) -> f64 {
    let n = col_norms.len() as f64;
    let h: f64 = col_norms.iter().product();
    n * n * 2f64.powf(n) * U * h
}

pub fn err_orient<const D: usize>(pts: &[[f64; D]]) -> f64 {
    let mut norms = vec![0.0f64; D + 1];
    for p in pts {
        for j in 0..D {
            norms[j] += p[j] * p[j];
        }
        norms[D] += 1.0;
    }
    for x in norms.iter_mut() {
        *x = x.sqrt();
    }
    lu_error_allowance(&norms)
}

pub fn err_insphere<const D: usize>(simplex: &[[f64; D]], test: &[f64; D]) -> f64 {
    let mut norms = vec![0.0f64; D + 2];
    for p in simplex.iter().chain(std::iter::once(test)) {
        let mut n2 = 0.0;
        for j in 0..D {
            norms[j] += p[j] * p[j];
            n2 += p[j] * p[j];
        }
        norms[D] += n2 * n2;
        norms[D + 1] += 1.0;
    }
    for x in norms.iter_mut() {
        *x = x.sqrt();
    }
    // the squared-norm column is itself rounded before it enters the matrix: relative error
    // <= (D+1) u per entry, covered by one more factor in the allowance
    lu_error_allowance(&norms) * 2.0
}

/// Classification of an exact value against the band.
#[derive(Clone, Copy, Debug, PartialEq, Eq)]
pub enum Band {
    /// |value| beyond the widened band with the given sign (+1 / -1)
    Decided(i32),
    /// exactly zero
    Zero,
    /// non-zero but within the widened band: never judged
    Ambiguous,
}

/// `value` beyond `8*tol + err` => Decided; exactly zero => Zero; else Ambiguous.
pub fn classify(value: &Dy, tol: f64, err: f64) -> Band {
    if value.is_zero() {
        return Band::Zero;
    }
    let b = 8.0 * tol + err;
    if !b.is_finite() {
        return Band::Ambiguous;
    }
    if value.abs().cmp_f64(b) == Ordering::Greater { Band::Decided(value.sign()) } else { Band::Ambiguous }
}

/// Full exact in-sphere judgement of `test` against `simplex`, at band strength.
/// Returns Decided(+1) only when the simplex orientation is decided and the normalised
/// in-sphere value is decided positive.
pub fn insphere_band<const D: usize>(simplex: &[[f64; D]], test: &[f64; D]) -> Band {
    let od = orient_det(simplex);
    let ob = classify(&od, tol_orient(simplex), err_orient(simplex));
    let Band::Decided(os) = ob else {
        return if od.is_zero() { Band::Zero } else { Band::Ambiguous };
    };
    let id = insphere_det(simplex, test);
    match classify(&id, tol_insphere(simplex, test), err_insphere(simplex, test)) {
        Band::Decided(s) => Band::Decided(s * os),
        other => other,
    }
}

#[cfg(test)]
mod tests {
    use super::*;
    #[test]
    fn bigint_basic() {
        let a = BigInt::from_i128(123456789012345678901234567890i128);
        let b = BigInt::from_i128(-987654321098765432109876543210i128);
        assert_eq!(a.add(&b).to_i128(), Some(123456789012345678901234567890i128 - 987654321098765432109876543210i128));
        assert_eq!(a.mul(&BigInt::from_i128(-3)).to_i128(), Some(-3 * 123456789012345678901234567890i128));
        assert_eq!(a.shl(5).shr(5), a);
        assert_eq!(BigInt::from_i128(i128::MIN).to_i128(), Some(i128::MIN));
    }
    #[test]
    fn dy_roundtrip() {
        for x in [1.0, -0.1, 5e-324, 1e300, -1e-300, 3.5, 0.0] {
            assert_eq!(Dy::from_f64(x).to_f64_exact(), Some(x));
        }
        assert!(Dy::from_f64(0.1).add(&Dy::from_f64(0.2)).cmp_f64(0.30000000000000004) == Ordering::Less);
    }
    #[test]
    fn det_small() {
        let m = vec![vec![Dy::from_f64(1.0), Dy::from_f64(2.0)], vec![Dy::from_f64(3.0), Dy::from_f64(4.0)]];
        assert_eq!(det(&m).to_f64_exact(), Some(-2.0));
        let m3: Vec<Vec<Dy>> = [[2.0, 0.0, 1.0], [1.0, 3.0, 2.0], [1.0, 1.0, 1.0]].iter().map(|r| r.iter().map(|&x| Dy::from_f64(x)).collect()).collect();
        assert_eq!(det(&m3).to_f64_exact(), Some(0.0 + 2.0 * (3.0 - 2.0) - 0.0 + 1.0 * (1.0 - 3.0)));
    }
    #[test]
    fn insphere_geometry() {
        // unit right triangle, circumcentre (0.5,0.5), R^2 = 0.5
        let s = [[0.0, 0.0], [1.0, 0.0], [0.0, 1.0]];
        assert_eq!(insphere_sign(&s, &[0.5, 0.5]), Some(1));
        assert_eq!(insphere_sign(&s, &[1.0, 1.0]), Some(0));
        assert_eq!(insphere_sign(&s, &[2.0, 2.0]), Some(-1));
        let s2 = [[1.0, 0.0], [0.0, 0.0], [0.0, 1.0]];
        assert_eq!(insphere_sign(&s2, &[0.5, 0.5]), Some(1));
        for_dim::<3>();
        for_dim::<4>();
        for_dim::<5>();
    }
    fn for_dim<const D: usize>() {
        let mut s = vec![[0.0; D]; D + 1];
        for i in 0..D {
            s[i + 1][i] = 1.0;
        }
        let c = [0.25; D];
        assert_eq!(insphere_sign(&s, &c), Some(1));
        let far = [3.0; D];
        assert_eq!(insphere_sign(&s, &far), Some(-1));
        s.swap(0, 1);
        assert_eq!(insphere_sign(&s, &c), Some(1));
        assert_eq!(insphere_sign(&s, &far), Some(-1));
        assert_eq!(insphere_sign(&s, &[1.0; D]), Some(0));
    }
}
