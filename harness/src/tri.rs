//! Helpers shared by the triangulation monitors: vertex construction, guarded library calls,
//! state certification (RefCheck + convexity + exact Level 4).

use crate::api::mk_vertex;
use crate::common::{Out, PanicInfo, guard};
use crate::model::{DataI, RefModel};
use crate::refcheck::{self, Guarantee, Stack};
use crate::rng::Rng;
use delaunay::core::delaunay_triangulation::{
    ConstructionOptions, DedupPolicy, DelaunayTriangulation, InitialSimplexStrategy, InsertionOrderStrategy, RetryPolicy,
};
use delaunay::core::triangulation::TopologyGuarantee;
use delaunay::core::vertex::Vertex;
use delaunay::geometry::kernel::Kernel;
use std::num::NonZeroUsize;
use uuid::Uuid;

pub type Dt<K, const D: usize> = DelaunayTriangulation<K, i32, i32, D>;

#[derive(Clone, Debug)]
pub struct Input<const D: usize> {
    pub uuid: Uuid,
    pub p: [f64; D],
    pub data: Option<i64>,
}

pub fn mk_inputs<const D: usize>(rng: &mut Rng, pts: &[[f64; D]]) -> Vec<Input<D>> {
    pts.iter().enumerate().map(|(i, p)| Input { uuid: rng.uuid(), p: *p, data: if i % 5 == 4 { None } else { Some(1000 + i as i64) } }).collect()
}

pub fn to_vertices<U: DataI, const D: usize>(inp: &[Input<D>]) -> Vec<Vertex<f64, U, D>> {
    inp.iter().map(|i| mk_vertex::<U, D>(i.p, i.uuid, i.data)).collect()
}

pub const GUARANTEES: [Guarantee; 3] = [Guarantee::Pseudomanifold, Guarantee::PLManifold, Guarantee::PLManifoldStrict];

#[derive(Clone, Debug)]
pub struct Opts {
    pub order: InsertionOrderStrategy,
    pub dedup: DedupPolicy,
    pub simplex: InitialSimplexStrategy,
    pub retry: RetryPolicy,
}

impl Opts {
    pub fn random(rng: &mut Rng) -> Self {
        let order = [InsertionOrderStrategy::Input, InsertionOrderStrategy::Lexicographic, InsertionOrderStrategy::Morton, InsertionOrderStrategy::Hilbert][rng.usize(4)];
        // 1e-17 and 1e-20 put unit-scale coordinates into the quantised-bucket regime (|c|/t >= 2^53)
        // and into the regime where the bucket key overflows and the quadratic scan takes over (>= 2^63)
        let dedup = match rng.usize(8) {
            0 | 1 => DedupPolicy::Off,
            2 => DedupPolicy::Exact,
            3 => DedupPolicy::Epsilon { tolerance: 0.0 },
            4 => DedupPolicy::Epsilon { tolerance: 1e-12 },
            5 => DedupPolicy::Epsilon { tolerance: 1e-17 },
            6 => DedupPolicy::Epsilon { tolerance: 1e-20 },
            _ => DedupPolicy::Epsilon { tolerance: 1e-3 },
        };
        let simplex = if rng.bool() { InitialSimplexStrategy::First } else { InitialSimplexStrategy::Balanced };
        let retry = match rng.usize(5) {
            0 | 1 => RetryPolicy::Disabled,
            2 => RetryPolicy::Shuffled { attempts: NonZeroUsize::new(1 + rng.usize(3)).unwrap(), base_seed: Some(rng.next_u64()) },
            3 => RetryPolicy::Shuffled { attempts: NonZeroUsize::new(1 + rng.usize(3)).unwrap(), base_seed: None },
            _ => RetryPolicy::DebugOnlyShuffled { attempts: NonZeroUsize::new(1 + rng.usize(3)).unwrap(), base_seed: None },
        };
        Self { order, dedup, simplex, retry }
    }
    pub fn default_like() -> Self {
        let d = ConstructionOptions::default();
        Self { order: d.insertion_order(), dedup: d.dedup_policy(), simplex: d.initial_simplex_strategy(), retry: d.retry_policy() }
    }
    pub fn to_lib(&self) -> ConstructionOptions {
        ConstructionOptions::default().with_insertion_order(self.order).with_dedup_policy(self.dedup).with_initial_simplex_strategy(self.simplex).with_retry_policy(self.retry)
    }
    pub fn describe(&self) -> String {
        format!("{:?}/{:?}/{:?}/{:?}", self.order, self.dedup, self.simplex, self.retry)
    }
}

/// Build with the most general constructor, guarded.
pub fn build<K, const D: usize>(kernel: &K, inp: &[Input<D>], g: Guarantee, opts: &Opts) -> Result<Result<Dt<K, D>, String>, PanicInfo>
where
    K: Kernel<D, Scalar = f64>,
{
    let verts = to_vertices::<i32, D>(inp);
    let tg: TopologyGuarantee = g.to_lib();
    let o = opts.to_lib();
    guard(|| Dt::<K, D>::with_topology_guarantee_and_options(kernel, &verts, tg, o).map_err(|e| e.to_string()))
}

/// Plain default construction (default options, PLManifold), guarded.
pub fn build_default<K, const D: usize>(kernel: &K, inp: &[Input<D>]) -> Result<Result<Dt<K, D>, String>, PanicInfo>
where
    K: Kernel<D, Scalar = f64>,
{
    let verts = to_vertices::<i32, D>(inp);
    guard(|| Dt::<K, D>::with_kernel(kernel, &verts).map_err(|e| e.to_string()))
}

// ---------------------------------------------------------------------------------------------
// Certification of a state
// ---------------------------------------------------------------------------------------------

#[derive(Clone, Debug, Default)]
pub struct Cert {
    /// failures of levels 1-3 at the requested strength
    pub structure: Vec<String>,
    /// failures of convexity of the boundary
    pub convex: Vec<String>,
    /// exact Level 4 violations (strictly inside beyond the band), formatted
    pub delaunay: Vec<String>,
    /// witness classification of the first Level 4 violation (for known-finding signatures)
    pub delaunay_witness_kind: Option<String>,
    pub unique: bool,
    pub ambiguous: u64,
    pub pairs: u64,
    pub clustered: bool,
}

/// Relative separation of a point set: min pairwise distance / max pairwise distance.
pub fn relative_separation<const D: usize>(pts: &[[f64; D]]) -> f64 {
    let mut dmin = f64::INFINITY;
    let mut dmax: f64 = 0.0;
    for i in 0..pts.len() {
        for j in i + 1..pts.len() {
            let d2: f64 = (0..D).map(|k| (pts[i][k] - pts[j][k]).powi(2)).sum();
            dmin = dmin.min(d2);
            dmax = dmax.max(d2);
        }
    }
    if dmax == 0.0 { 1.0 } else { (dmin / dmax).sqrt() }
}

/// |orientation determinant| / product of the edge lengths from the first vertex (1 for an
/// orthogonal corner, ~0 for a flat simplex).
pub fn normalized_volume<const D: usize>(pts: &[[f64; D]]) -> f64 {
    let od = crate::exact::orient_det(pts).approx().abs();
    let mut prod = 1.0;
    for p in pts.iter().skip(1) {
        let l: f64 = (0..D).map(|j| (p[j] - pts[0][j]).powi(2)).sum::<f64>().sqrt();
        prod *= l;
    }
    if prod == 0.0 { 0.0 } else { od / prod }
}

/// A triangulation is "clustered" when two of its vertices are closer than 1e-7 x its diameter
/// (the scale at which the library's own 1e-8 x local-scale perturbation operates).
pub fn is_clustered<const D: usize>(m: &RefModel<D>) -> bool {
    let pts: Vec<[f64; D]> = m.verts.iter().map(|v| v.p).collect();
    relative_separation(&pts) < 1e-7
}

/// Classification of a Level 4 witness (cell ci, vertex vi):
///   `degenerate-flip`: v is the apex of a neighbour across facet F and the k=2 flip of F would
///                      create a cell whose exact orientation is zero or inside the tolerance band
///   `nonconvex`      : v is the apex of a neighbour, all new cells decided, union not convex
///   `flippable`      : v is the apex of a neighbour and the k=2 flip is geometrically legal
///   `non-adjacent`   : v is not the apex of any neighbour of the cell
pub fn witness_kind<const D: usize>(m: &RefModel<D>, ci: usize, vi: usize) -> String {
    use crate::exact::{Band, classify, err_orient, orient_det, tol_orient};
    let c = &m.cells[ci];
    let v = &m.verts[vi];
    let Some(cp) = m.cell_points(c) else { return "dangling".into() };
    let nb = m.cells.iter().find(|o| o.key != c.key && o.v.contains(&v.key) && o.v.iter().filter(|k| c.v.contains(k)).count() == D);
    let Some(o) = nb else { return "non-adjacent".into() };
    let Some(ai) = c.v.iter().position(|k| !o.v.contains(k)) else { return "non-adjacent".into() };
    let a = cp[ai];
    let facet: Vec<[f64; D]> = cp.iter().enumerate().filter(|(i, _)| *i != ai).map(|(_, p)| *p).collect();
    let base = {
        let mut s: Vec<[f64; D]> = facet.clone();
        s.push(a);
        orient_det(&s).sign()
    };
    let mut degenerate = false;
    let mut nonconvex = false;
    for k in 0..facet.len() {
        let mut s: Vec<[f64; D]> = facet.clone();
        s[k] = v.p;
        s.push(a);
        let od = orient_det(&s);
        match classify(&od, tol_orient(&s), err_orient(&s)) {
            Band::Decided(sg) => {
                if sg != base {
                    nonconvex = true;
                }
            }
            _ => degenerate = true,
        }
    }
    if degenerate {
        "degenerate-flip".into()
    } else if nonconvex {
        "nonconvex".into()
    } else {
        "flippable".into()
    }
}

/// Root cause of a set of Level 4 violations at the level of the whole triangulation:
/// `clustered` (see is_clustered), else the most severe class among *local* violations
/// (flippable > nonconvex > degenerate-flip), else `global-only`.
pub fn l4_root_cause<const D: usize>(m: &RefModel<D>, violations: &[(usize, usize)]) -> String {
    if is_clustered(m) {
        return "clustered".into();
    }
    let mut seen = std::collections::BTreeSet::new();
    for &(ci, vi) in violations.iter().take(400) {
        seen.insert(witness_kind(m, ci, vi));
    }
    for k in ["flippable", "nonconvex", "degenerate-flip"] {
        if seen.contains(k) {
            return k.into();
        }
    }
    // no local violation beyond the band: are all witness cells near-flat slivers?
    let all_slivers = violations.iter().take(400).all(|&(ci, _)| m.cell_points(&m.cells[ci]).map(|p| normalized_volume(&p) < 1e-6).unwrap_or(false));
    if all_slivers {
        return "sliver".into();
    }
    // A valid triangulation of a convex region that is locally Delaunay is Delaunay, so in exact
    // arithmetic some pair of adjacent cells violates; here every such pair is inside the band (the
    // library's predicates cannot see it). If each of them involves a near-flat cell (tiny orientation
    // determinant scales the in-sphere determinant into the band although the neighbour's apex is
    // well inside the sphere), the cause is again the slivers, not the fat witness cells: one in-band
    // pair with a near-flat cell is enough to let a deep violation through.
    let mut local_exact = 0usize;
    let mut local_exact_with_sliver = 0usize;
    for c in m.cells.iter() {
        let Some(cp) = m.cell_points(c) else { continue };
        if cp.len() != D + 1 {
            continue;
        }
        for o in m.cells.iter() {
            if o.key == c.key || o.v.iter().filter(|k| c.v.contains(k)).count() != D {
                continue;
            }
            let Some(apex) = o.v.iter().find(|k| !c.v.contains(k)).and_then(|k| m.vertex(*k)) else { continue };
            if crate::exact::insphere_sign(&cp, &apex.p) == Some(1) {
                local_exact += 1;
                let op = m.cell_points(o).unwrap_or_default();
                if std::env::var_os("DVERIF_DEBUG").is_some() {
                    let id = crate::exact::insphere_det(&cp, &apex.p);
                    eprintln!("local exact violation: cell {:?} vol {:e} / neighbour {:?} vol {:e}: det_in {:e} orient {:e} tol {:e} err {:e}", c.key, normalized_volume(&cp), o.key, if op.len() == D + 1 { normalized_volume(&op) } else { -1.0 }, id.approx(), crate::exact::orient_det(&cp).approx(), crate::exact::tol_insphere(&cp, &apex.p), crate::exact::err_insphere(&cp, &apex.p));
                }
                if normalized_volume(&cp) < 1e-6 || (op.len() == D + 1 && normalized_volume(&op) < 1e-6) {
                    local_exact_with_sliver += 1;
                }
            }
        }
    }
    let _ = local_exact;
    if local_exact_with_sliver > 0 { "sliver".into() } else { "global-only".into() }
}

pub fn certify<const D: usize>(m: &RefModel<D>, g: Guarantee, completion: bool, want_convex: bool, want_delaunay: bool) -> Cert {
    let mut cert = Cert::default();
    let st = Stack::compute(m);
    cert.structure = st.fails(g, completion, m.cells.len());
    cert.ambiguous += st.l3.orientation_ambiguous as u64;
    if !cert.structure.is_empty() {
        return cert;
    }
    cert.clustered = is_clustered(m);
    if want_convex {
        let c = refcheck::check_convex_boundary(m);
        cert.convex = c.fails;
        cert.ambiguous += c.ambiguous as u64;
    }
    if want_delaunay {
        let d = refcheck::check_delaunay(m);
        cert.unique = d.unique_certificate;
        cert.ambiguous += d.ambiguous_inside as u64;
        cert.pairs = d.pairs as u64;
        if !d.violations.is_empty() {
            cert.delaunay_witness_kind = Some(l4_root_cause(m, &d.violations));
        }
        for &(ci, vi) in d.violations.iter().take(5) {
            let pts = m.cell_points(&m.cells[ci]).unwrap_or_default();
            let id = crate::exact::insphere_det(&pts, &m.verts[vi].p);
            cert.delaunay.push(format!(
                "vertex {:?} {:?} strictly inside circumsphere of cell {:?} {:?} ({}): exact det_in={:e} orient={:e} tol={:e} allowance={:e}",
                m.verts[vi].key, m.verts[vi].p, m.cells[ci].key, pts, witness_kind(m, ci, vi), id.approx(), crate::exact::orient_det(&pts).approx(),
                crate::exact::tol_insphere(&pts, &m.verts[vi].p), crate::exact::err_insphere(&pts, &m.verts[vi].p)
            ));
        }
    }
    cert
}

impl Cert {
    pub fn ok(&self) -> bool {
        self.structure.is_empty() && self.convex.is_empty() && self.delaunay.is_empty()
    }
    pub fn summary(&self) -> String {
        let mut v = Vec::new();
        v.extend(self.structure.iter().take(3).cloned());
        v.extend(self.convex.iter().take(2).cloned());
        v.extend(self.delaunay.iter().take(2).cloned());
        v.join("; ")
    }
    /// Signature component naming the first failing aspect.
    pub fn aspect(&self) -> String {
        if let Some(f) = self.structure.first() {
            let lvl = f.split_whitespace().next().unwrap_or("L?");
            // keep only the words of the message (keys/numbers stripped) so signatures are stable
            let what: String = f
                .split_whitespace()
                .skip(1)
                .filter(|w| w.chars().all(|c| c.is_ascii_alphabetic() || c == '-' || c == '_'))
                .take(4)
                .collect::<Vec<_>>()
                .join("-");
            return format!("{}/{}", lvl, what);
        }
        if !self.convex.is_empty() {
            return format!("convex/{}", if self.clustered { "clustered" } else { "general" });
        }
        if !self.delaunay.is_empty() {
            return format!("L4/{}", self.delaunay_witness_kind.clone().unwrap_or_default());
        }
        "ok".into()
    }
}

/// Checks that every vertex of the model corresponds to exactly one input (UUID, data), with
/// coordinates bit-identical or displaced by at most the documented perturbation
/// `(j+1) * 1e-8 * scale` per axis j, where scale <= max(1, diameter of the input).
pub fn vertex_accounting<const D: usize>(m: &RefModel<D>, inp: &[Input<D>], unit_data: bool) -> Vec<String> {
    let mut fails = Vec::new();
    let mut by_uuid = std::collections::HashMap::new();
    for (i, v) in inp.iter().enumerate() {
        by_uuid.entry(v.uuid).or_insert(i);
    }
    let mut diam: f64 = 1.0;
    for a in inp {
        for b in inp {
            let d2: f64 = (0..D).map(|j| (a.p[j] - b.p[j]).powi(2)).sum();
            diam = diam.max(d2.sqrt());
        }
    }
    let mut seen = std::collections::HashSet::new();
    for v in &m.verts {
        let Some(&i) = by_uuid.get(&v.uuid) else {
            fails.push(format!("output vertex {:?} has a UUID that is not in the input", v.uuid));
            continue;
        };
        if !seen.insert(v.uuid) {
            fails.push(format!("two output vertices share UUID {:?}", v.uuid));
        }
        let expected_data = if unit_data { inp[i].data.map(|_| 0) } else { inp[i].data };
        if v.data != expected_data {
            fails.push(format!("vertex {:?} data {:?} differs from input {:?}", v.uuid, v.data, inp[i].data));
        }
        for j in 0..D {
            if v.p[j].to_bits() == inp[i].p[j].to_bits() || (v.p[j] == 0.0 && inp[i].p[j] == 0.0) {
                continue;
            }
            let bound = (j as f64 + 1.0) * 1e-8 * diam * 1.01;
            if !((v.p[j] - inp[i].p[j]).abs() <= bound) {
                fails.push(format!("vertex {:?} axis {} moved from {:e} to {:e} (bound {:e})", v.uuid, j, inp[i].p[j], v.p[j], bound));
            }
        }
    }
    fails
}

/// Record a certification failure as a violation.
pub fn report_cert(out: &mut Out, prop: &str, context: &str, cert: &Cert, replay: serde_json::Value) {
    let sig = format!("{}/{}", context, cert.aspect());
    out.violation(prop, &sig, format!("{}: {}", context, cert.summary()), replay);
}

/// Diagnostic dump used when investigating a witness (env DVERIF_DEBUG).
pub fn debug_dump<K, U, V, const D: usize>(dt: &DelaunayTriangulation<K, U, V, D>)
where
    K: Kernel<D, Scalar = f64>,
    U: DataI,
    V: DataI,
{
    use delaunay::geometry::point::Point;
    use delaunay::geometry::traits::coordinate::Coordinate;
    eprintln!("== debug dump: {} vertices {} cells", dt.number_of_vertices(), dt.number_of_cells());
    eprintln!("is_valid {:?}", dt.is_valid().map_err(|e| e.to_string()));
    eprintln!("tri.validate {:?}", dt.as_triangulation().validate().map_err(|e| e.to_string()));
    eprintln!("find_delaunay_violations {:?}", delaunay::core::util::find_delaunay_violations(dt.tds(), None).map(|v| v.len()).map_err(|e| e.to_string()));
    let m = RefModel::from_dt(dt);
    for v in &m.verts {
        eprintln!("v {:?} {:?}", v.key, v.p);
    }
    for c in &m.cells {
        eprintln!("c {:?} {:?} nb {:?}", c.key, c.v, c.nb);
    }
    let cv = refcheck::check_convex_boundary(&m);
    eprintln!("convex fails {:?} ambiguous {}", cv.fails, cv.ambiguous);
    let d = refcheck::check_delaunay(&m);
    eprintln!("exact violations {} ambiguous {} cospherical {}", d.violations.len(), d.ambiguous_inside, d.cospherical);
    let fk = delaunay::geometry::kernel::FastKernel::<f64>::new();
    let rk = delaunay::geometry::kernel::RobustKernel::<f64>::new();
    for (ci, vi) in d.violations.iter().take(6) {
        let cp = m.cell_points(&m.cells[*ci]).unwrap();
        let ps: Vec<Point<f64, D>> = cp.iter().map(|p| Point::new(*p)).collect();
        let t = Point::new(m.verts[*vi].p);
        eprintln!(
            "VIOL cell {:?} {:?} vertex {:?} {:?}: fast in_sphere {:?} robust {:?} kind {}",
            m.cells[*ci].key, cp, m.verts[*vi].key, m.verts[*vi].p,
            Kernel::<D>::in_sphere(&fk, &ps, &t), Kernel::<D>::in_sphere(&rk, &ps, &t), witness_kind(&m, *ci, *vi)
        );
    }
}
