//! History engine: generates operations relative to the *current* state of a triangulation,
//! applies them through the public API (guarded against panics) and hands every step to an
//! observer together with before/after RefModels.

use crate::api::{config_of, mk_vertex};
use crate::common::{PanicInfo, guard};
use crate::fingerprint::Config;
use crate::model::{RefModel, ck_u64, vk_u64};
use crate::refcheck::Guarantee;
use crate::rng::Rng;
use crate::tri::Dt;
use delaunay::core::delaunay_triangulation::{DelaunayCheckPolicy, DelaunayRepairHeuristicConfig, DelaunayRepairPolicy};
use delaunay::core::operations::InsertionOutcome;
use delaunay::core::triangulation::ValidationPolicy;
use delaunay::core::triangulation_data_structure::{CellKey, VertexKey};
use delaunay::geometry::kernel::Kernel;
use delaunay::triangulation::flips::{BistellarFlips, EdgeKey, FacetHandle, FlipInfo, RidgeHandle, TriangleHandle};
use serde_json::{Value, json};
use std::num::NonZeroUsize;
use uuid::Uuid;

#[derive(Clone, Debug)]
pub enum Op<const D: usize> {
    Insert { p: [f64; D], uuid: Uuid, data: Option<i64>, how: &'static str },
    InsertStats { p: [f64; D], uuid: Uuid, data: Option<i64>, how: &'static str },
    Remove { uuid: Uuid, p: [f64; D], how: &'static str },
    FlipK1Insert { cell: CellKey, p: [f64; D], uuid: Uuid, how: &'static str },
    FlipK1Remove { vertex: VertexKey, how: &'static str },
    FlipK2 { cell: CellKey, idx: u8, how: &'static str },
    FlipK3 { cell: CellKey, a: u8, b: u8, how: &'static str },
    FlipK2Inv { a: VertexKey, b: VertexKey, how: &'static str },
    FlipK3Inv { a: VertexKey, b: VertexKey, c: VertexKey, how: &'static str },
    Repair,
    RepairAdvanced { shuffle: Option<u64>, perturb: Option<u64> },
    SetValidationPolicy(u8),
    SetRepairPolicy(u8),
    SetCheckPolicy(u8),
    SetGuarantee(u8),
    TouchMut,
    CloneSwap,
}

impl<const D: usize> Op<D> {
    pub fn kind(&self) -> &'static str {
        match self {
            Op::Insert { .. } => "insert",
            Op::InsertStats { .. } => "insert_with_statistics",
            Op::Remove { .. } => "remove_vertex",
            Op::FlipK1Insert { .. } => "flip_k1_insert",
            Op::FlipK1Remove { .. } => "flip_k1_remove",
            Op::FlipK2 { .. } => "flip_k2",
            Op::FlipK3 { .. } => "flip_k3",
            Op::FlipK2Inv { .. } => "flip_k2_inverse_from_edge",
            Op::FlipK3Inv { .. } => "flip_k3_inverse_from_triangle",
            Op::Repair => "repair_delaunay_with_flips",
            Op::RepairAdvanced { .. } => "repair_delaunay_with_flips_advanced",
            Op::SetValidationPolicy(_) => "set_validation_policy",
            Op::SetRepairPolicy(_) => "set_delaunay_repair_policy",
            Op::SetCheckPolicy(_) => "set_delaunay_check_policy",
            Op::SetGuarantee(_) => "set_topology_guarantee",
            Op::TouchMut => "as_triangulation_mut",
            Op::CloneSwap => "clone",
        }
    }
    pub fn is_mutation(&self) -> bool {
        !matches!(self, Op::SetValidationPolicy(_) | Op::SetRepairPolicy(_) | Op::SetCheckPolicy(_) | Op::SetGuarantee(_) | Op::TouchMut | Op::CloneSwap)
    }
    pub fn how(&self) -> &'static str {
        match self {
            Op::Insert { how, .. } | Op::InsertStats { how, .. } | Op::Remove { how, .. } | Op::FlipK1Insert { how, .. } | Op::FlipK1Remove { how, .. } | Op::FlipK2 { how, .. } | Op::FlipK3 { how, .. } | Op::FlipK2Inv { how, .. } | Op::FlipK3Inv { how, .. } => how,
            _ => "",
        }
    }
    pub fn to_json(&self) -> Value {
        match self {
            Op::Insert { p, uuid, data, how } => json!({"op": "insert", "p": p.to_vec(), "bits": crate::common::bits(p), "uuid": uuid.to_string(), "data": data, "how": how}),
            Op::InsertStats { p, uuid, data, how } => json!({"op": "insert_with_statistics", "p": p.to_vec(), "bits": crate::common::bits(p), "uuid": uuid.to_string(), "data": data, "how": how}),
            Op::Remove { uuid, p, how } => json!({"op": "remove_vertex", "uuid": uuid.to_string(), "p": p.to_vec(), "how": how}),
            Op::FlipK1Insert { cell, p, uuid, how } => json!({"op": "flip_k1_insert", "cell": format!("{:x}", ck_u64(*cell)), "p": p.to_vec(), "uuid": uuid.to_string(), "how": how}),
            Op::FlipK1Remove { vertex, how } => json!({"op": "flip_k1_remove", "vertex": format!("{:x}", vk_u64(*vertex)), "how": how}),
            Op::FlipK2 { cell, idx, how } => json!({"op": "flip_k2", "cell": format!("{:x}", ck_u64(*cell)), "facet_index": idx, "how": how}),
            Op::FlipK3 { cell, a, b, how } => json!({"op": "flip_k3", "cell": format!("{:x}", ck_u64(*cell)), "omit": [a, b], "how": how}),
            Op::FlipK2Inv { a, b, how } => json!({"op": "flip_k2_inverse_from_edge", "edge": [format!("{:x}", vk_u64(*a)), format!("{:x}", vk_u64(*b))], "how": how}),
            Op::FlipK3Inv { a, b, c, how } => json!({"op": "flip_k3_inverse_from_triangle", "triangle": [format!("{:x}", vk_u64(*a)), format!("{:x}", vk_u64(*b)), format!("{:x}", vk_u64(*c))], "how": how}),
            Op::Repair => json!({"op": "repair_delaunay_with_flips"}),
            Op::RepairAdvanced { shuffle, perturb } => json!({"op": "repair_delaunay_with_flips_advanced", "shuffle_seed": shuffle.map(|x| x.to_string()), "perturbation_seed": perturb.map(|x| x.to_string())}),
            Op::SetValidationPolicy(x) => json!({"op": "set_validation_policy", "value": format!("{:?}", validation_policy(*x))}),
            Op::SetRepairPolicy(x) => json!({"op": "set_delaunay_repair_policy", "value": format!("{:?}", repair_policy(*x))}),
            Op::SetCheckPolicy(x) => json!({"op": "set_delaunay_check_policy", "value": format!("{:?}", check_policy(*x))}),
            Op::SetGuarantee(x) => json!({"op": "set_topology_guarantee", "value": format!("{:?}", guarantee(*x))}),
            Op::TouchMut => json!({"op": "as_triangulation_mut"}),
            Op::CloneSwap => json!({"op": "clone-and-continue"}),
        }
    }
}

pub fn validation_policy(x: u8) -> ValidationPolicy {
    match x % 4 {
        0 => ValidationPolicy::Never,
        1 => ValidationPolicy::OnSuspicion,
        2 => ValidationPolicy::Always,
        _ => ValidationPolicy::DebugOnly,
    }
}
pub fn repair_policy(x: u8) -> DelaunayRepairPolicy {
    match x % 4 {
        0 => DelaunayRepairPolicy::Never,
        1 => DelaunayRepairPolicy::EveryInsertion,
        2 => DelaunayRepairPolicy::EveryN(NonZeroUsize::new(2).unwrap()),
        _ => DelaunayRepairPolicy::EveryN(NonZeroUsize::new(5).unwrap()),
    }
}
pub fn check_policy(x: u8) -> DelaunayCheckPolicy {
    match x % 3 {
        0 => DelaunayCheckPolicy::EndOnly,
        1 => DelaunayCheckPolicy::EveryN(NonZeroUsize::new(1).unwrap()),
        _ => DelaunayCheckPolicy::EveryN(NonZeroUsize::new(3).unwrap()),
    }
}
pub fn guarantee(x: u8) -> Guarantee {
    match x % 3 {
        0 => Guarantee::Pseudomanifold,
        1 => Guarantee::PLManifold,
        _ => Guarantee::PLManifoldStrict,
    }
}

/// Outcome of an applied operation, reduced to plain data.
#[derive(Clone, Debug)]
pub enum Res<const D: usize> {
    /// insert / insert_with_statistics reported an insertion
    Inserted { key: VertexKey, attempts: Option<usize> },
    /// insert_with_statistics reported Skipped{error}
    Skipped { error: String, duplicate: bool },
    /// remove_vertex Ok(n)
    Removed(usize),
    Flip(FlipData),
    RepairOk { flips: usize, heuristic: bool },
    Unit,
    Err { error: String, class: String },
}

#[derive(Clone, Debug)]
pub struct FlipData {
    pub kind: String,
    pub direction: String,
    pub removed_cells: Vec<CellKey>,
    pub new_cells: Vec<CellKey>,
    pub removed_face: Vec<VertexKey>,
    pub inserted_face: Vec<VertexKey>,
}

impl FlipData {
    pub fn from<const D: usize>(i: &FlipInfo<D>) -> Self {
        Self {
            kind: format!("{:?}", i.kind),
            direction: format!("{:?}", i.direction),
            removed_cells: i.removed_cells.iter().copied().collect(),
            new_cells: i.new_cells.iter().copied().collect(),
            removed_face: i.removed_face_vertices.iter().copied().collect(),
            inserted_face: i.inserted_face_vertices.iter().copied().collect(),
        }
    }
}

impl<const D: usize> Res<D> {
    pub fn is_err(&self) -> bool {
        matches!(self, Res::Err { .. })
    }
    pub fn failed_or_skipped(&self) -> bool {
        matches!(self, Res::Err { .. } | Res::Skipped { .. })
    }
    pub fn label(&self) -> String {
        match self {
            Res::Inserted { .. } => "Inserted".into(),
            Res::Skipped { duplicate, .. } => if *duplicate { "SkippedDuplicate".into() } else { "SkippedDegeneracy".into() },
            Res::Removed(n) => if *n == 0 { "Removed(0)".into() } else { "Removed(n)".into() },
            Res::Flip(_) => "FlipOk".into(),
            Res::RepairOk { heuristic, .. } => if *heuristic { "RepairOk(heuristic)".into() } else { "RepairOk".into() },
            Res::Unit => "Ok".into(),
            Res::Err { class, .. } => format!("Err({})", class),
        }
    }
}

fn err_class(s: &str) -> String {
    // first words up to ':' / '(' — the variant-ish prefix of the Display text
    let t: String = s.chars().take_while(|c| *c != ':' && *c != '(' && *c != '{').collect();
    t.trim().chars().take(48).collect()
}

/// Applies one operation (guarded). Returns Err(PanicInfo) if the library panicked.
pub fn apply<K, const D: usize>(dt: &mut Dt<K, D>, op: &Op<D>) -> Result<Res<D>, PanicInfo>
where
    K: Kernel<D, Scalar = f64>,
{
    guard(|| match op {
        Op::Insert { p, uuid, data, .. } => match dt.insert(mk_vertex::<i32, D>(*p, *uuid, *data)) {
            Ok(key) => Res::Inserted { key, attempts: None },
            Err(e) => Res::Err { class: err_class(&e.to_string()), error: e.to_string() },
        },
        Op::InsertStats { p, uuid, data, .. } => match dt.insert_with_statistics(mk_vertex::<i32, D>(*p, *uuid, *data)) {
            Ok((InsertionOutcome::Inserted { vertex_key, .. }, st)) => Res::Inserted { key: vertex_key, attempts: Some(st.attempts) },
            Ok((InsertionOutcome::Skipped { error }, st)) => Res::Skipped { error: error.to_string(), duplicate: st.skipped_duplicate() },
            Err(e) => Res::Err { class: err_class(&e.to_string()), error: e.to_string() },
        },
        Op::Remove { uuid, p, .. } => {
            let v = mk_vertex::<i32, D>(*p, *uuid, None);
            match dt.remove_vertex(&v) {
                Ok(n) => Res::Removed(n),
                Err(e) => Res::Err { class: err_class(&e.to_string()), error: e.to_string() },
            }
        }
        Op::FlipK1Insert { cell, p, uuid, .. } => flipres(dt.flip_k1_insert(*cell, mk_vertex::<i32, D>(*p, *uuid, Some(7)))),
        Op::FlipK1Remove { vertex, .. } => flipres(dt.flip_k1_remove(*vertex)),
        Op::FlipK2 { cell, idx, .. } => flipres(dt.flip_k2(FacetHandle::new(*cell, *idx))),
        Op::FlipK3 { cell, a, b, .. } => flipres(dt.flip_k3(RidgeHandle::new(*cell, *a, *b))),
        Op::FlipK2Inv { a, b, .. } => flipres(dt.flip_k2_inverse_from_edge(EdgeKey::new(*a, *b))),
        Op::FlipK3Inv { a, b, c, .. } => flipres(dt.flip_k3_inverse_from_triangle(TriangleHandle::new(*a, *b, *c))),
        Op::Repair => match dt.repair_delaunay_with_flips() {
            Ok(st) => Res::RepairOk { flips: st.flips_performed, heuristic: false },
            Err(e) => Res::Err { class: err_class(&e.to_string()), error: e.to_string() },
        },
        Op::RepairAdvanced { shuffle, perturb } => match dt.repair_delaunay_with_flips_advanced(DelaunayRepairHeuristicConfig { shuffle_seed: *shuffle, perturbation_seed: *perturb }) {
            Ok(o) => Res::RepairOk { flips: o.stats.flips_performed, heuristic: o.used_heuristic() },
            Err(e) => Res::Err { class: err_class(&e.to_string()), error: e.to_string() },
        },
        Op::SetValidationPolicy(x) => {
            let pol = validation_policy(*x);
            // the library debug-asserts on incompatible (guarantee, policy) pairs; only set compatible ones
            if dt.topology_guarantee().is_compatible_with_policy(pol) {
                dt.set_validation_policy(pol);
            }
            Res::Unit
        }
        Op::SetRepairPolicy(x) => {
            dt.set_delaunay_repair_policy(repair_policy(*x));
            Res::Unit
        }
        Op::SetCheckPolicy(x) => {
            dt.set_delaunay_check_policy(check_policy(*x));
            Res::Unit
        }
        Op::SetGuarantee(x) => {
            let g = guarantee(*x).to_lib();
            if g.is_compatible_with_policy(dt.validation_policy()) {
                dt.set_topology_guarantee(g);
            }
            Res::Unit
        }
        Op::TouchMut => {
            let _ = dt.as_triangulation_mut();
            Res::Unit
        }
        Op::CloneSwap => {
            let c = dt.clone();
            *dt = c;
            Res::Unit
        }
    })
}

fn flipres<const D: usize>(r: Result<FlipInfo<D>, delaunay::triangulation::flips::FlipError>) -> Res<D> {
    match r {
        Ok(i) => Res::Flip(FlipData::from(&i)),
        Err(e) => Res::Err { class: err_class(&e.to_string()), error: e.to_string() },
    }
}

// ---------------------------------------------------------------------------------------------
// Generation of operations relative to the current state
// ---------------------------------------------------------------------------------------------

/// Memory of a history: removed vertices, stale keys, all points ever used.
#[derive(Clone, Debug, Default)]
pub struct Memory<const D: usize> {
    pub removed: Vec<(Uuid, [f64; D])>,
    pub stale_cells: Vec<CellKey>,
    pub stale_vertices: Vec<VertexKey>,
    pub used_uuids: Vec<Uuid>,
    /// scale of the workload (spacing of the dyadic grid used for new points)
    pub grid: f64,
    pub extent: f64,
    /// scripted operations that `run_history` plays (front first) before generating random ones
    pub script: Vec<Op<D>>,
}

/// Relative weights of operation classes.
#[derive(Clone, Debug)]
pub struct Mix {
    pub insert: u32,
    pub insert_stats: u32,
    pub remove: u32,
    pub flips: u32,
    pub repair: u32,
    pub policy: u32,
    pub misc: u32,
}

impl Mix {
    pub fn insert_only() -> Self {
        Self { insert: 6, insert_stats: 4, remove: 0, flips: 0, repair: 0, policy: 1, misc: 1 }
    }
    pub fn insert_remove() -> Self {
        Self { insert: 5, insert_stats: 3, remove: 5, flips: 0, repair: 0, policy: 1, misc: 1 }
    }
    pub fn everything() -> Self {
        Self { insert: 5, insert_stats: 3, remove: 3, flips: 6, repair: 2, policy: 1, misc: 1 }
    }
    pub fn flips_mostly() -> Self {
        Self { insert: 1, insert_stats: 0, remove: 0, flips: 12, repair: 0, policy: 0, misc: 0 }
    }
}

fn grid_point<const D: usize>(rng: &mut Rng, mem: &Memory<D>) -> [f64; D] {
    let mut p = [0.0; D];
    let n = (mem.extent / mem.grid) as i64;
    for x in p.iter_mut() {
        *x = rng.range_i64(0, n.max(1)) as f64 * mem.grid;
    }
    p
}

/// A point chosen relative to the current complex.
pub fn point_for<const D: usize>(rng: &mut Rng, m: &RefModel<D>, mem: &Memory<D>) -> ([f64; D], &'static str) {
    let choice = rng.usize(100);
    if m.verts.is_empty() || choice < 30 {
        return (grid_point(rng, mem), "grid");
    }
    if choice < 40 {
        // exact duplicate of a present vertex
        return (rng.pick(&m.verts).p, "duplicate");
    }
    if choice < 47 {
        // near duplicate
        let mut p = rng.pick(&m.verts).p;
        let j = rng.usize(D);
        p[j] += 1e-10 * [0.5, 0.999, 1.001, 2.0, 100.0][rng.usize(5)] * if rng.bool() { 1.0 } else { -1.0 };
        return (p, "near-duplicate");
    }
    if choice < 52 && !mem.removed.is_empty() {
        return (rng.pick(&mem.removed).1, "formerly-removed");
    }
    if !m.cells.is_empty() {
        let c = rng.pick(&m.cells);
        if let Some(pts) = m.cell_points(c) {
            if choice < 62 {
                // midpoint of an edge (exactly on the edge when representable)
                let a = rng.usize(pts.len());
                let mut b = rng.usize(pts.len());
                if b == a {
                    b = (a + 1) % pts.len();
                }
                let mut p = [0.0; D];
                for j in 0..D {
                    p[j] = (pts[a][j] + pts[b][j]) / 2.0;
                }
                return (p, "edge-midpoint");
            }
            if choice < 80 {
                // interior-ish: weighted combination with dyadic weights
                let mut p = [0.0; D];
                let w: Vec<f64> = (0..pts.len()).map(|_| 1.0 + rng.usize(4) as f64).collect();
                let s: f64 = w.iter().sum();
                for j in 0..D {
                    p[j] = pts.iter().zip(&w).map(|(q, wi)| q[j] * wi).sum::<f64>() / s;
                }
                return (p, "cell-interior");
            }
            if choice < 86 {
                // on a facet-ish: combination of D of the D+1 vertices
                let skip = rng.usize(pts.len());
                let mut p = [0.0; D];
                let cnt = (pts.len() - 1) as f64;
                for j in 0..D {
                    p[j] = pts.iter().enumerate().filter(|(i, _)| *i != skip).map(|(_, q)| q[j]).sum::<f64>() / cnt;
                }
                return (p, "facet-centroid");
            }
        }
    }
    if choice < 93 {
        // outside, near: beyond the bounding box by one grid step
        let mut p = grid_point(rng, mem);
        let j = rng.usize(D);
        p[j] = if rng.bool() { mem.extent + mem.grid * (1 + rng.usize(3)) as f64 } else { -mem.grid * (1 + rng.usize(3)) as f64 };
        return (p, "outside-near");
    }
    let mut p = grid_point(rng, mem);
    for x in p.iter_mut() {
        *x *= 16.0;
    }
    let j = rng.usize(D);
    p[j] = -mem.extent * 8.0;
    (p, "outside-far")
}

fn pick_cell<const D: usize>(rng: &mut Rng, m: &RefModel<D>, mem: &Memory<D>) -> (CellKey, &'static str) {
    if (m.cells.is_empty() || rng.chance(1, 12)) && !mem.stale_cells.is_empty() {
        return (*rng.pick(&mem.stale_cells), "stale");
    }
    if m.cells.is_empty() {
        return (CellKey::default(), "null");
    }
    (rng.pick(&m.cells).key, "live")
}

fn pick_vertex<const D: usize>(rng: &mut Rng, m: &RefModel<D>, mem: &Memory<D>) -> (VertexKey, &'static str) {
    if (m.verts.is_empty() || rng.chance(1, 12)) && !mem.stale_vertices.is_empty() {
        return (*rng.pick(&mem.stale_vertices), "stale");
    }
    if m.verts.is_empty() {
        return (VertexKey::default(), "null");
    }
    (rng.pick(&m.verts).key, "live")
}

pub fn next_op<const D: usize>(rng: &mut Rng, m: &RefModel<D>, mem: &Memory<D>, mix: &Mix) -> Op<D> {
    let total = mix.insert + mix.insert_stats + mix.remove + mix.flips + mix.repair + mix.policy + mix.misc;
    let mut r = rng.below(total as u64) as u32;
    let mut uuid = rng.uuid();
    if rng.chance(1, 40) && !m.verts.is_empty() {
        uuid = rng.pick(&m.verts).uuid; // duplicate UUID
    }
    let data = if rng.chance(1, 6) { None } else { Some(rng.range_i64(1, 1_000_000)) };
    if r < mix.insert {
        let (p, how) = point_for(rng, m, mem);
        return Op::Insert { p, uuid, data, how };
    }
    r -= mix.insert;
    if r < mix.insert_stats {
        let (p, how) = point_for(rng, m, mem);
        return Op::InsertStats { p, uuid, data, how };
    }
    r -= mix.insert_stats;
    if r < mix.remove {
        if m.verts.is_empty() || rng.chance(1, 15) {
            // unknown vertex
            if !mem.removed.is_empty() && rng.bool() {
                let (u, p) = *rng.pick(&mem.removed);
                return Op::Remove { uuid: u, p, how: "already-removed" };
            }
            return Op::Remove { uuid: rng.uuid(), p: [0.0; D], how: "unknown" };
        }
        let v = rng.pick(&m.verts);
        return Op::Remove { uuid: v.uuid, p: v.p, how: "live" };
    }
    r -= mix.remove;
    if r < mix.flips {
        let which = rng.usize(if D >= 4 { 6 } else if D >= 3 { 5 } else { 3 });
        match which {
            0 => {
                let (cell, how) = pick_cell(rng, m, mem);
                let p = match m.cell(cell).and_then(|c| m.cell_points(c)) {
                    Some(pts) if rng.chance(4, 5) => {
                        let mut q = [0.0; D];
                        let w: Vec<f64> = (0..pts.len()).map(|_| 1.0 + rng.usize(3) as f64).collect();
                        let s: f64 = w.iter().sum();
                        for j in 0..D {
                            q[j] = pts.iter().zip(&w).map(|(x, wi)| x[j] * wi).sum::<f64>() / s;
                        }
                        q
                    }
                    _ => point_for(rng, m, mem).0,
                };
                Op::FlipK1Insert { cell, p, uuid, how }
            }
            1 => {
                let (vertex, how) = pick_vertex(rng, m, mem);
                Op::FlipK1Remove { vertex, how }
            }
            2 => {
                let (cell, how) = pick_cell(rng, m, mem);
                let idx = if rng.chance(1, 15) { rng.usize(256) as u8 } else { rng.usize(D + 1) as u8 };
                Op::FlipK2 { cell, idx, how }
            }
            3 => {
                let (cell, how) = pick_cell(rng, m, mem);
                let (a, b) = if rng.chance(1, 15) { (rng.usize(256) as u8, rng.usize(256) as u8) } else { (rng.usize(D + 1) as u8, rng.usize(D + 1) as u8) };
                Op::FlipK3 { cell, a, b, how }
            }
            4 => {
                // an edge: two vertices of one cell (live edge) or arbitrary pair
                if !m.cells.is_empty() && rng.chance(5, 6) {
                    let c = rng.pick(&m.cells);
                    let a = c.v[rng.usize(c.v.len())];
                    let b = c.v[rng.usize(c.v.len())];
                    Op::FlipK2Inv { a, b, how: "cell-edge" }
                } else {
                    let (a, _) = pick_vertex(rng, m, mem);
                    let (b, _) = pick_vertex(rng, m, mem);
                    Op::FlipK2Inv { a, b, how: "arbitrary" }
                }
            }
            _ => {
                if !m.cells.is_empty() && rng.chance(5, 6) {
                    let c = rng.pick(&m.cells);
                    let a = c.v[rng.usize(c.v.len())];
                    let b = c.v[rng.usize(c.v.len())];
                    let cc = c.v[rng.usize(c.v.len())];
                    Op::FlipK3Inv { a, b, c: cc, how: "cell-triangle" }
                } else {
                    let (a, _) = pick_vertex(rng, m, mem);
                    let (b, _) = pick_vertex(rng, m, mem);
                    let (c, _) = pick_vertex(rng, m, mem);
                    Op::FlipK3Inv { a, b, c, how: "arbitrary" }
                }
            }
        }
    } else {
        r -= mix.flips;
        if r < mix.repair {
            if rng.bool() {
                return Op::Repair;
            }
            return Op::RepairAdvanced { shuffle: if rng.bool() { Some(rng.next_u64()) } else { None }, perturb: if rng.bool() { Some(rng.next_u64()) } else { None } };
        }
        r -= mix.repair;
        if r < mix.policy {
            return match rng.usize(4) {
                0 => Op::SetValidationPolicy(rng.usize(4) as u8),
                1 => Op::SetRepairPolicy(rng.usize(4) as u8),
                2 => Op::SetCheckPolicy(rng.usize(3) as u8),
                _ => Op::SetGuarantee(rng.usize(3) as u8),
            };
        }
        if rng.bool() { Op::TouchMut } else { Op::CloneSwap }
    }
}

/// One observed step of a history.
pub struct Step<'a, K, const D: usize>
where
    K: Kernel<D, Scalar = f64>,
{
    pub index: usize,
    pub op: &'a Op<D>,
    pub res: &'a Result<Res<D>, PanicInfo>,
    pub pre: &'a RefModel<D>,
    pub post: &'a RefModel<D>,
    pub pre_cfg: &'a Config,
    pub post_cfg: &'a Config,
    pub dt: &'a Dt<K, D>,
    pub log: &'a [Value],
}

/// Runs a generated history of `len` operations on `dt`, calling `observe` after every step.
/// `observe` returns false to stop the history early.
pub fn run_history<K, const D: usize>(
    dt: &mut Dt<K, D>,
    rng: &mut Rng,
    mem: &mut Memory<D>,
    mix: &Mix,
    len: usize,
    mut observe: impl FnMut(&Step<K, D>) -> bool,
) -> Vec<Value>
where
    K: Kernel<D, Scalar = f64>,
{
    let mut log: Vec<Value> = Vec::new();
    let mut pre = RefModel::from_dt(dt);
    let mut pre_cfg = config_of(dt);
    for index in 0..len {
        let op = if mem.script.is_empty() { next_op(rng, &pre, mem, mix) } else { mem.script.remove(0) };
        let t0 = std::time::Instant::now();
        let res = apply(dt, &op);
        let ms = t0.elapsed().as_millis() as u64;
        let post = RefModel::from_dt(dt);
        let post_cfg = config_of(dt);
        let mut entry = op.to_json();
        if ms >= 200 {
            entry["ms"] = json!(ms);
        }
        entry["result"] = json!(match &res {
            Ok(r) => r.label(),
            Err(p) => format!("PANIC {}", p.message),
        });
        log.push(entry);
        // memory updates
        for c in &pre.cells {
            if !post.cidx.contains_key(&c.key) && mem.stale_cells.len() < 64 {
                mem.stale_cells.push(c.key);
            }
        }
        for v in &pre.verts {
            if !post.vidx.contains_key(&v.key) {
                if mem.stale_vertices.len() < 64 {
                    mem.stale_vertices.push(v.key);
                }
                if mem.removed.len() < 64 {
                    mem.removed.push((v.uuid, v.p));
                }
            }
        }
        let go = observe(&Step { index, op: &op, res: &res, pre: &pre, post: &post, pre_cfg: &pre_cfg, post_cfg: &post_cfg, dt, log: &log });
        if res.is_err() {
            // after a panic the object may be in any state; stop the history
            break;
        }
        if !go {
            break;
        }
        pre = post;
        pre_cfg = post_cfg;
    }
    log
}

/// Scripted prefix for histories that start from an empty triangulation: D affinely independent
/// grid points followed by 1-2 points that are exact affine combinations of them (collinear /
/// coplanar bootstrap prefix), so that the insertion completing the initial simplex is degenerate.
pub fn degenerate_bootstrap_script<const D: usize>(rng: &mut Rng, mem: &Memory<D>) -> Vec<Op<D>> {
    let mut pts: Vec<[f64; D]> = Vec::new();
    // e_0 .. e_{D-1} scaled, shifted by a random grid offset: D points spanning a hyperplane
    let s = mem.grid * 4.0;
    let mut off = [0.0; D];
    for x in off.iter_mut() {
        *x = rng.range_i64(0, 3) as f64 * mem.grid;
    }
    for i in 0..D {
        let mut p = off;
        p[i] += s;
        pts.push(p);
    }
    // affine combinations with weights summing to 1 (exact for these dyadic values)
    let a = rng.usize(D);
    let mut b = rng.usize(D);
    if b == a {
        b = (a + 1) % D;
    }
    let mut mid = [0.0; D];
    let mut ext = [0.0; D];
    for j in 0..D {
        mid[j] = (pts[a][j] + pts[b][j]) / 2.0;
        ext[j] = 2.0 * pts[a][j] - pts[b][j];
    }
    pts.push(if rng.bool() { mid } else { ext });
    if rng.bool() {
        pts.push(if rng.bool() { mid } else { ext });
    }
    pts.into_iter()
        .enumerate()
        .map(|(i, p)| if i % 2 == 0 { Op::Insert { p, uuid: rng.uuid(), data: Some(i as i64), how: "degenerate-bootstrap" } } else { Op::InsertStats { p, uuid: rng.uuid(), data: None, how: "degenerate-bootstrap" } })
        .collect()
}
