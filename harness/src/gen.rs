//! Workload generators: point families with exactly representable coordinates.

use crate::rng::Rng;

#[derive(Clone, Copy, Debug, PartialEq, Eq, Hash)]
pub enum Family {
    /// random integer lattice points in [0,k]^D scaled by 2^-j: exact degeneracies are frequent
    Grid,
    /// tiny grid ({0,1,2}^D): massively degenerate
    TinyGrid,
    /// lattice points on a common sphere (signed permutations of one vector) + a few others
    Sphere,
    /// all points in the hyperplane x_D = 0 except 0-2
    Flat,
    /// tight clusters (2^-30 spacing) around a few centres plus far points
    Cluster,
    /// general points plus near-duplicates at the 1e-10 scale
    NearDup,
    /// 53-bit random mantissas in the unit box
    Uniform,
    /// Uniform scaled by a large/small power of two
    Scaled,
    /// points in convex position (moment curve)
    Hull,
    /// many points on one line inside a general set
    Stacked,
    /// general position on a coarse dyadic grid (well conditioned, exact oracle is decisive)
    Dyadic,
}

pub const ALL_FAMILIES: [Family; 11] = [
    Family::Grid,
    Family::TinyGrid,
    Family::Sphere,
    Family::Flat,
    Family::Cluster,
    Family::NearDup,
    Family::Uniform,
    Family::Scaled,
    Family::Hull,
    Family::Stacked,
    Family::Dyadic,
];

/// Families on which construction is expected to succeed often and the exact oracle decides
/// nearly every pair.
pub const NICE_FAMILIES: [Family; 4] = [Family::Dyadic, Family::Grid, Family::Uniform, Family::Hull];

impl Family {
    pub fn name(self) -> &'static str {
        match self {
            Family::Grid => "grid",
            Family::TinyGrid => "tinygrid",
            Family::Sphere => "sphere",
            Family::Flat => "flat",
            Family::Cluster => "cluster",
            Family::NearDup => "neardup",
            Family::Uniform => "uniform",
            Family::Scaled => "scaled",
            Family::Hull => "hull",
            Family::Stacked => "stacked",
            Family::Dyadic => "dyadic",
        }
    }
    pub fn from_name(s: &str) -> Option<Self> {
        ALL_FAMILIES.iter().copied().find(|f| f.name() == s)
    }
}

fn dedup_exact<const D: usize>(pts: &mut Vec<[f64; D]>) {
    let mut seen = std::collections::HashSet::new();
    pts.retain(|p| seen.insert(p.map(|x| if x == 0.0 { 0u64 } else { x.to_bits() })));
}

pub fn points<const D: usize>(rng: &mut Rng, fam: Family, n: usize) -> Vec<[f64; D]> {
    let mut pts: Vec<[f64; D]> = Vec::with_capacity(n);
    match fam {
        Family::Grid => {
            let k = [3i64, 4, 6, 8, 16][rng.usize(5)];
            let j = rng.range_i64(0, 3) as i32;
            let s = 2f64.powi(-j);
            for _ in 0..n {
                let mut p = [0.0; D];
                for x in p.iter_mut() {
                    *x = rng.range_i64(0, k) as f64 * s;
                }
                pts.push(p);
            }
        }
        Family::TinyGrid => {
            for _ in 0..n {
                let mut p = [0.0; D];
                for x in p.iter_mut() {
                    *x = rng.range_i64(0, 2) as f64;
                }
                pts.push(p);
            }
        }
        Family::Sphere => {
            // base vector with distinct small integer entries; signed permutations share the norm
            let mut base = [0i64; D];
            for (i, b) in base.iter_mut().enumerate() {
                *b = (i as i64 % 3) + rng.range_i64(0, 2);
            }
            let on_sphere = (n * 3 / 4).max(D + 2).min(n);
            for _ in 0..on_sphere {
                let mut idx: Vec<usize> = (0..D).collect();
                rng.shuffle(&mut idx);
                let mut p = [0.0; D];
                for j in 0..D {
                    let sgn = if rng.bool() { 1.0 } else { -1.0 };
                    p[j] = base[idx[j]] as f64 * sgn;
                }
                pts.push(p);
            }
            while pts.len() < n {
                let mut p = [0.0; D];
                for x in p.iter_mut() {
                    *x = rng.range_i64(-4, 4) as f64 * 0.5;
                }
                pts.push(p);
            }
        }
        Family::Flat => {
            let off = rng.usize(3);
            for i in 0..n {
                let mut p = [0.0; D];
                for x in p.iter_mut() {
                    *x = rng.range_i64(0, 8) as f64;
                }
                if i >= off {
                    p[D - 1] = 0.0;
                } else {
                    p[D - 1] = rng.range_i64(1, 4) as f64;
                }
                pts.push(p);
            }
        }
        Family::Cluster => {
            let nc = 1 + rng.usize(3);
            let centres: Vec<[f64; D]> = (0..nc)
                .map(|_| {
                    let mut p = [0.0; D];
                    for x in p.iter_mut() {
                        *x = rng.range_i64(-4, 4) as f64;
                    }
                    p
                })
                .collect();
            let eps = 2f64.powi(-30);
            for i in 0..n {
                if i % 4 == 3 {
                    let mut p = [0.0; D];
                    for x in p.iter_mut() {
                        *x = rng.range_i64(-16, 16) as f64;
                    }
                    pts.push(p);
                } else {
                    let c = centres[rng.usize(nc)];
                    let mut p = c;
                    for x in p.iter_mut() {
                        *x += rng.range_i64(-8, 8) as f64 * eps;
                    }
                    pts.push(p);
                }
            }
        }
        Family::NearDup => {
            let m = (n / 2).max(D + 1);
            for _ in 0..m {
                let mut p = [0.0; D];
                for x in p.iter_mut() {
                    *x = rng.range_i64(0, 64) as f64 / 8.0;
                }
                pts.push(p);
            }
            let factors = [0.5, 0.999, 1.001, 2.0, 10.0];
            while pts.len() < n {
                let base = pts[rng.usize(m)];
                let mut p = base;
                let j = rng.usize(D);
                p[j] += 1e-10 * factors[rng.usize(factors.len())] * if rng.bool() { 1.0 } else { -1.0 };
                pts.push(p);
            }
        }
        Family::Uniform => {
            for _ in 0..n {
                let mut p = [0.0; D];
                for x in p.iter_mut() {
                    *x = rng.f64();
                }
                pts.push(p);
            }
        }
        Family::Scaled => {
            let s = [-300, -200, -60, -20, 20, 60, 200, 300][rng.usize(8)];
            let f = 2f64.powi(s);
            for _ in 0..n {
                let mut p = [0.0; D];
                for x in p.iter_mut() {
                    *x = rng.range_i64(-512, 512) as f64 / 64.0 * f;
                }
                pts.push(p);
            }
        }
        Family::Hull => {
            // moment curve t -> (t, t^2, ..., t^D): points in convex position, no D+2 cospherical in general
            let mut ts: Vec<i64> = (-(n as i64) / 2..=(n as i64) / 2 + 1).collect();
            rng.shuffle(&mut ts);
            for &t in ts.iter().take(n) {
                let mut p = [0.0; D];
                let mut v = 1.0;
                for x in p.iter_mut() {
                    v *= t as f64 / 4.0;
                    *x = v;
                }
                pts.push(p);
            }
        }
        Family::Stacked => {
            let on_line = n / 2;
            let mut dir = [0.0; D];
            for x in dir.iter_mut() {
                *x = rng.range_i64(-2, 2) as f64;
            }
            if dir.iter().all(|x| *x == 0.0) {
                dir[0] = 1.0;
            }
            for i in 0..on_line {
                let mut p = [0.0; D];
                for j in 0..D {
                    p[j] = dir[j] * i as f64 * 0.5;
                }
                pts.push(p);
            }
            while pts.len() < n {
                let mut p = [0.0; D];
                for x in p.iter_mut() {
                    *x = rng.range_i64(-8, 8) as f64;
                }
                pts.push(p);
            }
        }
        Family::Dyadic => {
            // 2^-10 grid in [0,1): 1024 values per axis -> exact degeneracy is rare, oracle decisive
            for _ in 0..n {
                let mut p = [0.0; D];
                for x in p.iter_mut() {
                    *x = rng.range_i64(0, 1023) as f64 / 1024.0;
                }
                pts.push(p);
            }
        }
    }
    if fam != Family::NearDup {
        dedup_exact(&mut pts);
    }
    rng.shuffle(&mut pts);
    pts
}

/// A point set size appropriate for dimension `D` (small triangulations reach fallback paths
/// more often per second than large ones).
pub fn size_for<const D: usize>(rng: &mut Rng, thorough: bool) -> usize {
    let lo = D + 1;
    let hi = if thorough { [0, 0, 60, 40, 24, 16][D] } else { [0, 0, 30, 20, 12, 9][D] };
    lo + rng.usize(hi - lo + 1)
}
