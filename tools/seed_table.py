#!/usr/bin/env python3
"""Fills detected_by / runs in seeded/S*/meta.json from seeded/RESULTS.tsv and rewrites the seed table rows in DESIGN.md."""
import csv, glob, json, os, re
res = {}
for row in csv.reader(open('/verif/seeded/RESULTS.tsv'), delimiter='\t'):
    if len(row) >= 5:
        res.setdefault(row[0], []).append(row)
for sid, rows in res.items():
    p = f'/verif/seeded/{sid}/meta.json'
    if not os.path.exists(p):
        continue
    m = json.load(open(p))
    own = [r for r in rows if r[1] == m['breaks_property']] or rows
    last = own[-1]
    m['runs'] = [f"{r[1]}:{r[2]}{'(' + r[4].replace('signature=', '') + ')' if r[4] else ''}" for r in rows]
    if last[2] == 'DETECTED':
        m['detected_by'] = f"{last[1]} quick ({last[4].replace('signature=', '')})"
        if any(r[2] == 'MISSED' for r in own[:-1]):
            m['detected_by'] += ' — missed by the first version of the check; strengthened (DESIGN.md 6c)'
        others = sorted({r[1] for r in rows if r[2] == 'DETECTED' and r[1] != last[1]})
        if others:
            m['detected_by'] += '; also ' + ', '.join(others)
    else:
        m['detected_by'] = 'NOT YET DETECTED'
    json.dump(m, open(p, 'w'), indent=1)
rows = []
for d in sorted(glob.glob('/verif/seeded/S*/meta.json')):
    m = json.load(open(d))
    rows.append(f"| {m['id']} | {m['breaks_property']} | {m['change']} | {m['needs_to_manifest']} | {m.get('detected_by', '')} |")
p = '/verif/DESIGN.md'
s = open(p).read()
lines = s.split('\n')
out, skipping, done = [], False, False
for ln in lines:
    if ln.startswith('| S') and re.match(r'\| S\d+\w* \|', ln):
        if not done:
            out.extend(rows)
            done = True
        continue
    out.append(ln)
open(p, 'w').write('\n'.join(out))
print(len(rows), 'rows')
