#!/usr/bin/env python3
"""Regenerates /verif/MANIFEST.json from the table below (run after adding a monitor)."""
import json, os, subprocess
ROOT = os.path.dirname(os.path.dirname(os.path.abspath(__file__)))

IMPLEMENTED = json.load(open(os.path.join(ROOT, "tools", "implemented.json")))

TABLE = {
 "C01": ("exploration", "3.C01", "generated point sets x option matrix; RefCheck L1-L3 + convex boundary + exact empty-sphere + vertex accounting on every Ok result",
         "runtime monitor: independent exact oracle over public read API"),
 "C02": ("exploration", "3.C02", "insertion histories; RefCheck after every call, identity of the inserted vertex, exact L4 when the per-insertion check is on",
         "runtime monitor: invariant check at every quiescent point of generated histories"),
 "C03": ("fault_enumeration", "3.C03", "natural failures plus one forced failure per reached failpoint site per call; full-state fingerprint before == after; twin divergence",
         "runtime monitor: failpoint injection + state fingerprint comparison"),
 "C04": ("exploration", "3.C04", "verdicts of the Level-4 entry points on Delaunay and deliberately non-Delaunay triangulations vs the exact cell x vertex oracle",
         "runtime monitor: differential check against exact in-sphere oracle"),
 "C05": ("fault_enumeration", "3.C05", "single and double corruptions of valid complexes; library verdict per level == RefCheck verdict per level",
         "runtime monitor: fault injection through guarded accessors + reference validator"),
 "C06": ("exploration", "3.C06", "removal of every vertex class interleaved with insertions; RefCheck + vertex-set diff + exact L4 when repair is on",
         "runtime monitor: invariant check after every removal in generated histories"),
 "C07": ("exploration", "3.C07", "every handle x every move, random flip walks, inverse round trips; manifold invariants, cell deltas, FlipInfo vs state diff",
         "runtime monitor: state-diff oracle over enumerated handles and random flip walks"),
 "C08": ("exploration", "3.C08", "repair from arbitrary flip distance; RefCheck + exact L4 + equality with fresh construction under the uniqueness certificate; flip-tick budget",
         "runtime monitor: exact oracle + reference construction + tick counters"),
 "C09": ("exploration", "3.C09", "histories ending in probe insertions at/near current and former vertices; exact pairwise distances vs the documented tolerance",
         "runtime monitor: exact distance oracle over operation histories"),
 "C10": ("exploration", "3.C10", "locate on exactly decidable queries with every hint class; exact point-in-closed-simplex / outside-hull oracle",
         "runtime monitor: exact containment oracle"),
 "C11": ("exploration", "3.C11", "pool of live hulls queried across every mutation; exact hull oracle + (generation, fingerprint) history",
         "runtime monitor: staleness oracle from state fingerprints across histories"),
 "C12": ("exploration", "3.C12", "exhaustive tiny grids (D=2,3) + random well-conditioned and exactly degenerate tuples, permutations; exact determinant sign",
         "runtime monitor: exact-arithmetic sign oracle"),
 "C13": ("exploration", "3.C13", "round trips of reachable triangulations + single-field JSON corruptions; structural equality, RefCheck, behavioural twin",
         "runtime monitor: round-trip equality + reference validator on loaded documents"),
 "C14": ("exploration", "3.C14", "rebuild / permutation / thread / process repetitions; cell sets as coordinate tuples; uniqueness certificate",
         "runtime monitor: repeated execution across threads/processes, result comparison"),
 "C15": ("exploration", "3.C15", "every query on every reachable state, live and stale keys; brute-force face enumeration from raw cells",
         "runtime monitor: brute-force reference model"),
 "C16": ("exploration", "3.C16", "toroidal builds and later insertions on boundary-value inputs; exact congruence, half-open box, RefCheck, chi",
         "runtime monitor: exact modular-arithmetic oracle + reference validator"),
 "C17": ("exploration", "3.C17", "orderings/dedups on adversarial lists; Hilbert curve exhaustively at small depths; multiset equality, exact distance, bijection + adjacency",
         "runtime monitor: exhaustive enumeration of the curve + multiset/ distance oracles"),
 "C18": ("exploration", "3.C18", "measures on exactly representable simplices vs exact rational volume / Gram / Cayley-Menger values",
         "runtime monitor: exact rational geometry oracle"),
 "C19": ("exploration", "3.C19", "all workloads plus adversarial-handle fuzz under catch_unwind, child-process crash detection and logical tick budgets",
         "runtime monitor: panic/crash capture + virtual-time (tick) budget"),
}

NOTE = ("Trusted base: the harness crate /verif/harness (exact.rs dyadic/bigint arithmetic cross-checked against python fractions; "
        "refcheck.rs reference validators), rustc, and the assumption that the public read API (vertices(), cells(), cell.vertices(), "
        "cell.neighbors(), vertex.point()/uuid()/data) reports the stored state faithfully. Verdicts are 'held on the executions observed'.")

hooks_commits = subprocess.run(["git", "-C", "/repo", "log", "--format=%H %s", "eff4639..HEAD"], capture_output=True, text=True).stdout.strip().splitlines()
hook_shas = [l.split()[0] for l in hooks_commits if "verif-hooks" in l]

checks = []
na = []
for pid in sorted(TABLE):
    level, ref, text, tech = TABLE[pid]
    if pid in IMPLEMENTED:
        checks.append(dict(
            property_id=pid,
            quick_cmd=f"./check {pid} --tier quick",
            thorough_cmd=f"./check {pid} --tier thorough",
            evidence_file=f"/verif/evidence/{pid}.json",
            replay_cmd_template=f"./check {pid} --replay {{path}}",
            engine="dverif",
            level_claimed=dict(category=level, text=text + ". Held on the executions observed; nothing is proved.", design_ref="DESIGN.md §" + ref),
            level_note=NOTE,
            technique=tech,
        ))
    else:
        na.append(dict(property_id=pid, reason="monitor designed (DESIGN.md §" + ref + ") but not yet built in this round; not claimed"))

manifest = dict(
    version=1,
    setup_cmd="cd /verif/harness && CARGO_NET_OFFLINE=true cargo build --offline --release --bin dverif && CARGO_NET_OFFLINE=true cargo build --offline --profile relassert --bin dverif && python3 /verif/oracle_py/recheck.py --self-test",
    hooks=dict(
        guard="verif-hooks",
        enable="cargo feature: /verif/harness/Cargo.toml depends on delaunay = { path = \"/repo\", features = [\"verif-hooks\"] }",
        baseline_off_cmd="cd /repo && cargo nextest run --workspace --no-fail-fast --test-threads 8 --offline || cargo test --workspace --no-fail-fast --offline",
        source_commits=hook_shas,
        add_only=True,
    ),
    engines=[dict(name="dverif", path="/verif/harness", serves_properties=sorted(IMPLEMENTED), kind_free_text="Rust harness (runtime monitors, exact oracles, failpoint/tick control) driven by /verif/check")],
    checks=checks,
    notes="Technique family: runtime monitoring. ./check Cxx --tier quick|thorough; exit 0 held / 1 violation / 2 run unusable. Known findings: /verif/known_findings.json.",
    not_applicable=na,
)
json.dump(manifest, open(os.path.join(ROOT, "MANIFEST.json"), "w"), indent=1)
print("wrote MANIFEST.json with", len(checks), "checks;", len(na), "not claimed")
