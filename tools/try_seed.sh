#!/bin/bash
# usage: try_seed.sh <patch.diff> <prop> [<prop> ...]  : apply to /repo, run the quick checks, undo
P=$1; shift
cd /repo && git apply $P || { echo "patch does not apply"; exit 2; }
cd /verif
for c in "$@"; do
  ./check $c --tier quick 2>&1 | grep -E "^\[C|VIOLATION|signature=|RUN-UNUS|BUILD-FAILED" | cut -c1-260 | head -8
done
cd /repo && git checkout -- . && git status --short | head -3
# restore evidence of the unchanged tree later (the driver rewrites it): caller re-runs checks after seeding campaigns
